//! Client side of the workload: tasks using the repository's client API and scripted scenarios on
//! the hand-driven raw connection.
#![allow(dead_code)]
use crate::common::Rng;
use crate::pki;
use crate::raw::{header, Raw};
use crate::srv::*;
use opcua::client::{Client, ClientBuilder, DataChangeCallback, EventCallback, IdentityToken, Session};
use opcua::core::supported_message::SupportedMessage;
use opcua::crypto::CertificateStore;
use opcua::sync::RwLock;
use opcua::types::*;
use std::collections::BTreeMap;
use std::path::PathBuf;
use std::sync::atomic::{AtomicBool, AtomicU64, Ordering};
use std::sync::Arc;
use std::time::Duration;

pub struct Ctx {
    pub url: String,
    pub port: u16,
    pub ns: u16,
    pub endpoints: Vec<EndpointDescription>,
    pub stop: AtomicBool,
    /// calls of Server.GetMonitoredItems / Server.ResendData allowed
    pub risky: AtomicBool,
    /// disconnects allowed (every disconnect clears the server's one shared session table)
    pub churn: AtomicBool,
    pub stats: std::sync::Mutex<BTreeMap<String, (u64, u64)>>,
    pub data_notifications: AtomicU64,
    pub event_notifications: AtomicU64,
    pub sessions_connected: AtomicU64,
    pub connect_failures: AtomicU64,
    pub graceful_disconnects: AtomicU64,
    pub abrupt_drops: AtomicU64,
    pub op_timeouts: AtomicU64,
    pub scratch: PathBuf,
}

impl Ctx {
    pub fn stat(&self, name: &str, ok: bool) {
        let mut s = self.stats.lock().unwrap();
        let e = s.entry(name.to_string()).or_insert((0, 0));
        if ok {
            e.0 += 1;
        } else {
            e.1 += 1;
        }
    }
    pub fn stopped(&self) -> bool {
        self.stop.load(Ordering::Relaxed)
    }
}

pub fn client_pki(scratch: &PathBuf, idx: usize) -> PathBuf {
    let dir = scratch.join(format!("pki-client-{}", idx));
    let own = pki::identity("locks-client", 2048);
    let _ = std::fs::create_dir_all(dir.join("own"));
    let _ = std::fs::create_dir_all(dir.join("private"));
    let _ = pki::cert_store(&dir, &own);
    dir
}

pub fn make_client(scratch: &PathBuf, idx: usize, session_timeout_ms: u32, retry_limit: i32) -> Client {
    let dir = client_pki(scratch, idx);
    ClientBuilder::new()
        .application_name("verif-locks-client")
        .application_uri("urn:verif:locks-client")
        .product_uri("urn:verif:locks-client")
        .pki_dir(dir)
        .create_sample_keypair(false)
        .certificate_path("own/cert.der")
        .private_key_path("private/private.pem")
        .trust_server_certs(true)
        .verify_server_certs(false)
        .session_retry_limit(retry_limit)
        .session_retry_initial(Duration::from_millis(40))
        .session_retry_max(Duration::from_millis(200))
        .keep_alive_interval(Duration::from_millis(400))
        .request_timeout(Duration::from_millis(2500))
        .publish_timeout(Duration::from_millis(3000))
        .min_publish_interval(Duration::from_millis(10))
        .max_inflight_publish(2)
        .session_timeout(session_timeout_ms)
        .session_name(format!("lib-{}", idx))
        .client()
        .expect("client config")
}

#[derive(Default)]
struct SessState {
    subs: Vec<(u32, Vec<u32>)>,
    added: Vec<NodeId>,
    next_added: u32,
}

fn rv(node: NodeId, attr: AttributeId) -> ReadValueId {
    ReadValueId {
        node_id: node,
        attribute_id: attr as u32,
        index_range: UAString::null(),
        data_encoding: QualifiedName::null(),
    }
}

fn some_var(ns: u16, rng: &mut Rng) -> NodeId {
    match rng.usize(8) {
        0..=3 => int_id(ns, rng.usize(N_INT)),
        4 => dbl_id(ns, rng.usize(N_DBL)),
        5 => str_id(ns, rng.usize(N_STR)),
        6 => get_id(ns, rng.usize(N_GET)),
        _ => NodeId::new(ns, "no-such-node"),
    }
}

fn server_var(rng: &mut Rng) -> NodeId {
    let ids = [
        VariableId::Server_ServerStatus_State,
        VariableId::Server_ServerStatus_CurrentTime,
        VariableId::Server_ServerStatus_StartTime,
        VariableId::Server_NamespaceArray,
        VariableId::Server_ServerArray,
        VariableId::Server_ServerDiagnostics_ServerDiagnosticsSummary_CurrentSessionCount,
        VariableId::Server_ServerDiagnostics_ServerDiagnosticsSummary_CumulatedSessionCount,
        VariableId::Server_ServerDiagnostics_ServerDiagnosticsSummary_CurrentSubscriptionCount,
        VariableId::Server_ServerDiagnostics_ServerDiagnosticsSummary_RejectedSessionCount,
        VariableId::Server_ServerCapabilities_MaxBrowseContinuationPoints,
        VariableId::Server_ServiceLevel,
    ];
    (*rng.pick(&ids)).into()
}

fn mon_item(node: NodeId, rng: &mut Rng) -> MonitoredItemCreateRequest {
    let mut r: MonitoredItemCreateRequest = node.into();
    r.requested_parameters.sampling_interval = *rng.pick(&[0.0, 10.0, 20.0, 50.0, 100.0, -1.0]);
    r.requested_parameters.queue_size = *rng.pick(&[0u32, 1, 2, 5, 50]);
    r.requested_parameters.discard_oldest = rng.bool();
    r
}

fn event_item(node: NodeId) -> MonitoredItemCreateRequest {
    let fields = ["EventId", "EventType", "Message", "Time", "SourceName"];
    let select_clauses = Some(
        fields
            .iter()
            .map(|s| SimpleAttributeOperand {
                type_definition_id: ObjectTypeId::BaseEventType.into(),
                browse_path: Some(vec![QualifiedName::from(*s)]),
                attribute_id: AttributeId::Value as u32,
                index_range: UAString::null(),
            })
            .collect(),
    );
    let filter = EventFilter {
        where_clause: ContentFilter { elements: None },
        select_clauses,
    };
    let mut r: MonitoredItemCreateRequest = node.into();
    r.item_to_monitor.attribute_id = AttributeId::EventNotifier as u32;
    r.requested_parameters.sampling_interval = 50.0;
    r.requested_parameters.queue_size = 5;
    r.requested_parameters.filter = ExtensionObject::from_encodable(ObjectId::EventFilter_Encoding_DefaultBinary, &filter);
    r
}

fn fatal(code: StatusCode) -> bool {
    matches!(
        code,
        StatusCode::BadSessionIdInvalid
            | StatusCode::BadSessionClosed
            | StatusCode::BadNotConnected
            | StatusCode::BadConnectionClosed
            | StatusCode::BadSecureChannelClosed
            | StatusCode::BadSecureChannelIdInvalid
            | StatusCode::BadSessionNotActivated
            | StatusCode::BadCommunicationError
            | StatusCode::BadTimeout
            | StatusCode::BadServerNotConnected
    )
}

/// One randomly chosen service call. Returns (service family name, result)
async fn one_op(ctx: &Arc<Ctx>, s: &Arc<Session>, st: &mut SessState, rng: &mut Rng) -> (&'static str, Result<(), StatusCode>) {
    let ns = ctx.ns;
    let risky = ctx.risky.load(Ordering::Relaxed);
    let pick = rng.usize(100);
    match pick {
        0..=11 => {
            let mut nodes = vec![];
            for _ in 0..(1 + rng.usize(5)) {
                let n = if rng.chance(1, 3) { server_var(rng) } else { some_var(ns, rng) };
                let attr = *rng.pick(&[
                    AttributeId::Value,
                    AttributeId::Value,
                    AttributeId::DisplayName,
                    AttributeId::DataType,
                    AttributeId::AccessLevel,
                    AttributeId::BrowseName,
                ]);
                nodes.push(rv(n, attr));
            }
            let ts = *rng.pick(&[TimestampsToReturn::Both, TimestampsToReturn::Neither, TimestampsToReturn::Server]);
            ("read", s.read(&nodes, ts, 0.0).await.map(|_| ()))
        }
        12..=21 => {
            let mut w = vec![];
            for _ in 0..(1 + rng.usize(3)) {
                let (node, val): (NodeId, Variant) = match rng.usize(5) {
                    0 | 1 => (int_id(ns, rng.usize(N_INT)), Variant::from(rng.next_u32() as i32)),
                    2 => (dbl_id(ns, rng.usize(N_DBL)), Variant::from(rng.f64_unit())),
                    3 => (str_id(ns, rng.usize(N_STR)), Variant::from(format!("c{}", rng.next_u32() % 100))),
                    _ => (int_id(ns, rng.usize(N_INT)), Variant::from("wrong type")),
                };
                w.push(WriteValue {
                    node_id: node,
                    attribute_id: AttributeId::Value as u32,
                    index_range: UAString::null(),
                    value: DataValue::value_only(val),
                });
            }
            ("write", s.write(&w).await.map(|_| ()))
        }
        22..=29 => {
            let node = match rng.usize(5) {
                0 => NodeId::objects_folder_id(),
                1 => vars_folder(ns),
                2 => dyn_folder(ns),
                3 => ObjectId::Server.into(),
                _ => srvdyn_folder(ns),
            };
            let bd = BrowseDescription {
                node_id: node,
                browse_direction: *rng.pick(&[BrowseDirection::Forward, BrowseDirection::Both, BrowseDirection::Inverse]),
                reference_type_id: ReferenceTypeId::HierarchicalReferences.into(),
                include_subtypes: true,
                node_class_mask: 0,
                result_mask: BrowseDescriptionResultMask::all().bits(),
            };
            let r = s.browse(&[bd]).await;
            // release whatever continuation points came back
            if let Ok(Some(results)) = &r {
                let cps: Vec<ByteString> = results
                    .iter()
                    .filter(|r| !r.continuation_point.is_null())
                    .map(|r| r.continuation_point.clone())
                    .collect();
                if !cps.is_empty() {
                    let _ = s.browse_next(rng.bool(), &cps).await;
                }
            }
            ("browse", r.map(|_| ()))
        }
        30..=32 => {
            // browse next with a stale / made-up continuation point
            let cp = ByteString::from(rng.bytes(8));
            ("browse_next", s.browse_next(rng.bool(), &[cp]).await.map(|_| ()))
        }
        33..=37 => {
            let name = format!("v{:03}", rng.usize(N_INT + 4));
            let bp = BrowsePath {
                starting_node: NodeId::objects_folder_id(),
                relative_path: RelativePath {
                    elements: Some(vec![
                        RelativePathElement {
                            reference_type_id: ReferenceTypeId::Organizes.into(),
                            is_inverse: false,
                            include_subtypes: true,
                            target_name: QualifiedName::new(0, "Vars"),
                        },
                        RelativePathElement {
                            reference_type_id: ReferenceTypeId::Organizes.into(),
                            is_inverse: false,
                            include_subtypes: true,
                            target_name: QualifiedName::new(0, name.as_str()),
                        },
                    ]),
                },
            };
            ("translate", s.translate_browse_paths_to_node_ids(&[bp]).await.map(|_| ()))
        }
        38..=40 => {
            let nodes = vec![some_var(ns, rng), some_var(ns, rng)];
            let r = s.register_nodes(&nodes).await;
            if r.is_ok() {
                let _ = s.unregister_nodes(&nodes).await;
            }
            ("register_nodes", r.map(|_| ()))
        }
        41..=44 => {
            let arg = if rng.chance(1, 5) { Variant::from(7u32) } else { Variant::from("w") };
            let req: CallMethodRequest = (functions_id(ns), hellox_id(ns), Some(vec![arg])).into();
            ("call", s.call(req).await.map(|_| ()))
        }
        45..=48 => {
            if !risky {
                return ("noop", Ok(()));
            }
            // the built-in Server methods
            let sub = st.subs.first().map(|s| s.0).unwrap_or(rng.next_u32() % 50);
            if rng.bool() {
                ("call_get_monitored_items", s.call_get_monitored_items(sub).await.map(|_| ()))
            } else {
                let server: NodeId = ObjectId::Server.into();
                let method: NodeId = MethodId::Server_ResendData.into();
                let req: CallMethodRequest = (server, method, Some(vec![Variant::from(sub)])).into();
                ("call_resend_data", s.call(req).await.map(|_| ()))
            }
        }
        49..=54 => {
            st.next_added += 1;
            let id = NodeId::new(ns, format!("c{}-{}", s.session_id(), st.next_added % 24));
            let attrs = VariableAttributes {
                specified_attributes: (AttributesMask::DISPLAY_NAME | AttributesMask::VALUE | AttributesMask::DATA_TYPE | AttributesMask::ACCESS_LEVEL | AttributesMask::USER_ACCESS_LEVEL | AttributesMask::VALUE_RANK | AttributesMask::HISTORIZING | AttributesMask::MINIMUM_SAMPLING_INTERVAL | AttributesMask::DESCRIPTION | AttributesMask::WRITE_MASK | AttributesMask::USER_WRITE_MASK).bits(),
                display_name: LocalizedText::from("cv"),
                description: LocalizedText::from("cv"),
                write_mask: 0,
                user_write_mask: 0,
                value: Variant::from(1i32),
                data_type: DataTypeId::Int32.into(),
                value_rank: -1,
                array_dimensions: None,
                access_level: 3,
                user_access_level: 3,
                minimum_sampling_interval: 0.0,
                historizing: false,
            };
            let item = AddNodesItem {
                parent_node_id: dyn_folder(ns).into(),
                reference_type_id: ReferenceTypeId::Organizes.into(),
                requested_new_node_id: id.clone().into(),
                // a browse name in a namespace other than 0 panics the server (node_management.rs:349, not this property)
                browse_name: QualifiedName::new(0, format!("cv{}-{}", s.session_id(), st.next_added % 24).as_str()),
                node_class: NodeClass::Variable,
                node_attributes: ExtensionObject::from_encodable(ObjectId::VariableAttributes_Encoding_DefaultBinary, &attrs),
                type_definition: ExpandedNodeId::from(NodeId::from(&VariableTypeId::BaseDataVariableType)),
            };
            let r = s.add_nodes(&[item]).await;
            if let Ok(res) = &r {
                if res.first().map(|r| r.status_code.is_good()).unwrap_or(false) {
                    st.added.push(id);
                }
            }
            ("add_nodes", r.map(|_| ()))
        }
        55..=57 => {
            let id = if !st.added.is_empty() && rng.chance(3, 4) {
                st.added.swap_remove(rng.usize(st.added.len()))
            } else {
                NodeId::new(ns, "nothing-here")
            };
            let item = DeleteNodesItem {
                node_id: id,
                delete_target_references: true,
            };
            ("delete_nodes", s.delete_nodes(&[item]).await.map(|_| ()))
        }
        58..=60 => {
            // (a reference from a node to itself panics the server, references.rs:131 - not this property)
            let src = st.added.first().cloned().unwrap_or_else(|| dbl_id(ns, 0));
            let item = AddReferencesItem {
                source_node_id: src.clone(),
                reference_type_id: ReferenceTypeId::HasComponent.into(),
                is_forward: true,
                target_server_uri: UAString::null(),
                target_node_id: int_id(ns, rng.usize(N_INT)).into(),
                target_node_class: NodeClass::Variable,
            };
            let r = s.add_references(&[item.clone()]).await;
            let del = DeleteReferencesItem {
                source_node_id: src,
                reference_type_id: ReferenceTypeId::HasComponent.into(),
                is_forward: true,
                target_node_id: item.target_node_id.clone(),
                delete_bidirectional: true,
            };
            let _ = s.delete_references(&[del]).await;
            ("add_delete_references", r.map(|_| ()))
        }
        61..=68 => {
            if st.subs.len() >= 3 {
                return ("noop", Ok(()));
            }
            let ctx2 = ctx.clone();
            let ctx3 = ctx.clone();
            let interval = Duration::from_millis(*rng.pick(&[10u64, 20, 50, 100, 250]));
            let r = if rng.chance(1, 4) {
                s.create_subscription(
                    interval,
                    *rng.pick(&[6u32, 30, 100]),
                    *rng.pick(&[2u32, 5, 10]),
                    0,
                    0,
                    true,
                    EventCallback::new(move |_ev, _item| {
                        ctx3.event_notifications.fetch_add(1, Ordering::Relaxed);
                    }),
                )
                .await
            } else {
                s.create_subscription(
                    interval,
                    *rng.pick(&[6u32, 30, 100]),
                    *rng.pick(&[2u32, 5, 10]),
                    *rng.pick(&[0u32, 1, 10]),
                    rng.next_u32() as u8,
                    rng.chance(9, 10),
                    DataChangeCallback::new(move |_dv, _item| {
                        ctx2.data_notifications.fetch_add(1, Ordering::Relaxed);
                    }),
                )
                .await
            };
            if let Ok(id) = &r {
                st.subs.push((*id, vec![]));
            }
            ("create_subscription", r.map(|_| ()))
        }
        69..=78 => {
            if st.subs.is_empty() {
                return ("noop", Ok(()));
            }
            let k = rng.usize(st.subs.len());
            let sub = st.subs[k].0;
            let mut items = vec![];
            for _ in 0..(1 + rng.usize(6)) {
                if rng.chance(1, 6) {
                    items.push(event_item(if rng.bool() { ObjectId::Server.into() } else { functions_id(ns) }));
                } else if rng.chance(1, 6) {
                    items.push(mon_item(server_var(rng), rng));
                } else {
                    items.push(mon_item(some_var(ns, rng), rng));
                }
            }
            let r = s.create_monitored_items(sub, TimestampsToReturn::Both, items).await;
            if let Ok(res) = &r {
                for m in res {
                    if m.status_code.is_good() {
                        st.subs[k].1.push(m.monitored_item_id);
                    }
                }
            }
            ("create_monitored_items", r.map(|_| ()))
        }
        79..=81 => {
            let Some((sub, items)) = st.subs.first().cloned() else { return ("noop", Ok(())) };
            if items.is_empty() {
                return ("noop", Ok(()));
            }
            let m = MonitoredItemModifyRequest {
                monitored_item_id: items[rng.usize(items.len())],
                requested_parameters: MonitoringParameters {
                    client_handle: rng.next_u32(),
                    sampling_interval: *rng.pick(&[0.0, 20.0, 200.0]),
                    filter: ExtensionObject::null(),
                    queue_size: *rng.pick(&[1u32, 3, 10]),
                    discard_oldest: rng.bool(),
                },
            };
            ("modify_monitored_items", s.modify_monitored_items(sub, TimestampsToReturn::Both, &[m]).await.map(|_| ()))
        }
        82..=83 => {
            let Some((sub, items)) = st.subs.first().cloned() else { return ("noop", Ok(())) };
            if items.is_empty() {
                return ("noop", Ok(()));
            }
            let mode = *rng.pick(&[MonitoringMode::Reporting, MonitoringMode::Sampling, MonitoringMode::Disabled]);
            ("set_monitoring_mode", s.set_monitoring_mode(sub, mode, &items[..1.min(items.len())]).await.map(|_| ()))
        }
        84..=85 => {
            let Some((sub, items)) = st.subs.first().cloned() else { return ("noop", Ok(())) };
            if items.len() < 2 {
                return ("noop", Ok(()));
            }
            let (add, rem): (Vec<u32>, Vec<u32>) = if rng.bool() { (vec![items[1]], vec![]) } else { (vec![], vec![items[1]]) };
            ("set_triggering", s.set_triggering(sub, items[0], &add, &rem).await.map(|_| ()))
        }
        86..=87 => {
            let Some(k) = (!st.subs.is_empty()).then(|| rng.usize(st.subs.len())) else { return ("noop", Ok(())) };
            if st.subs[k].1.is_empty() {
                return ("noop", Ok(()));
            }
            let sub = st.subs[k].0;
            let it = st.subs[k].1.swap_remove(0);
            ("delete_monitored_items", s.delete_monitored_items(sub, &[it]).await.map(|_| ()))
        }
        88..=89 => {
            let Some((sub, _)) = st.subs.first().cloned() else { return ("noop", Ok(())) };
            (
                "modify_subscription",
                s.modify_subscription(sub, *rng.pick(&[10.0, 30.0, 100.0]), *rng.pick(&[9u32, 60]), *rng.pick(&[3u32, 10]), 0, rng.next_u32() as u8)
                    .await,
            )
        }
        90..=91 => {
            let Some((sub, _)) = st.subs.first().cloned() else { return ("noop", Ok(())) };
            let on = rng.chance(3, 4);
            ("set_publishing_mode", s.set_publishing_mode(&[sub], on).await.map(|_| ()))
        }
        92..=93 => {
            if st.subs.len() < 2 {
                return ("noop", Ok(()));
            }
            let (sub, _) = st.subs.swap_remove(rng.usize(st.subs.len()));
            ("delete_subscription", s.delete_subscription(sub).await.map(|_| ()))
        }
        94..=95 => {
            let ids: Vec<u32> = if rng.bool() { st.subs.iter().map(|s| s.0).collect() } else { vec![rng.next_u32() % 100] };
            if ids.is_empty() {
                return ("noop", Ok(()));
            }
            ("transfer_subscriptions", s.transfer_subscriptions(&ids, rng.bool()).await.map(|_| ()))
        }
        96 => ("cancel", s.cancel(rng.next_u32()).await.map(|_| ())),
        _ => {
            // let publishing run for a moment
            tokio::time::sleep(Duration::from_millis(20 + rng.below(80))).await;
            ("idle", Ok(()))
        }
    }
}

/// A client task on the repository's client API: connect (random endpoint and identity), run a
/// random sequence of services, end gracefully or by dropping the connection, repeat.
pub async fn lib_client(ctx: Arc<Ctx>, idx: usize, seed: u64, steady: bool) {
    let mut rng = Rng::new(seed);
    let short_timeout = !steady && idx % 5 == 4;
    let mut client = make_client(&ctx.scratch, idx, if short_timeout { 300 } else { 20000 }, 2);
    while !ctx.stopped() {
        let churn = ctx.churn.load(Ordering::Relaxed);
        if !steady && !churn {
            tokio::time::sleep(Duration::from_millis(50)).await;
            continue;
        }
        let ep = ctx.endpoints[rng.usize(ctx.endpoints.len())].clone();
        let token = match rng.usize(4) {
            0 => IdentityToken::UserName(USER.into(), PASS.into()),
            1 if !steady => IdentityToken::UserName(USER.into(), "wrong".into()),
            _ => IdentityToken::Anonymous,
        };
        let (session, event_loop) = match client.new_session_from_info((ep, token)) {
            Ok(x) => x,
            Err(_) => {
                ctx.connect_failures.fetch_add(1, Ordering::Relaxed);
                continue;
            }
        };
        let handle = event_loop.spawn();
        let connected = tokio::time::timeout(Duration::from_millis(4000), session.wait_for_connection())
            .await
            .unwrap_or(false);
        if !connected || handle.is_finished() {
            handle.abort();
            ctx.connect_failures.fetch_add(1, Ordering::Relaxed);
            ctx.stat("session_connect", false);
            tokio::time::sleep(Duration::from_millis(30 + rng.below(150))).await;
            continue;
        }
        ctx.sessions_connected.fetch_add(1, Ordering::Relaxed);
        ctx.stat("session_connect", true);
        let mut st = SessState::default();
        let n_ops = if steady { usize::MAX } else { 8 + rng.usize(60) };
        let mut fatal_run = 0;
        let mut k = 0usize;
        while k < n_ops && !ctx.stopped() {
            k += 1;
            if steady && ctx.churn.load(Ordering::Relaxed) && rng.chance(1, 150) {
                // steady clients also leave once the churn phase has begun
                break;
            }
            if short_timeout && rng.chance(1, 6) {
                // outlive the session timeout, the next request finds the session timed out
                tokio::time::sleep(Duration::from_millis(450)).await;
            }
            match tokio::time::timeout(Duration::from_millis(4000), one_op(&ctx, &session, &mut st, &mut rng)).await {
                Ok((name, Ok(()))) => {
                    ctx.stat(name, true);
                    fatal_run = 0;
                }
                Ok((name, Err(code))) => {
                    ctx.stat(name, false);
                    if std::env::var("VH_LOCKS_DEBUG").is_ok() {
                        eprintln!("client {} op {} failed: {}", idx, name, code);
                    }
                    if fatal(code) {
                        fatal_run += 1;
                    }
                }
                Err(_) => {
                    ctx.op_timeouts.fetch_add(1, Ordering::Relaxed);
                    fatal_run += 2;
                }
            }
            if fatal_run >= 3 || handle.is_finished() {
                break;
            }
            if rng.chance(1, 3) {
                tokio::time::sleep(Duration::from_millis(rng.below(12))).await;
            } else {
                tokio::task::yield_now().await;
            }
        }
        // how the connection ends
        if rng.chance(3, 5) {
            let _ = tokio::time::timeout(Duration::from_millis(2500), session.disconnect()).await;
            ctx.graceful_disconnects.fetch_add(1, Ordering::Relaxed);
            let _ = tokio::time::timeout(Duration::from_millis(500), async {
                while !handle.is_finished() {
                    tokio::time::sleep(Duration::from_millis(10)).await;
                }
            })
            .await;
            handle.abort();
        } else {
            // drop the TCP stream without CloseSession / CloseSecureChannel
            handle.abort();
            ctx.abrupt_drops.fetch_add(1, Ordering::Relaxed);
        }
        tokio::time::sleep(Duration::from_millis(rng.below(120))).await;
    }
}

fn ok_or_fault(m: &SupportedMessage) -> bool {
    !matches!(m, SupportedMessage::ServiceFault(_))
}

/// Scripted scenarios on the raw connection. Each returns after dropping or closing its stream.
pub async fn raw_client(ctx: Arc<Ctx>, idx: usize, seed: u64) {
    let mut rng = Rng::new(seed);
    let dir = client_pki(&ctx.scratch, 100 + idx);
    let store = Arc::new(RwLock::new(CertificateStore::new(&dir)));
    // connections kept open during the steady phase (closing any connection clears every session)
    let mut park: Vec<Raw> = vec![];
    let mut steady_round = 0usize;
    while !ctx.stopped() {
        let churn = ctx.churn.load(Ordering::Relaxed);
        let steady = !churn;
        if steady && (idx != 0 || steady_round >= 9) {
            tokio::time::sleep(Duration::from_millis(50)).await;
            continue;
        }
        if churn && !park.is_empty() {
            for c in park.drain(..) {
                c.reset_on_drop();
            }
        }
        let scenario = if steady {
            steady_round += 1;
            [1usize, 2, 6][steady_round % 3]
        } else {
            rng.usize(9)
        };
        let r = tokio::time::timeout(
            Duration::from_secs(8),
            raw_scenario(&ctx, scenario, &mut rng, store.clone(), steady, &mut park),
        )
        .await;
        let name = format!("raw_scenario_{}", scenario);
        match r {
            Ok(Ok(())) => ctx.stat(&name, true),
            Ok(Err(e)) => {
                if std::env::var("VH_LOCKS_DEBUG").is_ok() {
                    eprintln!("raw scenario {} failed: {}", scenario, e);
                }
                ctx.stat(&name, false)
            }
            Err(_) => {
                ctx.op_timeouts.fetch_add(1, Ordering::Relaxed);
                ctx.stat(&name, false)
            }
        }
        tokio::time::sleep(Duration::from_millis(20 + rng.below(200))).await;
    }
}

async fn raw_open(ctx: &Arc<Ctx>, store: Arc<RwLock<CertificateStore>>) -> Result<Raw, String> {
    let mut c = Raw::connect(&ctx.url, ctx.port, store).await?;
    c.open_channel().await?;
    Ok(c)
}

fn count(ctx: &Arc<Ctx>, name: &str, m: &Result<SupportedMessage, String>) {
    match m {
        Ok(m) => ctx.stat(name, ok_or_fault(m)),
        Err(_) => ctx.stat(name, false),
    }
}

async fn raw_scenario(
    ctx: &Arc<Ctx>,
    scenario: usize,
    rng: &mut Rng,
    store: Arc<RwLock<CertificateStore>>,
    steady: bool,
    park: &mut Vec<Raw>,
) -> Result<(), String> {
    let ns = ctx.ns;
    match scenario {
        0 => {
            // discovery services, no session
            let mut c = raw_open(ctx, store).await?;
            let h = c.next_handle();
            let r = c
                .call(
                    GetEndpointsRequest {
                        request_header: header(&NodeId::null(), h),
                        endpoint_url: UAString::from(ctx.url.as_str()),
                        locale_ids: None,
                        profile_uris: None,
                    }
                    .into(),
                )
                .await;
            count(ctx, "raw_get_endpoints", &r);
            let h = c.next_handle();
            let r = c
                .call(
                    FindServersRequest {
                        request_header: header(&NodeId::null(), h),
                        endpoint_url: UAString::from(ctx.url.as_str()),
                        locale_ids: None,
                        server_uris: None,
                    }
                    .into(),
                )
                .await;
            count(ctx, "raw_find_servers", &r);
            let h = c.next_handle();
            let r = c
                .call(
                    RegisterServerRequest {
                        request_header: header(&NodeId::null(), h),
                        server: RegisteredServer {
                            server_uri: UAString::from("urn:x"),
                            product_uri: UAString::from("urn:x"),
                            server_names: None,
                            server_type: ApplicationType::Server,
                            gateway_server_uri: UAString::null(),
                            discovery_urls: None,
                            semaphore_file_path: UAString::null(),
                            is_online: true,
                        },
                    }
                    .into(),
                )
                .await;
            count(ctx, "raw_register_server", &r);
            if rng.bool() {
                c.close_channel().await?;
            }
            Ok(())
        }
        1 => {
            // browse with continuation points, browse next until exhausted, then a released one
            let mut c = raw_open(ctx, store).await?;
            let (_sid, tok) = c.create_session(20000.0, "raw-browse").await?;
            c.activate(&tok).await?;
            let h = c.next_handle();
            let bd = BrowseDescription {
                node_id: vars_folder(ns),
                browse_direction: BrowseDirection::Forward,
                reference_type_id: ReferenceTypeId::HierarchicalReferences.into(),
                include_subtypes: true,
                node_class_mask: 0,
                result_mask: BrowseDescriptionResultMask::all().bits(),
            };
            let r = c
                .call(
                    BrowseRequest {
                        request_header: header(&tok, h),
                        view: ViewDescription {
                            view_id: NodeId::null(),
                            timestamp: DateTime::null(),
                            view_version: 0,
                        },
                        requested_max_references_per_node: 1 + rng.next_u32() % 9,
                        nodes_to_browse: Some(vec![bd.clone(), bd]),
                    }
                    .into(),
                )
                .await;
            count(ctx, "raw_browse_cp", &r);
            let mut cps: Vec<ByteString> = vec![];
            if let Ok(SupportedMessage::BrowseResponse(b)) = &r {
                for res in b.results.iter().flatten() {
                    if !res.continuation_point.is_null() {
                        cps.push(res.continuation_point.clone());
                    }
                }
            }
            for round in 0..(2 + rng.usize(6)) {
                if cps.is_empty() {
                    break;
                }
                let h = c.next_handle();
                let release = round > 3 && rng.bool();
                let r = c
                    .call(
                        BrowseNextRequest {
                            request_header: header(&tok, h),
                            release_continuation_points: release,
                            continuation_points: Some(cps.clone()),
                        }
                        .into(),
                    )
                    .await;
                count(ctx, "raw_browse_next", &r);
                cps.clear();
                if let Ok(SupportedMessage::BrowseNextResponse(b)) = &r {
                    for res in b.results.iter().flatten() {
                        if !res.continuation_point.is_null() {
                            cps.push(res.continuation_point.clone());
                        }
                    }
                }
            }
            if steady {
                c.close_session(&tok, true).await?;
                park.push(c);
                return Ok(());
            }
            if rng.bool() {
                c.close_session(&tok, true).await?;
                c.close_channel().await?;
            }
            ctx.abrupt_drops.fetch_add(1, Ordering::Relaxed);
            Ok(())
        }
        2 => {
            // subscription with queued publish requests, republish, then the stream is dropped
            let mut c = raw_open(ctx, store).await?;
            let (_sid, tok) = c.create_session(20000.0, "raw-sub").await?;
            c.activate(&tok).await?;
            let h = c.next_handle();
            let r = c
                .call(
                    CreateSubscriptionRequest {
                        request_header: header(&tok, h),
                        requested_publishing_interval: 20.0,
                        requested_lifetime_count: 30,
                        requested_max_keep_alive_count: 3,
                        max_notifications_per_publish: 0,
                        publishing_enabled: true,
                        priority: 0,
                    }
                    .into(),
                )
                .await;
            count(ctx, "raw_create_subscription", &r);
            let sub = match &r {
                Ok(SupportedMessage::CreateSubscriptionResponse(s)) => s.subscription_id,
                _ => return Err("no subscription".into()),
            };
            let items: Vec<MonitoredItemCreateRequest> = (0..4)
                .map(|i| {
                    let mut m: MonitoredItemCreateRequest = int_id(ns, (i * 7 + rng.usize(5)) % N_INT).into();
                    m.requested_parameters.sampling_interval = 10.0;
                    m.requested_parameters.queue_size = 3;
                    m
                })
                .collect();
            let h = c.next_handle();
            let r = c
                .call(
                    CreateMonitoredItemsRequest {
                        request_header: header(&tok, h),
                        subscription_id: sub,
                        timestamps_to_return: TimestampsToReturn::Both,
                        items_to_create: Some(items),
                    }
                    .into(),
                )
                .await;
            count(ctx, "raw_create_monitored_items", &r);
            // several publish requests in flight
            let mut acks: Vec<SubscriptionAcknowledgement> = vec![];
            let mut last_seq = 0u32;
            for _ in 0..(3 + rng.usize(6)) {
                for _ in 0..2 {
                    let h = c.next_handle();
                    let p = PublishRequest {
                        request_header: header(&tok, h),
                        subscription_acknowledgements: if acks.is_empty() { None } else { Some(std::mem::take(&mut acks)) },
                    };
                    c.send(&p.into()).await?;
                }
                for _ in 0..2 {
                    match c.read_one(Duration::from_millis(1500)).await {
                        Ok((_, SupportedMessage::PublishResponse(p))) => {
                            ctx.stat("raw_publish", true);
                            ctx.data_notifications.fetch_add(1, Ordering::Relaxed);
                            last_seq = p.notification_message.sequence_number;
                            if rng.chance(2, 3) {
                                acks.push(SubscriptionAcknowledgement {
                                    subscription_id: p.subscription_id,
                                    sequence_number: last_seq,
                                });
                            }
                        }
                        Ok((_, SupportedMessage::ServiceFault(_))) => ctx.stat("raw_publish", false),
                        Ok(_) => {}
                        Err(e) => return Err(e),
                    }
                }
            }
            // republish something that may or may not still be retained
            for seq in [last_seq, last_seq.saturating_sub(1), 9999] {
                let h = c.next_handle();
                let r = c
                    .call(
                        RepublishRequest {
                            request_header: header(&tok, h),
                            subscription_id: sub,
                            retransmit_sequence_number: seq,
                        }
                        .into(),
                    )
                    .await;
                count(ctx, "raw_republish", &r);
            }
            if steady {
                c.close_session(&tok, rng.bool()).await?;
                park.push(c);
                return Ok(());
            }
            // leave publish requests queued and vanish
            for _ in 0..3 {
                let h = c.next_handle();
                let p = PublishRequest {
                    request_header: header(&tok, h),
                    subscription_acknowledgements: None,
                };
                c.send(&p.into()).await?;
            }
            if rng.chance(1, 3) {
                // half a request, then gone
                let h = c.next_handle();
                let p = PublishRequest {
                    request_header: header(&tok, h),
                    subscription_acknowledgements: None,
                };
                c.send_partial(&p.into(), 20).await?;
            }
            if rng.bool() {
                // RST instead of FIN: the server may be in the middle of writing a publish response
                c.reset_on_drop();
            }
            ctx.abrupt_drops.fetch_add(1, Ordering::Relaxed);
            Ok(())
        }
        3 => {
            // several sessions on one connection up to the limit, one left unactivated
            let mut c = raw_open(ctx, store).await?;
            let good = c.url.clone();
            c.url = format!("opc.tcp://127.0.0.1:{}/not-an-endpoint", ctx.port);
            let r = c.create_session(20000.0, "raw-bad-url").await;
            ctx.stat("raw_create_session_bad_url", r.is_ok());
            c.url = good;
            let mut toks = vec![];
            for i in 0..7 {
                match c.create_session(20000.0, &format!("raw-multi-{}", i)).await {
                    Ok((_, t)) => {
                        ctx.stat("raw_create_session", true);
                        toks.push(t)
                    }
                    Err(_) => ctx.stat("raw_create_session", false),
                }
            }
            for (i, t) in toks.iter().enumerate() {
                if i % 3 != 2 {
                    let r = c.activate(t).await;
                    ctx.stat("raw_activate", r.is_ok());
                }
            }
            // a read on every token, including the unactivated one and a made-up one
            let mut all = toks.clone();
            all.push(NodeId::new(0, ByteString::from(rng.bytes(32))));
            for t in &all {
                let h = c.next_handle();
                let r = c
                    .call(
                        ReadRequest {
                            request_header: header(t, h),
                            max_age: 0.0,
                            timestamps_to_return: TimestampsToReturn::Neither,
                            nodes_to_read: Some(vec![rv(int_id(ns, 1), AttributeId::Value)]),
                        }
                        .into(),
                    )
                    .await;
                count(ctx, "raw_read", &r);
            }
            for (i, t) in toks.iter().enumerate() {
                if i % 2 == 0 {
                    let r = c.close_session(t, rng.bool()).await;
                    ctx.stat("raw_close_session", r.is_ok());
                }
            }
            ctx.abrupt_drops.fetch_add(1, Ordering::Relaxed);
            Ok(())
        }
        4 => {
            // a session created on one channel, activated from another while the first is open
            let mut a = raw_open(ctx, store.clone()).await?;
            let (_sid, tok) = a.create_session(20000.0, "raw-xchan").await?;
            let mut b = raw_open(ctx, store).await?;
            let r = b.activate(&tok).await; // not yet activated on a: must be refused
            ctx.stat("raw_activate_other_channel_first", r.is_ok());
            a.activate(&tok).await?;
            let r = b.activate(&tok).await; // now moves to b
            ctx.stat("raw_activate_other_channel", r.is_ok());
            for c in [&mut a, &mut b] {
                let h = c.next_handle();
                let r = c
                    .call(
                        ReadRequest {
                            request_header: header(&tok, h),
                            max_age: 0.0,
                            timestamps_to_return: TimestampsToReturn::Neither,
                            nodes_to_read: Some(vec![rv(int_id(ns, 2), AttributeId::Value)]),
                        }
                        .into(),
                    )
                    .await;
                count(ctx, "raw_read", &r);
            }
            let r = a.close_session(&tok, true).await;
            ctx.stat("raw_close_session", r.is_ok());
            ctx.abrupt_drops.fetch_add(2, Ordering::Relaxed);
            Ok(())
        }
        5 => {
            // session timeout: the request after the pause finds the session timed out
            let mut c = raw_open(ctx, store).await?;
            let (_sid, tok) = c.create_session(150.0, "raw-timeout").await?;
            c.activate(&tok).await?;
            tokio::time::sleep(Duration::from_millis(350)).await;
            for _ in 0..2 {
                let h = c.next_handle();
                let r = c
                    .call(
                        ReadRequest {
                            request_header: header(&tok, h),
                            max_age: 0.0,
                            timestamps_to_return: TimestampsToReturn::Neither,
                            nodes_to_read: Some(vec![rv(int_id(ns, 3), AttributeId::Value)]),
                        }
                        .into(),
                    )
                    .await;
                count(ctx, "raw_read_after_timeout", &r);
            }
            let r = c.activate(&tok).await;
            ctx.stat("raw_activate_after_timeout", r.is_ok());
            c.close_channel().await?;
            Ok(())
        }
        6 => {
            // history, query, unsupported
            let mut c = raw_open(ctx, store).await?;
            let (_sid, tok) = c.create_session(20000.0, "raw-hist").await?;
            c.activate(&tok).await?;
            let details = ReadRawModifiedDetails {
                is_read_modified: false,
                start_time: DateTime::null(),
                end_time: DateTime::now(),
                num_values_per_node: 10,
                return_bounds: false,
            };
            let h = c.next_handle();
            let r = c
                .call(
                    HistoryReadRequest {
                        request_header: header(&tok, h),
                        history_read_details: ExtensionObject::from_encodable(ObjectId::ReadRawModifiedDetails_Encoding_DefaultBinary, &details),
                        timestamps_to_return: TimestampsToReturn::Both,
                        release_continuation_points: false,
                        nodes_to_read: Some(vec![HistoryReadValueId {
                            node_id: int_id(ns, 4),
                            index_range: UAString::null(),
                            data_encoding: QualifiedName::null(),
                            continuation_point: ByteString::null(),
                        }]),
                    }
                    .into(),
                )
                .await;
            count(ctx, "raw_history_read", &r);
            let upd = UpdateDataDetails {
                node_id: int_id(ns, 4),
                perform_insert_replace: PerformUpdateType::Insert,
                update_values: Some(vec![DataValue::new_now(1i32)]),
            };
            let h = c.next_handle();
            let r = c
                .call(
                    HistoryUpdateRequest {
                        request_header: header(&tok, h),
                        history_update_details: Some(vec![ExtensionObject::from_encodable(ObjectId::UpdateDataDetails_Encoding_DefaultBinary, &upd)]),
                    }
                    .into(),
                )
                .await;
            count(ctx, "raw_history_update", &r);
            let h = c.next_handle();
            let r = c
                .call(
                    QueryFirstRequest {
                        request_header: header(&tok, h),
                        view: ViewDescription {
                            view_id: NodeId::null(),
                            timestamp: DateTime::null(),
                            view_version: 0,
                        },
                        node_types: None,
                        filter: ContentFilter { elements: None },
                        max_data_sets_to_return: 0,
                        max_references_to_return: 0,
                    }
                    .into(),
                )
                .await;
            count(ctx, "raw_query_first", &r);
            let h = c.next_handle();
            let r = c
                .call(
                    QueryNextRequest {
                        request_header: header(&tok, h),
                        release_continuation_point: true,
                        continuation_point: ByteString::null(),
                    }
                    .into(),
                )
                .await;
            count(ctx, "raw_query_next", &r);
            let r = c.renew_channel().await;
            ctx.stat("raw_renew_channel", r.is_ok());
            c.close_session(&tok, true).await?;
            if steady {
                park.push(c);
                return Ok(());
            }
            c.close_channel().await?;
            Ok(())
        }
        7 => {
            // connect and say nothing useful: wrong endpoint url, or only a hello, then drop
            if rng.bool() {
                let bad = format!("opc.tcp://127.0.0.1:{}/nope", ctx.port);
                let r = Raw::connect(&bad, ctx.port, store).await;
                ctx.stat("raw_hello_bad_url", r.is_ok());
            } else {
                let c = Raw::connect(&ctx.url, ctx.port, store).await?;
                tokio::time::sleep(Duration::from_millis(rng.below(50))).await;
                drop(c);
                ctx.abrupt_drops.fetch_add(1, Ordering::Relaxed);
            }
            Ok(())
        }
        _ => {
            // requests with sessions that no longer exist / closed sessions; method calls with bad ids
            let mut c = raw_open(ctx, store).await?;
            let (_sid, tok) = c.create_session(20000.0, "raw-closed").await?;
            c.activate(&tok).await?;
            c.close_session(&tok, false).await?;
            let h = c.next_handle();
            let r = c
                .call(
                    WriteRequest {
                        request_header: header(&tok, h),
                        nodes_to_write: Some(vec![WriteValue {
                            node_id: int_id(ns, 5),
                            attribute_id: AttributeId::Value as u32,
                            index_range: UAString::null(),
                            value: DataValue::value_only(5i32),
                        }]),
                    }
                    .into(),
                )
                .await;
            count(ctx, "raw_write_closed_session", &r);
            let r = c.close_session(&tok, false).await;
            ctx.stat("raw_close_session_twice", r.is_ok());
            let r = c.activate(&tok).await;
            ctx.stat("raw_activate_closed", r.is_ok());
            c.close_channel().await?;
            Ok(())
        }
    }
}
