//! Lock-order oracle: class-level lock-order graph built from the monitor's snapshot, cycle search
//! (chordless cycles inside every strongly connected component), re-entrant / same-class nesting
//! classification and the documented ServerState -> Session -> AddressSpace order.
//!
//! The same decision procedure exists in propdefs/locks.py for the union of all shards.
use opcua::verif::locks::{Snapshot, KIND_READ};
use serde_json::{json, Value};
use std::collections::{BTreeMap, BTreeSet};

#[derive(Clone, Debug)]
pub struct Edge {
    pub count: u64,
    pub from_site: (String, u32),
    pub to_site: (String, u32),
    /// (held kind, acquired kind)
    pub kinds: BTreeSet<(u8, u8)>,
    pub same_instance: u64,
    pub other_instance: u64,
    /// every (held site, acquiring site) pair that was the first observation of this edge in some
    /// sampling window (the monitor keeps one pair per edge; the harness samples and resets it)
    pub pairs: BTreeSet<(String, String)>,
}

#[derive(Clone, Debug, Default)]
pub struct Graph {
    /// keyed by SHORT class names
    pub edges: BTreeMap<(String, String), Edge>,
    pub classes: BTreeMap<String, u64>,
}

/// `opcua::server::session::Session` -> `server::Session`; other crates' paths keep only the last
/// segment; the raw lock parameter of lock_api types is dropped.
pub fn short_class(full: &str) -> String {
    let mut out = String::new();
    let mut tok = String::new();
    let flush = |tok: &mut String, out: &mut String| {
        if tok.is_empty() {
            return;
        }
        let segs: Vec<&str> = tok.split("::").filter(|s| !s.is_empty()).collect();
        if segs.first() == Some(&"opcua") && segs.len() >= 3 {
            out.push_str(segs[1]);
            out.push_str("::");
            out.push_str(segs[segs.len() - 1]);
        } else if let Some(l) = segs.last() {
            out.push_str(l);
        }
        tok.clear();
    };
    for c in full.chars() {
        if c.is_alphanumeric() || c == '_' || c == ':' {
            tok.push(c);
        } else {
            flush(&mut tok, &mut out);
            out.push(c);
        }
    }
    flush(&mut tok, &mut out);
    out.replace("RawRwLock, ", "").replace("RawMutex, ", "")
}

/// `/repo/lib/src/server/session.rs` -> `server/session.rs`; harness files -> `harness:<file>`
pub fn short_site(file: &str, line: u32) -> String {
    format!("{}:{}", short_file(file), line)
}

pub fn short_file(file: &str) -> String {
    if file.contains("crates/locks/") || file.contains("vh_locks") {
        let f = file.rsplit('/').next().unwrap_or(file);
        return format!("harness:{}", f);
    }
    if let Some(idx) = file.find("lib/src/") {
        return file[idx + 8..].to_string();
    }
    if let Some(idx) = file.find("src/") {
        return file[idx + 4..].to_string();
    }
    file.to_string()
}

pub fn is_client_class(c: &str) -> bool {
    c.contains("client::")
}

impl Graph {
    pub fn from_snapshot(s: &Snapshot) -> Graph {
        let mut g = Graph::default();
        g.add_snapshot(s);
        g
    }

    /// Merge one sampling window
    pub fn add_snapshot(&mut self, s: &Snapshot) {
        for (c, n) in &s.classes {
            *self.classes.entry(short_class(c)).or_insert(0) += *n;
        }
        for ((a, b), e) in &s.edges {
            let key = (short_class(a), short_class(b));
            let mut pairs = BTreeSet::new();
            if e.count > 0 {
                pairs.insert((short_site(&e.from_site.0, e.from_site.1), short_site(&e.to_site.0, e.to_site.1)));
            }
            let ne = Edge {
                count: e.count,
                from_site: e.from_site.clone(),
                to_site: e.to_site.clone(),
                kinds: e.kinds.clone(),
                same_instance: e.same_instance,
                other_instance: e.other_instance,
                pairs,
            };
            self.merge_edge(key, ne);
        }
    }

    pub fn merge_edge(&mut self, key: (String, String), ne: Edge) {
        match self.edges.get_mut(&key) {
            None => {
                self.edges.insert(key, ne);
            }
            Some(e) => {
                if e.count == 0 {
                    e.from_site = ne.from_site.clone();
                    e.to_site = ne.to_site.clone();
                }
                e.count += ne.count;
                e.kinds.extend(ne.kinds.iter().cloned());
                e.same_instance += ne.same_instance;
                e.other_instance += ne.other_instance;
                e.pairs.extend(ne.pairs.iter().cloned());
            }
        }
    }

    pub fn to_json(&self) -> Value {
        let edges: Vec<Value> = self
            .edges
            .iter()
            .map(|((a, b), e)| {
                json!({
                    "from": a, "to": b, "count": e.count,
                    "from_site": short_site(&e.from_site.0, e.from_site.1),
                    "to_site": short_site(&e.to_site.0, e.to_site.1),
                    "kinds": e.kinds.iter().map(|(h, k)| json!([h, k])).collect::<Vec<_>>(),
                    "same_instance": e.same_instance, "other_instance": e.other_instance,
                    "pairs": e.pairs.iter().map(|(f, t)| json!([f, t])).collect::<Vec<_>>(),
                })
            })
            .collect();
        json!({"edges": edges, "classes": self.classes})
    }

    /// A write or mutex acquisition of this class appears somewhere in the log (as the held or as
    /// the acquired side of any edge)
    pub fn writer_seen(&self, class: &str) -> Option<String> {
        for ((a, b), e) in &self.edges {
            for (h, k) in &e.kinds {
                if a == class && *h != KIND_READ {
                    return Some(short_site(&e.from_site.0, e.from_site.1));
                }
                if b == class && *k != KIND_READ {
                    return Some(short_site(&e.to_site.0, e.to_site.1));
                }
            }
        }
        None
    }

    fn succ(&self) -> BTreeMap<&str, BTreeSet<&str>> {
        let mut m: BTreeMap<&str, BTreeSet<&str>> = BTreeMap::new();
        for ((a, b), e) in &self.edges {
            if a != b && e.count > 0 {
                m.entry(a.as_str()).or_default().insert(b.as_str());
                m.entry(b.as_str()).or_default();
            }
        }
        m
    }

    /// Strongly connected components with more than one class (Tarjan, iterative enough for ~50 nodes)
    pub fn sccs(&self) -> Vec<Vec<String>> {
        let succ = self.succ();
        let nodes: Vec<&str> = succ.keys().cloned().collect();
        let idx_of: BTreeMap<&str, usize> = nodes.iter().enumerate().map(|(i, n)| (*n, i)).collect();
        let n = nodes.len();
        let mut index = vec![usize::MAX; n];
        let mut low = vec![0usize; n];
        let mut on = vec![false; n];
        let mut stack: Vec<usize> = vec![];
        let mut next = 0usize;
        let mut out = vec![];
        fn strong(
            v: usize,
            nodes: &Vec<&str>,
            succ: &BTreeMap<&str, BTreeSet<&str>>,
            idx_of: &BTreeMap<&str, usize>,
            index: &mut Vec<usize>,
            low: &mut Vec<usize>,
            on: &mut Vec<bool>,
            stack: &mut Vec<usize>,
            next: &mut usize,
            out: &mut Vec<Vec<String>>,
        ) {
            index[v] = *next;
            low[v] = *next;
            *next += 1;
            stack.push(v);
            on[v] = true;
            for w in &succ[nodes[v]] {
                let w = idx_of[w];
                if index[w] == usize::MAX {
                    strong(w, nodes, succ, idx_of, index, low, on, stack, next, out);
                    low[v] = low[v].min(low[w]);
                } else if on[w] {
                    low[v] = low[v].min(index[w]);
                }
            }
            if low[v] == index[v] {
                let mut comp = vec![];
                loop {
                    let w = stack.pop().unwrap();
                    on[w] = false;
                    comp.push(nodes[w].to_string());
                    if w == v {
                        break;
                    }
                }
                if comp.len() > 1 {
                    comp.sort();
                    out.push(comp);
                }
            }
        }
        for v in 0..n {
            if index[v] == usize::MAX {
                strong(
                    v, &nodes, &succ, &idx_of, &mut index, &mut low, &mut on, &mut stack, &mut next, &mut out,
                );
            }
        }
        out.sort();
        out
    }

    /// All chordless directed cycles (as vertex lists starting at their smallest class name) of
    /// length <= max_len inside the given component. A cycle with a chord always contains a shorter
    /// cycle, so if the component has any cycle it has a chordless one.
    pub fn chordless_cycles(&self, comp: &[String], max_len: usize, max_cycles: usize) -> Vec<Vec<String>> {
        let set: BTreeSet<&str> = comp.iter().map(|s| s.as_str()).collect();
        let succ = self.succ();
        let mut found: Vec<Vec<String>> = vec![];
        for start in comp {
            // only cycles whose smallest vertex is `start`
            let mut path: Vec<&str> = vec![start.as_str()];
            let mut iters: Vec<Vec<&str>> = vec![succ[start.as_str()]
                .iter()
                .cloned()
                .filter(|w| set.contains(w) && *w > start.as_str())
                .collect()];
            // closing edges are checked separately
            loop {
                if found.len() >= max_cycles {
                    return found;
                }
                let depth = path.len();
                if depth == 0 {
                    break;
                }
                // does the current tip close the cycle?
                let next = iters[depth - 1].pop();
                match next {
                    None => {
                        path.pop();
                        iters.pop();
                    }
                    Some(w) => {
                        if path.contains(&w) {
                            continue;
                        }
                        path.push(w);
                        // closes?
                        if succ[w].contains(start.as_str()) {
                            let cyc: Vec<String> = path.iter().map(|s| s.to_string()).collect();
                            if self.is_chordless(&cyc) {
                                found.push(cyc);
                            }
                        }
                        if path.len() < max_len {
                            iters.push(
                                succ[w]
                                    .iter()
                                    .cloned()
                                    .filter(|x| set.contains(x) && *x > start.as_str())
                                    .collect(),
                            );
                        } else {
                            path.pop();
                        }
                    }
                }
            }
        }
        found
    }

    fn is_chordless(&self, cyc: &[String]) -> bool {
        let set: BTreeSet<&String> = cyc.iter().collect();
        let mut induced = 0;
        for ((a, b), e) in &self.edges {
            if a != b && e.count > 0 && set.contains(a) && set.contains(b) {
                induced += 1;
            }
        }
        induced == cyc.len()
    }
}

pub fn kind_name(k: u8) -> &'static str {
    match k {
        0 => "mutex",
        1 => "read",
        2 => "write",
        _ => "?",
    }
}

pub struct Finding {
    pub signature: String,
    pub detail: String,
    pub violation: bool,
}

/// The documented order (lib/src/server/services/message_handler.rs:93-97)
pub const DOC_ORDER: [&str; 3] = ["server::ServerState", "server::Session", "server::AddressSpace"];

/// The order used to say WHICH edge of an already detected cycle is the out-of-line one (it never decides
/// whether there is a cycle). It is the documented order with the per-connection SessionManager in front:
/// every site that takes the SessionManager together with ServerState, Session or AddressSpace takes it first
/// (message_handler.rs:124,533,573; comms/tcp_transport.rs:139,458; services/session.rs:343,376; metrics.rs:147),
/// the built-in method handlers reached from services/method.rs being the one exception (finding F1).
/// No acquisition count enters the decision: counts depend on the mix of requests a run happened to send.
pub const REF_ORDER: [&str; 4] = ["server::SessionManager", "server::ServerState", "server::Session", "server::AddressSpace"];

/// Decide everything the property asks about the graph. Only classes that are not client-only are judged.
pub fn judge(g: &Graph) -> Vec<Finding> {
    let mut out = vec![];
    let mut inversions: BTreeSet<(String, String)> = BTreeSet::new();

    // (a) cycles among distinct classes
    for comp in g.sccs() {
        let cycles = g.chordless_cycles(&comp, 8, 400);
        if cycles.is_empty() {
            out.push(Finding {
                signature: format!("cycle-component|{}", comp.join(",")),
                detail: format!("strongly connected lock classes without a chordless cycle of length <= 8: {:?}", comp),
                violation: !comp.iter().all(|c| is_client_class(c)),
            });
            continue;
        }
        for cyc in cycles {
            let n = cyc.len();
            let mut sig = String::from("cycle|");
            let mut detail = String::new();
            let mut all_can_block = true;
            let mut why_not = vec![];
            for i in 0..n {
                let a = &cyc[i];
                let b = &cyc[(i + 1) % n];
                let prev = &cyc[(i + n - 1) % n];
                sig.push_str(a);
                sig.push('>');
                let e = &g.edges[&(a.clone(), b.clone())];
                let kinds: Vec<String> = e
                    .kinds
                    .iter()
                    .map(|(h, k)| format!("{}->{}", kind_name(*h), kind_name(*k)))
                    .collect();
                detail.push_str(&format!(
                    "[{} held (taken at {}) while taking {} at {}; seen {}x; kinds {}] ",
                    a,
                    short_site(&e.from_site.0, e.from_site.1),
                    b,
                    short_site(&e.to_site.0, e.to_site.1),
                    e.count,
                    kinds.join(",")
                ));
                // can a thread be made to wait on class `a` in this cycle?
                let e_in = &g.edges[&(prev.clone(), a.clone())];
                let excl_in = e_in.kinds.iter().any(|(_, k)| *k != KIND_READ);
                let excl_out = e.kinds.iter().any(|(h, _)| *h != KIND_READ);
                let writer = g.writer_seen(a);
                if !(excl_in || excl_out || writer.is_some()) {
                    all_can_block = false;
                    why_not.push(format!("{} is only ever read-locked in this log", a));
                }
            }
            sig.push_str(&cyc[0]);
            let client_only = cyc.iter().all(|c| is_client_class(c));
            if client_only {
                out.push(Finding {
                    signature: format!("client-{}", sig),
                    detail: format!("cycle among client-side lock classes (outside the property, recorded only): {}", detail),
                    violation: false,
                });
            } else if all_can_block {
                // name where the outer lock of the out-of-line edge(s) is taken: the edges against REF_ORDER; where
                // REF_ORDER is silent about one of the two classes every edge of the cycle is named
                for i in 0..n {
                    let (a, b) = (&cyc[i], &cyc[(i + 1) % n]);
                    let pa = REF_ORDER.iter().position(|c| c == a);
                    let pb = REF_ORDER.iter().position(|c| c == b);
                    let out_of_line = match (pa, pb) {
                        (Some(x), Some(y)) => x > y,
                        _ => true,
                    };
                    if out_of_line {
                        inversions.insert((a.clone(), b.clone()));
                    }
                }
                out.push(Finding {
                    signature: sig,
                    detail: format!(
                        "lock-order cycle: each class is taken while the previous one is held, on some thread, and every \
                         class on it has an exclusive (or writer-queued) acquisition, so an interleaving that deadlocks exists. {}",
                        detail
                    ),
                    violation: true,
                });
            } else {
                out.push(Finding {
                    signature: format!("readonly-{}", sig),
                    detail: format!("order inversion that cannot block ({}): {}", why_not.join("; "), detail),
                    violation: false,
                });
            }
        }
    }

    // one finding per (out-of-line edge, file in which its outer lock was taken), so that a new place
    // taking the same two classes in the same wrong order is a different finding
    for (a, b) in &inversions {
        let e = &g.edges[&(a.clone(), b.clone())];
        let mut by_file: BTreeMap<String, Vec<String>> = BTreeMap::new();
        for (f, t) in &e.pairs {
            let file = f.rsplitn(2, ':').last().unwrap_or(f).to_string();
            by_file.entry(file).or_default().push(format!("{} then {}", f, t));
        }
        for (file, pairs) in by_file {
            out.push(Finding {
                signature: format!("inversion|{}>{}|held@{}", a, b, file),
                detail: format!(
                    "{} is held while {} is taken, closing a lock-order cycle (against the order SessionManager, ServerState, \
                     Session, AddressSpace where that order covers both classes); acquisition site pairs with the outer \
                     lock taken in {}: {}",
                    a,
                    b,
                    file,
                    pairs.join("; ")
                ),
                violation: true,
            });
        }
    }

    // (b) same class nested
    for ((a, b), e) in &g.edges {
        if a != b {
            continue;
        }
        let site = format!(
            "{} held (taken at {}) while taking another/same {} at {}",
            a,
            short_site(&e.from_site.0, e.from_site.1),
            b,
            short_site(&e.to_site.0, e.to_site.1)
        );
        if e.same_instance > 0 {
            // a re-entrant acquisition that did not hang must have been read after read
            let writer = g.writer_seen(a);
            let v = writer.is_some() && !is_client_class(a);
            out.push(Finding {
                signature: format!("reentrant-read|{}|{}>{}", a, short_file(&e.from_site.0), short_file(&e.to_site.0)),
                detail: format!(
                    "the same {} instance was read-locked again while already read-locked by the thread ({}x): {}. {}",
                    a,
                    e.same_instance,
                    site,
                    match &writer {
                        Some(w) => format!(
                            "A write acquisition of this class exists (e.g. {}); parking_lot queues new readers behind a waiting \
                             writer, so writer-between-the-two-reads deadlocks the thread against itself.",
                            w
                        ),
                        None => "No write acquisition of this class was observed, so nothing can queue between the two reads.".into(),
                    }
                ),
                violation: v,
            });
        }
        if e.other_instance > 0 {
            out.push(Finding {
                signature: format!("nested-same-class|{}", a),
                detail: format!(
                    "two different instances of {} were held together ({}x): {}. Whether both orders of one instance pair can \
                     occur is not decidable from the class-level log (instance addresses are not exposed), so this is recorded, not judged.",
                    a, e.other_instance, site
                ),
                violation: false,
            });
        }
    }

    // (c) documented order
    for i in 0..DOC_ORDER.len() {
        for j in 0..i {
            // an edge from a later class to an earlier one
            let key = (DOC_ORDER[i].to_string(), DOC_ORDER[j].to_string());
            if let Some(e) = g.edges.get(&key) {
                if e.count == 0 {
                    continue;
                }
                let kinds: Vec<String> = e
                    .kinds
                    .iter()
                    .map(|(h, k)| format!("{}->{}", kind_name(*h), kind_name(*k)))
                    .collect();
                out.push(Finding {
                    signature: format!("order|{}>{}", DOC_ORDER[i], DOC_ORDER[j]),
                    detail: format!(
                        "documented order is ServerState, Session, AddressSpace (message_handler.rs:93-97) but {} was held \
                         (taken at {}) while {} was taken at {} ({}x, kinds {})",
                        DOC_ORDER[i],
                        short_site(&e.from_site.0, e.from_site.1),
                        DOC_ORDER[j],
                        short_site(&e.to_site.0, e.to_site.1),
                        e.count,
                        kinds.join(",")
                    ),
                    violation: true,
                });
            }
        }
    }
    out
}

#[cfg(test)]
mod tests {
    use super::*;

    const SM: &str = "server::SessionManager";
    const SS: &str = "server::ServerState";
    const S: &str = "server::Session";
    const AS: &str = "server::AddressSpace";

    fn edge(count: u64, from: &str, to: &str, kinds: (u8, u8)) -> Edge {
        let site = |s: &str| {
            let mut it = s.rsplitn(2, ':');
            let line: u32 = it.next().unwrap().parse().unwrap();
            (format!("/repo/lib/src/{}", it.next().unwrap()), line)
        };
        Edge {
            count,
            from_site: site(from),
            to_site: site(to),
            kinds: [kinds].into_iter().collect(),
            same_instance: 0,
            other_instance: 0,
            pairs: [(from.to_string(), to.to_string())].into_iter().collect(),
        }
    }

    /// An order graph shaped like finding F1
    fn f1(n_create_session: u64, n_method: u64) -> Graph {
        let mut g = Graph::default();
        let mut add = |a: &str, b: &str, e: Edge| g.merge_edge((a.to_string(), b.to_string()), e);
        add(SM, SS, edge(n_create_session, "server/services/message_handler.rs:124", "server/session.rs:248", (2, 2)));
        add(SM, S, edge(9000, "server/comms/tcp_transport.rs:458", "server/comms/tcp_transport.rs:461", (2, 2)));
        add(SM, AS, edge(4000, "server/comms/tcp_transport.rs:458", "server/comms/tcp_transport.rs:462", (2, 2)));
        add(SS, S, edge(5000, "server/services/message_handler.rs:99", "server/services/attribute.rs:40", (2, 2)));
        add(SS, AS, edge(5000, "server/services/message_handler.rs:99", "server/services/attribute.rs:41", (2, 2)));
        add(S, AS, edge(5000, "server/services/attribute.rs:40", "server/services/attribute.rs:41", (2, 2)));
        add(SS, SM, edge(n_method, "server/services/method.rs:38", "server/address_space/method_impls.rs:95", (1, 1)));
        add(AS, SM, edge(n_method, "server/services/method.rs:40", "server/address_space/method_impls.rs:95", (2, 1)));
        add(AS, S, edge(n_method, "server/services/method.rs:40", "server/address_space/method_impls.rs:97", (2, 2)));
        g
    }

    fn sigs(g: &Graph) -> Vec<String> {
        let mut v: Vec<String> = judge(g).into_iter().filter(|f| f.violation).map(|f| f.signature).collect();
        v.sort();
        v
    }

    /// The signatures do not depend on how often an edge was seen, i.e. on the request mix of a run
    #[test]
    fn signatures_do_not_depend_on_counts() {
        let want = sigs(&f1(400, 1));
        assert_eq!(want.len(), 7, "{:?}", want);
        assert!(want.iter().all(|s| !s.contains("message_handler.rs") && !s.contains("tcp_transport.rs")), "{:?}", want);
        for (cs, m) in [(400, 67), (100, 67), (67, 67), (1, 67), (1, 5000)] {
            assert_eq!(sigs(&f1(cs, m)), want, "counts ({}, {})", cs, m);
        }
    }

    #[test]
    fn new_wrong_order_site_is_new_and_new_right_order_site_is_not() {
        let want = sigs(&f1(400, 67));
        let mut g = f1(400, 67);
        g.merge_edge((SS.into(), SM.into()), edge(1, "server/services/view.rs:50", "server/session.rs:107", (1, 1)));
        assert!(sigs(&g).contains(&format!("inversion|{}>{}|held@server/services/view.rs", SS, SM)));
        let mut g = f1(400, 67);
        g.merge_edge((SM.into(), SS.into()), edge(1, "server/services/session.rs:343", "server/state.rs:100", (2, 2)));
        assert_eq!(sigs(&g), want);
    }

    #[test]
    fn cycle_outside_the_reference_order_names_every_edge() {
        let d = "server::SessionDiagnostics";
        let mut g = f1(400, 67);
        g.merge_edge((AS.into(), d.into()), edge(3, "server/session.rs:78", "server/session.rs:79", (2, 2)));
        g.merge_edge((d.into(), AS.into()), edge(900, "server/session.rs:553", "server/session.rs:554", (2, 2)));
        let s = sigs(&g);
        assert!(s.contains(&format!("cycle|{}>{}>{}", AS, d, AS)), "{:?}", s);
        assert!(s.contains(&format!("inversion|{}>{}|held@server/session.rs", AS, d)));
        assert!(s.contains(&format!("inversion|{}>{}|held@server/session.rs", d, AS)));
    }
}
