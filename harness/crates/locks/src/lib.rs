//! C38: lock-order monitor workload (real server + real clients on loopback, lockdep-style oracle).
#[allow(unused_imports)]
pub(crate) use vh_common::{common, gen, pki};
pub mod cli;
pub mod graph;
pub mod p_locks;
pub mod raw;
pub mod srv;
pub mod stall;
pub use p_locks::dispatch;
