//! C38: server locks are always taken in one global order (lockdep-style monitor over the real
//! server under concurrent client load).
use crate::cli::{self, Ctx};
use crate::common::*;
use crate::graph::{self, Graph};
use crate::pki;
use crate::srv::{self, SrvCounters};
use opcua::server::prelude::Server;
use opcua::verif::locks;
use serde_json::{json, Value};
use std::collections::{BTreeMap, BTreeSet};
use std::path::{Path, PathBuf};
use std::sync::atomic::{AtomicBool, Ordering};
use std::sync::Arc;
use std::time::{Duration, Instant};

pub fn dispatch(args: &Args, rep: &mut Report) -> bool {
    match args.prop.as_str() {
        "C38" => c38(args, rep),
        _ => return false,
    }
    true
}

struct Plan {
    seed: u64,
    shard: usize,
    shards: usize,
    thorough: bool,
    variant: usize,
    steady_ms: u64,
    churn_ms: u64,
    risky_ms: u64,
    steady_clients: usize,
    churn_clients: usize,
    raw_clients: usize,
    self_discovery: bool,
}

impl Plan {
    fn new(seed: u64, shard: usize, shards: usize, thorough: bool) -> Plan {
        let mut rng = Rng::new(seed ^ 0xC38 ^ ((shard as u64) << 32));
        let variant = shard % 4;
        let (steady_ms, churn_ms, risky_ms) = if thorough { (40_000, 50_000, 15_000) } else { (8_000, 9_000, 4_000) };
        Plan {
            seed,
            shard,
            shards,
            thorough,
            variant,
            steady_ms,
            churn_ms,
            risky_ms,
            steady_clients: 3 + (variant % 2), // plus one raw connection: at most 5 sessions exist server-wide
            churn_clients: 4 + rng.usize(4) + if thorough { 2 } else { 0 },
            raw_clients: 2 + rng.usize(2),
            self_discovery: variant == 1 || variant == 3,
        }
    }
    fn class(&self) -> String {
        format!(
            "lock-order run|variant {}|{} steady + {} churning + {} raw clients|{}",
            self.variant,
            self.steady_clients,
            self.churn_clients,
            self.raw_clients,
            if self.self_discovery { "self-registration on" } else { "self-registration off" }
        )
    }
    fn to_json(&self, tier: &str) -> Value {
        json!({"seed": self.seed, "shard": self.shard, "shards": self.shards, "tier": tier, "class": self.class()})
    }
}

/// (file relative to lib/src, line, macro) of every `trace_*lock!` use outside tests and comments
fn macro_sites(lib_src: &Path) -> Vec<(String, u32, String)> {
    fn walk(dir: &Path, root: &Path, out: &mut Vec<(String, u32, String)>) {
        let Ok(rd) = std::fs::read_dir(dir) else { return };
        let mut entries: Vec<PathBuf> = rd.filter_map(|e| e.ok()).map(|e| e.path()).collect();
        entries.sort();
        for p in entries {
            let name = p.file_name().and_then(|s| s.to_str()).unwrap_or("").to_string();
            if p.is_dir() {
                if name == "tests" || name == "benches" {
                    continue;
                }
                walk(&p, root, out);
            } else if name.ends_with(".rs") && name != "tests.rs" {
                let Ok(text) = std::fs::read_to_string(&p) else { continue };
                let rel = p.strip_prefix(root).unwrap_or(&p).to_string_lossy().to_string();
                let mut skip_depth: Option<i32> = None; // inside a #[cfg(test)] item
                let mut pending_cfg_test = false;
                let mut in_macro_def = 0i32;
                for (i, line) in text.lines().enumerate() {
                    let t = line.trim_start();
                    if let Some(d) = skip_depth.as_mut() {
                        *d += line.matches('{').count() as i32 - line.matches('}').count() as i32;
                        if *d <= 0 && line.contains('}') {
                            skip_depth = None;
                        }
                        continue;
                    }
                    if t.starts_with("#[cfg(test)]") || t.starts_with("#[cfg(locka99_opcua_verif)]") {
                        pending_cfg_test = true;
                        continue;
                    }
                    if pending_cfg_test {
                        if t.starts_with("#[") || t.is_empty() {
                            continue;
                        }
                        pending_cfg_test = false;
                        let d = line.matches('{').count() as i32 - line.matches('}').count() as i32;
                        if d > 0 {
                            skip_depth = Some(d);
                        } else if !line.contains(';') {
                            skip_depth = Some(0);
                        }
                        continue;
                    }
                    if t.starts_with("macro_rules!") && t.contains("trace_") {
                        in_macro_def = 1;
                        continue;
                    }
                    if in_macro_def > 0 {
                        in_macro_def += line.matches('{').count() as i32 - line.matches('}').count() as i32;
                        // the definition starts at depth 1 after its own opening brace
                        if in_macro_def <= 1 && t.starts_with('}') {
                            in_macro_def = 0;
                        }
                        continue;
                    }
                    if t.starts_with("//") {
                        continue;
                    }
                    let code = match line.find("//") {
                        Some(idx) => &line[..idx],
                        None => line,
                    };
                    for m in ["trace_lock!", "trace_read_lock!", "trace_write_lock!"] {
                        if code.contains(m) {
                            out.push((rel.clone(), (i + 1) as u32, m.to_string()));
                        }
                    }
                }
            }
        }
    }
    let mut out = vec![];
    walk(lib_src, lib_src, &mut out);
    out
}

/// Everything the monitor reported, summed over the sampling windows. The monitor keeps a single
/// acquisition-site pair per class edge (the first it sees), so the harness samples and resets it a
/// few times per second: the first pair of every window is kept, which tells different places that
/// take the same two classes apart.
#[derive(Default)]
pub struct Acc {
    pub graph: Graph,
    /// (file relative to lib/src, line) -> acquisitions
    pub sites: BTreeMap<(String, u32), u64>,
    pub acquisitions: u64,
    pub max_depth: usize,
    pub cross_thread_releases: u64,
    pub threads: usize,
    pub windows: u64,
    pub lib_src: Option<PathBuf>,
}

impl Acc {
    pub fn add(&mut self, s: &locks::Snapshot) {
        self.graph.add_snapshot(s);
        for ((f, l), n) in &s.sites {
            *self.sites.entry((graph::short_file(f), *l)).or_insert(0) += *n;
            if self.lib_src.is_none() && f.starts_with('/') {
                if let Some(idx) = f.find("lib/src/") {
                    self.lib_src = Some(PathBuf::from(&f[..idx + 7]));
                }
            }
        }
        self.acquisitions += s.acquisitions;
        self.max_depth = self.max_depth.max(s.max_depth);
        self.cross_thread_releases += s.cross_thread_releases;
        self.threads = self.threads.max(s.threads);
        self.windows += 1;
    }
    /// take what the monitor has and start a new window
    pub fn sample(&mut self) {
        let s = locks::snapshot();
        locks::reset();
        self.add(&s);
    }
    fn to_json(&self) -> Value {
        let sites: Vec<Value> = self.sites.iter().map(|((f, l), n)| json!([f, l, n])).collect();
        let g = self.graph.to_json();
        json!({
            "acquisitions": self.acquisitions, "max_depth": self.max_depth,
            "cross_thread_releases": self.cross_thread_releases, "threads": self.threads, "windows": self.windows,
            "edges": g["edges"], "classes": g["classes"], "sites": sites,
        })
    }
}

pub fn c38(args: &Args, rep: &mut Report) {
    let (seed, shard, shards, thorough) = match &args.replay {
        Some(path) => {
            let v: Value = std::fs::read_to_string(path)
                .ok()
                .and_then(|s| serde_json::from_str(&s).ok())
                .unwrap_or(Value::Null);
            let c = &v["case"];
            (
                c["seed"].as_u64().unwrap_or(args.seed),
                c["shard"].as_u64().unwrap_or(0) as usize,
                c["shards"].as_u64().unwrap_or(1) as usize,
                c["tier"].as_str().map(|t| t == "thorough").unwrap_or(args.thorough()),
            )
        }
        None => (args.seed, args.shard, args.shards, args.thorough()),
    };
    // A server task that panics (other properties' findings) keeps its locks until the panic hook has
    // printed; symbolising a backtrace can take seconds on a loaded machine and looks like a wedged server.
    std::env::set_var("RUST_BACKTRACE", "0");
    let plan = Plan::new(seed, shard, shards, thorough);
    let case = plan.to_json(if thorough { "thorough" } else { "quick" });
    rep.begin_case(&case);
    rep.max_violations = 60;
    let scratch = pki::scratch_dir(&format!("locks_{}_{}", seed, shard));

    let outcome = run(&plan, &scratch, rep);
    let _ = std::fs::remove_dir_all(&scratch);
    let (init, snap) = match outcome {
        Ok(x) => x,
        Err(e) => {
            rep.inconclusive(format!("workload could not run: {}", e));
            return;
        }
    };

    // dump for the union oracle
    let dump = json!({"seed": seed, "shard": shard, "init": init.to_json(), "run": snap.to_json()});
    let _ = std::fs::write(format!("{}.locks.json", args.out), serde_json::to_vec(&dump).unwrap());

    // evidence
    rep.count("acquisitions", snap.acquisitions);
    rep.count("monitor_threads_summed_over_shards", snap.threads as u64);
    rep.count("max_nesting_depth_summed_over_shards", snap.max_depth as u64);
    rep.count("cross_thread_releases", snap.cross_thread_releases);
    rep.count("sampling_windows", snap.windows);
    rep.count("init_phase_acquisitions_not_judged", init.acquisitions);
    if snap.cross_thread_releases > 0 {
        rep.inconclusive(format!(
            "{} guards were released on a thread other than the one that acquired them; held sets are unreliable",
            snap.cross_thread_releases
        ));
    }
    let lib_src = snap.lib_src.clone().unwrap_or_else(|| PathBuf::from("/repo/lib/src"));
    let all_sites = macro_sites(&lib_src);
    let server_sites: Vec<&(String, u32, String)> = all_sites.iter().filter(|s| !s.0.starts_with("client/")).collect();
    let fired_run: BTreeSet<(String, u32)> = snap.sites.keys().cloned().collect();
    let fired: BTreeSet<(String, u32)> = snap.sites.keys().chain(init.sites.keys()).cloned().collect();
    let srv_fired = server_sites.iter().filter(|s| fired.contains(&(s.0.clone(), s.1))).count();
    let srv_fired_run = server_sites.iter().filter(|s| fired_run.contains(&(s.0.clone(), s.1))).count();
    if all_sites.is_empty() {
        rep.inconclusive(format!("no trace_*lock! sites found under {}", lib_src.display()));
    }
    rep.note(format!(
        "shard {}: {} of {} server/core macro sites fired ({} under load, the rest only while the server was constructed); \
         {} threads, {} acquisitions, max nesting {}",
        shard,
        srv_fired,
        server_sites.len(),
        srv_fired_run,
        snap.threads,
        snap.acquisitions,
        snap.max_depth
    ));

    let g = &snap.graph;
    for ((a, b), e) in &g.edges {
        let kinds: Vec<String> = e.kinds.iter().map(|(h, k)| format!("{}{}", h, k)).collect();
        rep.case(&format!("{}>{}|{}", a, b, kinds.join(",")));
    }
    rep.sample(json!({"case": case, "edges": g.edges.len(), "classes": g.classes.len()}));
    for ((a, b), e) in g.edges.iter().take(400) {
        if rep.samples.len() < 6 && !graph::is_client_class(a) && a != b {
            rep.samples.push(json!({"edge": format!("{} -> {}", a, b), "count": e.count,
                "held_at": graph::short_site(&e.from_site.0, e.from_site.1),
                "taken_at": graph::short_site(&e.to_site.0, e.to_site.1)}));
        }
    }
    if g.edges.len() < 20 || snap.acquisitions < 10_000 {
        rep.inconclusive(format!(
            "the monitor saw too little: {} edges, {} acquisitions",
            g.edges.len(),
            snap.acquisitions
        ));
    }
    for f in graph::judge(g) {
        if f.violation {
            rep.violation(f.signature, f.detail, case.clone());
        } else {
            rep.note(format!("{}: {}", f.signature, f.detail));
        }
    }
    // what construction did (single-threaded, before any task exists): recorded, not judged
    let mut init_edges: Vec<String> = init.graph.edges.keys().filter(|(a, b)| a != b).map(|(a, b)| format!("{}>{}", a, b)).collect();
    init_edges.sort();
    rep.note(format!("edges seen only while Server::new ran (not judged): {}", init_edges.join(" ")));
}

fn run(plan: &Plan, scratch: &PathBuf, rep: &mut Report) -> Result<(Acc, Acc), String> {
    crate::stall::install();
    locks::set_enabled(true);
    locks::reset();

    // construction happens before any server task exists: its acquisitions are kept apart
    let mut s = srv::build(scratch, plan.variant);
    if plan.self_discovery {
        // the server registers with itself: reaches the registration timer and its client
        let st = s.server_state.clone();
        let st = opcua::trace_read_lock!(st);
        let mut cfg = opcua::trace_write_lock!(st.config);
        cfg.discovery_server_url = Some(s.url.clone());
    }
    let mut init_snap = Acc::default();
    init_snap.sample();
    let mut acc = Acc::default();

    srv::populate(&mut s);
    let counters = Arc::new(SrvCounters::default());
    {
        // one polling action queued before the server runs ...
        let a = s.address_space.clone();
        let ns = s.ns;
        let c = counters.clone();
        let rng = std::sync::Mutex::new(Rng::new(plan.seed ^ 0x9011));
        let mut server = opcua::trace_write_lock!(s.server);
        server.add_polling_action(25, move || {
            let mut rng = rng.lock().unwrap();
            srv::write_values(&a, ns, &mut rng, &c);
            c.polling_action_runs.fetch_add(1, Ordering::Relaxed);
        });
    }

    let rt_srv = tokio::runtime::Builder::new_multi_thread()
        .worker_threads(6)
        .thread_name("srv")
        .enable_all()
        .build()
        .map_err(|e| e.to_string())?;
    let rt_cli = tokio::runtime::Builder::new_multi_thread()
        .worker_threads(4)
        .thread_name("cli")
        .enable_all()
        .build()
        .map_err(|e| e.to_string())?;
    if plan.variant == 2 {
        // the blocking entry point with the runtime the server builds for itself
        let server = s.server.clone();
        std::thread::Builder::new()
            .name("run_server".into())
            .spawn(move || Server::run_server(server))
            .map_err(|e| e.to_string())?;
    } else {
        rt_srv.spawn(Server::new_server_task(s.server.clone()));
    }

    // wait until it listens
    let t0 = Instant::now();
    loop {
        if std::net::TcpStream::connect(("127.0.0.1", s.port)).is_ok() {
            break;
        }
        if t0.elapsed() > Duration::from_secs(10) {
            rt_srv.shutdown_background();
            rt_cli.shutdown_background();
            return Err("server did not start listening within 10 s".into());
        }
        std::thread::sleep(Duration::from_millis(20));
    }
    {
        // ... and one added while it runs
        let _g = rt_srv.enter();
        let a = s.address_space.clone();
        let ns = s.ns;
        let c = counters.clone();
        let rng = std::sync::Mutex::new(Rng::new(plan.seed ^ 0x9012));
        let mut server = opcua::trace_write_lock!(s.server);
        server.add_polling_action(40, move || {
            let mut rng = rng.lock().unwrap();
            srv::write_values(&a, ns, &mut rng, &c);
            c.polling_action_runs.fetch_add(1, Ordering::Relaxed);
        });
    }

    {
        let server = opcua::trace_read_lock!(s.server);
        let _ = server.single_threaded_executor();
    }
    // endpoints through the discovery service
    let url = s.url.clone();
    let scratch2 = scratch.clone();
    let endpoints = rt_cli.block_on(async move {
        let client = cli::make_client(&scratch2, 99, 20000, 1);
        for _ in 0..5 {
            if let Ok(Ok(e)) = tokio::time::timeout(Duration::from_secs(4), client.get_server_endpoints_from_url(url.as_str())).await {
                return Ok(e);
            }
            tokio::time::sleep(Duration::from_millis(100)).await;
        }
        Err("GetEndpoints failed".to_string())
    });
    let endpoints = match endpoints {
        Ok(e) if !e.is_empty() => e,
        _ => {
            rt_srv.shutdown_background();
            rt_cli.shutdown_background();
            return Err("could not fetch the server's endpoints".into());
        }
    };
    // let the discovery connection's teardown pass before sessions are created
    std::thread::sleep(Duration::from_millis(150));

    let ctx = Arc::new(Ctx {
        url: s.url.clone(),
        port: s.port,
        ns: s.ns,
        endpoints,
        stop: AtomicBool::new(false),
        risky: AtomicBool::new(false),
        churn: AtomicBool::new(false),
        stats: Default::default(),
        data_notifications: Default::default(),
        event_notifications: Default::default(),
        sessions_connected: Default::default(),
        connect_failures: Default::default(),
        graceful_disconnects: Default::default(),
        abrupt_drops: Default::default(),
        op_timeouts: Default::default(),
        scratch: scratch.clone(),
    });

    let stop_actors = Arc::new(AtomicBool::new(false));
    let actors = srv::spawn_actors(&s, plan.seed ^ ((plan.shard as u64) << 20), stop_actors.clone(), counters.clone());

    let mut tasks = vec![];
    let mut seeder = Rng::new(plan.seed ^ 0x5EED ^ ((plan.shard as u64) << 32));
    for i in 0..plan.steady_clients {
        tasks.push(rt_cli.spawn(cli::lib_client(ctx.clone(), i, seeder.next_u64(), true)));
    }
    for i in 0..plan.churn_clients {
        tasks.push(rt_cli.spawn(cli::lib_client(ctx.clone(), 10 + i, seeder.next_u64(), false)));
    }
    for i in 0..plan.raw_clients {
        tasks.push(rt_cli.spawn(cli::raw_client(ctx.clone(), i, seeder.next_u64())));
    }

    // timeline with a liveness probe (an observed stall ends the load early; it never decides the verdict)
    let start = Instant::now();
    let total = plan.steady_ms + plan.churn_ms + plan.risky_ms;
    let mut consecutive_stalls = 0;
    let mut stalled = false;
    let mut last_answered = 0u64;
    let mut last_progress = Instant::now();
    while (start.elapsed().as_millis() as u64) < total {
        let el = start.elapsed().as_millis() as u64;
        if el >= plan.steady_ms {
            ctx.churn.store(true, Ordering::Relaxed);
        }
        if el >= plan.steady_ms + plan.churn_ms {
            ctx.risky.store(true, Ordering::Relaxed);
        }
        std::thread::sleep(Duration::from_millis(200));
        acc.sample();
        let ok = s.address_space.try_read_for(Duration::from_millis(1500)).is_some()
            && s.server_state.try_read_for(Duration::from_millis(1500)).is_some();
        // no request of any client succeeding for a long time is a stall as well (locks other than the two probed)
        let answered: u64 = ctx.stats.lock().unwrap().iter().filter(|(k, _)| *k != "noop" && *k != "idle").map(|(_, v)| v.0).sum();
        if answered != last_answered {
            last_answered = answered;
            last_progress = Instant::now();
        }
        let ok = ok && last_progress.elapsed() < Duration::from_secs(8);
        if ok {
            consecutive_stalls = 0;
            counters.probe_ok.fetch_add(1, Ordering::Relaxed);
        } else {
            consecutive_stalls += 1;
            counters.probe_stalls.fetch_add(1, Ordering::Relaxed);
            if consecutive_stalls >= 4 {
                stalled = true;
                break;
            }
        }
    }
    let load_ms = start.elapsed().as_millis() as u64;
    ctx.stop.store(true, Ordering::Relaxed);
    stop_actors.store(true, Ordering::Relaxed);
    if stalled {
        rep.note(format!(
            "liveness probe: AddressSpace/ServerState could not be read-locked for over 6 s, or no client request succeeded \
             for 8 s, after {} ms of load - the server appears deadlocked; load ended early (the verdict comes from the order graph only)",
            load_ms
        ));
        rep.count("server_stall_observed", 1);
        // nothing below may depend on a server lock or on the monitor any more
        acc.sample();
        locks::set_enabled(false);
    }
    // let clients finish their current step
    let t1 = Instant::now();
    while t1.elapsed() < Duration::from_millis(if stalled { 300 } else { 3000 }) {
        if tasks.iter().all(|t| t.is_finished()) {
            break;
        }
        std::thread::sleep(Duration::from_millis(50));
    }
    for t in &tasks {
        t.abort();
    }
    if !stalled {
        // server shutdown path
        let server = s.server.clone();
        let h = std::thread::spawn(move || {
            let mut server = opcua::trace_write_lock!(server);
            server.abort();
        });
        let t2 = Instant::now();
        while !h.is_finished() && t2.elapsed() < Duration::from_secs(2) {
            std::thread::sleep(Duration::from_millis(20));
        }
        // the abort poll runs once a second
        std::thread::sleep(Duration::from_millis(1200));
        // an actor may itself be parked on a server lock that is never released
        let t3 = Instant::now();
        while !actors.iter().all(|a| a.is_finished()) && t3.elapsed() < Duration::from_secs(3) {
            std::thread::sleep(Duration::from_millis(50));
        }
        let parked = actors.iter().filter(|a| !a.is_finished()).count();
        if parked > 0 {
            rep.note(format!("{} server-side harness thread(s) were still blocked on a server lock 3 s after the load ended", parked));
            rep.count("harness_threads_left_blocked", parked as u64);
        }
    }
    if !stalled {
        acc.sample();
        locks::set_enabled(false);
    }
    rt_cli.shutdown_background();
    rt_srv.shutdown_background();

    // workload evidence
    rep.count("load_ms", load_ms);
    rep.count("client_sessions_connected", ctx.sessions_connected.load(Ordering::Relaxed));
    rep.count("client_connect_failures", ctx.connect_failures.load(Ordering::Relaxed));
    rep.count("graceful_disconnects", ctx.graceful_disconnects.load(Ordering::Relaxed));
    rep.count("abrupt_tcp_drops", ctx.abrupt_drops.load(Ordering::Relaxed));
    rep.count("data_change_notifications", ctx.data_notifications.load(Ordering::Relaxed));
    rep.count("event_notifications", ctx.event_notifications.load(Ordering::Relaxed));
    rep.count("request_timeouts", ctx.op_timeouts.load(Ordering::Relaxed));
    rep.count("server_value_writes", counters.value_writes.load(Ordering::Relaxed));
    rep.count("server_structural_edits", counters.structural_edits.load(Ordering::Relaxed));
    rep.count("server_events_raised", counters.events_raised.load(Ordering::Relaxed));
    rep.count("server_metrics_collections", counters.metrics_collections.load(Ordering::Relaxed));
    rep.count("server_polling_action_runs", counters.polling_action_runs.load(Ordering::Relaxed));
    rep.count("liveness_probe_ok", counters.probe_ok.load(Ordering::Relaxed));
    rep.count("liveness_probe_stalls", counters.probe_stalls.load(Ordering::Relaxed));
    let stats = ctx.stats.lock().unwrap().clone();
    let mut families = 0;
    for (k, (ok, err)) in &stats {
        rep.count(&format!("svc_{}_ok", k), *ok);
        rep.count(&format!("svc_{}_fault", k), *err);
        if *ok > 0 {
            families += 1;
        }
    }
    if families < 15 {
        rep.inconclusive(format!("only {} service families ever succeeded; the workload did not run properly", families));
    }
    if stalled {
        // Last of all (the signal handlers take locks of their own and may leave threads hanging):
        // where the threads were when the stall was seen. Bounded, on a helper thread.
        let (tx, rx) = std::sync::mpsc::channel();
        std::thread::spawn(move || {
            let _ = tx.send(crate::stall::dump_blocked_threads());
        });
        match rx.recv_timeout(Duration::from_secs(70)) {
            Ok(blocked) => rep.note(format!(
                "threads inside repository code when the stall was seen ({}): {}",
                blocked.len(),
                blocked.join(" || ")
            )),
            Err(_) => rep.note("thread dump for the stall did not complete"),
        }
    }
    Ok((init_snap, acc))
}
