//! A minimal hand-driven OPC UA TCP client (security None) built from the repository's own codec,
//! chunker and secure channel. Used for what the library client does not expose (Republish,
//! BrowseNext with real continuation points, HistoryRead/Update, Query, RegisterServer, FindServers,
//! several sessions on one connection, activation of a session from another channel) and for
//! dropping the TCP stream at an arbitrary point.
#![allow(dead_code)]
use futures::StreamExt;
use opcua::core::comms::{
    chunker::Chunker,
    message_chunk::{MessageChunk, MessageIsFinalType},
    secure_channel::{Role, SecureChannel},
    tcp_codec::{Message, TcpCodec},
    tcp_types::HelloMessage,
};
use opcua::core::supported_message::SupportedMessage;
use opcua::crypto::CertificateStore;
use opcua::sync::RwLock;
use opcua::types::*;
use std::sync::Arc;
use std::time::Duration;
use tokio::io::AsyncWriteExt;
use tokio::net::tcp::{OwnedReadHalf, OwnedWriteHalf};
use tokio::net::TcpStream;
use tokio_util::codec::FramedRead;

pub struct Raw {
    rd: FramedRead<OwnedReadHalf, TcpCodec>,
    wr: OwnedWriteHalf,
    pub ch: SecureChannel,
    seq: u32,
    req: u32,
    last_rx_seq: u32,
    pending: Vec<MessageChunk>,
    /// responses that arrived for other request ids (publish responses)
    pub other: Vec<(u32, SupportedMessage)>,
    pub url: String,
    handle: u32,
}

pub fn header(token: &NodeId, handle: u32) -> RequestHeader {
    RequestHeader {
        authentication_token: token.clone(),
        timestamp: DateTime::now(),
        request_handle: handle,
        return_diagnostics: DiagnosticBits::empty(),
        audit_entry_id: UAString::null(),
        timeout_hint: 5000,
        additional_header: ExtensionObject::null(),
    }
}

impl Raw {
    pub async fn connect(url: &str, port: u16, store: Arc<RwLock<CertificateStore>>) -> Result<Raw, String> {
        let stream = tokio::time::timeout(Duration::from_secs(3), TcpStream::connect(("127.0.0.1", port)))
            .await
            .map_err(|_| "connect timeout".to_string())?
            .map_err(|e| format!("connect {}", e))?;
        let _ = stream.set_nodelay(true);
        let (r, w) = stream.into_split();
        let opts = DecodingOptions::default();
        let ch = SecureChannel::new(store, Role::Client, opts.clone());
        let mut raw = Raw {
            rd: FramedRead::new(r, TcpCodec::new(opts)),
            wr: w,
            ch,
            seq: 0,
            req: 0,
            last_rx_seq: 0,
            pending: vec![],
            other: vec![],
            url: url.to_string(),
            handle: 1,
        };
        let hello = HelloMessage::new(url, 65535, 65535, 0, 0);
        let mut buf = Vec::new();
        hello.encode(&mut buf).map_err(|e| format!("hello encode {:?}", e))?;
        raw.wr.write_all(&buf).await.map_err(|e| format!("hello write {}", e))?;
        match tokio::time::timeout(Duration::from_secs(3), raw.rd.next()).await {
            Ok(Some(Ok(Message::Acknowledge(_)))) => Ok(raw),
            Ok(Some(Ok(m))) => Err(format!("expected ACK, got {:?}", m).chars().take(80).collect()),
            Ok(Some(Err(e))) => Err(format!("ack read {}", e)),
            Ok(None) => Err("closed before ACK".into()),
            Err(_) => Err("ack timeout".into()),
        }
    }

    /// Makes the eventual drop of this connection send RST instead of FIN
    pub fn reset_on_drop(&self) {
        let s: &TcpStream = self.wr.as_ref();
        let _ = s.set_linger(Some(Duration::from_secs(0)));
    }

    pub fn next_handle(&mut self) -> u32 {
        self.handle += 1;
        self.handle
    }

    pub async fn send(&mut self, msg: &SupportedMessage) -> Result<u32, String> {
        self.req += 1;
        let req = self.req;
        let chunks = Chunker::encode(self.seq + 1, req, 0, 65535, &self.ch, msg).map_err(|e| format!("encode {}", e))?;
        self.seq += chunks.len() as u32;
        for c in chunks {
            let mut dst = vec![0u8; c.data.len() + 4096];
            let n = self.ch.apply_security(&c, &mut dst).map_err(|e| format!("security {}", e))?;
            self.wr.write_all(&dst[..n]).await.map_err(|e| format!("write {}", e))?;
        }
        Ok(req)
    }

    /// Writes only the first `n` bytes of the encoded message (for mid-message disconnects)
    pub async fn send_partial(&mut self, msg: &SupportedMessage, n: usize) -> Result<(), String> {
        self.req += 1;
        let chunks = Chunker::encode(self.seq + 1, self.req, 0, 65535, &self.ch, msg).map_err(|e| format!("encode {}", e))?;
        if let Some(c) = chunks.first() {
            let mut dst = vec![0u8; c.data.len() + 4096];
            let len = self.ch.apply_security(c, &mut dst).map_err(|e| format!("security {}", e))?;
            let n = n.min(len.saturating_sub(1));
            self.wr.write_all(&dst[..n]).await.map_err(|e| format!("write {}", e))?;
        }
        Ok(())
    }

    /// Next complete message from the server
    pub async fn read_one(&mut self, timeout: Duration) -> Result<(u32, SupportedMessage), String> {
        loop {
            let m = tokio::time::timeout(timeout, self.rd.next())
                .await
                .map_err(|_| "read timeout".to_string())?;
            match m {
                None => return Err("closed".into()),
                Some(Err(e)) => return Err(format!("read {}", e)),
                Some(Ok(Message::Chunk(chunk))) => {
                    let chunk = self
                        .ch
                        .verify_and_remove_security(&chunk.data)
                        .map_err(|e| format!("verify {}", e))?;
                    let info = chunk.chunk_info(&self.ch).map_err(|e| format!("chunk info {}", e))?;
                    let fin = info.message_header.is_final;
                    self.pending.push(chunk);
                    match fin {
                        MessageIsFinalType::Intermediate => continue,
                        MessageIsFinalType::FinalError => {
                            self.pending.clear();
                            return Err("final error chunk".into());
                        }
                        MessageIsFinalType::Final => {
                            let chunks: Vec<MessageChunk> = self.pending.drain(..).collect();
                            let req_id = info.sequence_header.request_id;
                            let msg = Chunker::decode(&chunks, &self.ch, None).map_err(|e| format!("decode {}", e))?;
                            return Ok((req_id, msg));
                        }
                    }
                }
                Some(Ok(Message::Error(e))) => return Err(format!("ERR {}", e.error)),
                Some(Ok(_)) => return Err("unexpected frame".into()),
            }
        }
    }

    /// Request / response; responses to other requests (publish) are put aside
    pub async fn call(&mut self, msg: SupportedMessage) -> Result<SupportedMessage, String> {
        let req = self.send(&msg).await?;
        for _ in 0..64 {
            let (id, m) = self.read_one(Duration::from_secs(3)).await?;
            if id == req {
                return Ok(m);
            }
            if self.other.len() < 64 {
                self.other.push((id, m));
            }
        }
        Err("no response among 64 messages".into())
    }

    pub async fn open_channel(&mut self) -> Result<(), String> {
        let h = self.next_handle();
        let nonce = self.ch.security_policy().random_nonce();
        self.ch.set_local_nonce(nonce.as_ref());
        let req = OpenSecureChannelRequest {
            request_header: header(&NodeId::null(), h),
            client_protocol_version: 0,
            request_type: SecurityTokenRequestType::Issue,
            security_mode: MessageSecurityMode::None,
            client_nonce: nonce,
            requested_lifetime: 60000,
        };
        match self.call(req.into()).await? {
            SupportedMessage::OpenSecureChannelResponse(r) => {
                self.ch.set_security_token(r.security_token.clone());
                Ok(())
            }
            m => Err(format!("OPN answered by {:?}", m).chars().take(100).collect()),
        }
    }

    pub async fn renew_channel(&mut self) -> Result<(), String> {
        let h = self.next_handle();
        let req = OpenSecureChannelRequest {
            request_header: header(&NodeId::null(), h),
            client_protocol_version: 0,
            request_type: SecurityTokenRequestType::Renew,
            security_mode: MessageSecurityMode::None,
            client_nonce: ByteString::null(),
            requested_lifetime: 60000,
        };
        match self.call(req.into()).await? {
            SupportedMessage::OpenSecureChannelResponse(r) => {
                self.ch.set_security_token(r.security_token.clone());
                Ok(())
            }
            m => Err(format!("renew answered by {:?}", m).chars().take(100).collect()),
        }
    }

    /// CreateSession + ActivateSession (anonymous). Returns (session id, authentication token)
    pub async fn create_session(&mut self, timeout_ms: f64, name: &str) -> Result<(NodeId, NodeId), String> {
        let h = self.next_handle();
        let req = CreateSessionRequest {
            request_header: header(&NodeId::null(), h),
            client_description: ApplicationDescription {
                application_uri: UAString::from("urn:verif:locks-raw"),
                product_uri: UAString::from("urn:verif:locks-raw"),
                application_name: LocalizedText::from("raw"),
                application_type: ApplicationType::Client,
                gateway_server_uri: UAString::null(),
                discovery_profile_uri: UAString::null(),
                discovery_urls: None,
            },
            server_uri: UAString::null(),
            endpoint_url: UAString::from(self.url.as_str()),
            session_name: UAString::from(name),
            client_nonce: ByteString::null(),
            client_certificate: ByteString::null(),
            requested_session_timeout: timeout_ms,
            max_response_message_size: 0,
        };
        match self.call(req.into()).await? {
            SupportedMessage::CreateSessionResponse(r) => Ok((r.session_id.clone(), r.authentication_token.clone())),
            SupportedMessage::ServiceFault(f) => Err(format!("create session fault {}", f.response_header.service_result)),
            m => Err(format!("create session answered by {:?}", m).chars().take(100).collect()),
        }
    }

    pub async fn activate(&mut self, token: &NodeId) -> Result<(), String> {
        let h = self.next_handle();
        let anon = AnonymousIdentityToken {
            policy_id: UAString::from("anonymous"),
        };
        let req = ActivateSessionRequest {
            request_header: header(token, h),
            client_signature: SignatureData::null(),
            client_software_certificates: None,
            locale_ids: None,
            user_identity_token: ExtensionObject::from_encodable(ObjectId::AnonymousIdentityToken_Encoding_DefaultBinary, &anon),
            user_token_signature: SignatureData::null(),
        };
        match self.call(req.into()).await? {
            SupportedMessage::ActivateSessionResponse(_) => Ok(()),
            SupportedMessage::ServiceFault(f) => Err(format!("activate fault {}", f.response_header.service_result)),
            m => Err(format!("activate answered by {:?}", m).chars().take(100).collect()),
        }
    }

    pub async fn close_session(&mut self, token: &NodeId, delete_subscriptions: bool) -> Result<(), String> {
        let h = self.next_handle();
        let req = CloseSessionRequest {
            request_header: header(token, h),
            delete_subscriptions,
        };
        self.call(req.into()).await.map(|_| ())
    }

    pub async fn close_channel(&mut self) -> Result<(), String> {
        let h = self.next_handle();
        let req = CloseSecureChannelRequest {
            request_header: header(&NodeId::null(), h),
        };
        self.send(&req.into()).await.map(|_| ())
    }
}
