//! The real server on loopback plus the server-side actors (value writers, structural edits through
//! `server.address_space()`, the metrics collection the http feature performs, polling actions).
#![allow(dead_code)]
use crate::common::Rng;
use crate::pki;
use opcua::server::prelude::*;
use opcua::server::{
    callbacks,
    historical::HistoricalDataProvider,
    metrics::ServerMetrics,
    server::Connections,
    session::{Session, SessionManager},
    state::ServerState,
};
use opcua::sync::*;
use std::path::PathBuf;
use std::sync::atomic::{AtomicBool, AtomicU64, Ordering};
use std::sync::Arc;
use std::time::Duration;

pub const N_INT: usize = 48;
pub const N_DBL: usize = 12;
pub const N_STR: usize = 6;
pub const N_GET: usize = 4;
pub const USER: &str = "sample1";
pub const PASS: &str = "sample1pwd";

pub struct Srv {
    pub server: Arc<RwLock<Server>>,
    pub address_space: Arc<RwLock<AddressSpace>>,
    pub server_state: Arc<RwLock<ServerState>>,
    pub connections: Arc<RwLock<Connections>>,
    pub metrics: Arc<RwLock<ServerMetrics>>,
    pub port: u16,
    pub ns: u16,
    pub url: String,
}

pub fn free_port() -> u16 {
    let l = std::net::TcpListener::bind("127.0.0.1:0").expect("bind port 0");
    l.local_addr().unwrap().port()
}

pub fn int_id(ns: u16, i: usize) -> NodeId {
    NodeId::new(ns, format!("v{:03}", i))
}
pub fn dbl_id(ns: u16, i: usize) -> NodeId {
    NodeId::new(ns, format!("d{:02}", i))
}
pub fn str_id(ns: u16, i: usize) -> NodeId {
    NodeId::new(ns, format!("s{:02}", i))
}
pub fn get_id(ns: u16, i: usize) -> NodeId {
    NodeId::new(ns, format!("g{:02}", i))
}
pub fn vars_folder(ns: u16) -> NodeId {
    NodeId::new(ns, "Vars")
}
pub fn dyn_folder(ns: u16) -> NodeId {
    NodeId::new(ns, "Dyn")
}
pub fn srvdyn_folder(ns: u16) -> NodeId {
    NodeId::new(ns, "SrvDyn")
}
pub fn functions_id(ns: u16) -> NodeId {
    NodeId::new(ns, "Functions")
}
pub fn hellox_id(ns: u16) -> NodeId {
    NodeId::new(ns, "HelloX")
}

struct HelloX;
impl callbacks::Method for HelloX {
    fn call(
        &mut self,
        _session_id: &NodeId,
        _session_map: Arc<RwLock<SessionManager>>,
        request: &CallMethodRequest,
    ) -> Result<CallMethodResult, StatusCode> {
        let out = match request.input_arguments.as_ref().and_then(|a| a.first()) {
            Some(Variant::String(s)) => Variant::from(format!("Hello {}!", s)),
            Some(_) => return Err(StatusCode::BadInvalidArgument),
            None => return Err(StatusCode::BadArgumentsMissing),
        };
        Ok(CallMethodResult {
            status_code: StatusCode::Good,
            input_argument_results: Some(vec![StatusCode::Good]),
            input_argument_diagnostic_infos: None,
            output_arguments: Some(vec![out]),
        })
    }
}

/// RegisterNodes callbacks that look at the session they are handed (ServerState is held by the
/// service at that point, so this is the documented ServerState -> Session direction)
struct RegCb;
impl callbacks::RegisterNodes for RegCb {
    fn register_nodes(
        &mut self,
        session: Arc<RwLock<Session>>,
        nodes_to_register: &[NodeId],
    ) -> Result<Vec<NodeId>, StatusCode> {
        let s = opcua::trace_read_lock!(session);
        let _ = s.is_activated();
        Ok(nodes_to_register.to_vec())
    }
}
struct UnregCb;
impl callbacks::UnregisterNodes for UnregCb {
    fn unregister_nodes(&mut self, session: Arc<RwLock<Session>>, _nodes: &[NodeId]) -> Result<(), StatusCode> {
        let s = opcua::trace_read_lock!(session);
        let _ = s.is_activated();
        Ok(())
    }
}

/// History provider answering from the live address space (ServerState is read-held by the service:
/// ServerState -> AddressSpace, the documented direction)
struct Hist;
impl HistoricalDataProvider for Hist {
    fn read_raw_modified_details(
        &self,
        address_space: Arc<RwLock<AddressSpace>>,
        _request: ReadRawModifiedDetails,
        _timestamps_to_return: TimestampsToReturn,
        _release_continuation_points: bool,
        nodes_to_read: &[HistoryReadValueId],
    ) -> Result<Vec<HistoryReadResult>, StatusCode> {
        let a = opcua::trace_read_lock!(address_space);
        Ok(nodes_to_read
            .iter()
            .map(|n| HistoryReadResult {
                status_code: if a.node_exists(&n.node_id) {
                    StatusCode::GoodNoData
                } else {
                    StatusCode::BadNodeIdUnknown
                },
                continuation_point: ByteString::null(),
                history_data: ExtensionObject::null(),
            })
            .collect())
    }
}

pub fn build(scratch: &PathBuf, variant: usize) -> Srv {
    let port = free_port();
    let url = format!("opc.tcp://127.0.0.1:{}/", port);
    let pki_dir = scratch.join("pki-server");
    let own = pki::identity("locks-server", 2048);
    let _ = std::fs::create_dir_all(pki_dir.join("own"));
    let _ = std::fs::create_dir_all(pki_dir.join("private"));
    let _ = pki::cert_store(&pki_dir, &own);

    let ids: Vec<String> = vec![ANONYMOUS_USER_TOKEN_ID.to_string(), "u1".to_string()];
    let mut config = ServerBuilder::new()
        .application_name("verif-locks")
        .application_uri("urn:verif:locks-server")
        .product_uri("urn:verif:locks-server")
        .create_sample_keypair(false)
        .certificate_path("own/cert.der")
        .private_key_path("private/private.pem")
        .pki_dir(pki_dir.clone())
        .discovery_server_url(None)
        .host_and_port("127.0.0.1", port)
        .user_token("u1", ServerUserToken::user_pass(USER, PASS))
        .endpoints(vec![
            ("none", ServerEndpoint::new_none("/", &ids)),
            ("b256s256_se", ServerEndpoint::new_basic256sha256_sign_encrypt("/", &ids)),
            ("b128_sign", ServerEndpoint::new_basic128rsa15_sign("/", &ids)),
            ("a128_se", ServerEndpoint::new_aes128_sha256_rsaoaep_sign_encrypt("/", &ids)),
        ])
        .discovery_urls(vec![url.clone()])
        .trust_client_certs()
        .clients_can_modify_address_space()
        .multi_threaded_executor()
        .config();
    // fast timers so that ticks interleave with requests
    let iv = [0.02, 0.05, 0.01, 0.03][variant % 4];
    config.limits.min_publishing_interval = iv;
    config.limits.min_sampling_interval = iv;
    config.tcp_config.hello_timeout = 2;
    config.certificate_validation.check_time = false;

    let server = Server::new(config);
    let address_space = server.address_space();
    let server_state = server.server_state();
    let connections = server.connections();
    let metrics = server.server_metrics();
    let server = Arc::new(RwLock::new(server));
    Srv {
        server,
        address_space,
        server_state,
        connections,
        metrics,
        port,
        ns: 0,
        url,
    }
}

/// Sample-like address space: folders, scalar variables of three types, getter-backed variables,
/// a folder clients add nodes to, an event-emitting object and a method.
pub fn populate(srv: &mut Srv) {
    {
        let mut a = opcua::trace_write_lock!(srv.address_space);
        let ns = a.register_namespace("urn:verif:locks").unwrap();
        srv.ns = ns;
        let vars = vars_folder(ns);
        a.add_folder_with_id(&vars, "Vars", "Vars", &NodeId::objects_folder_id());
        a.add_folder_with_id(&dyn_folder(ns), "Dyn", "Dyn", &NodeId::objects_folder_id());
        a.add_folder_with_id(&srvdyn_folder(ns), "SrvDyn", "SrvDyn", &NodeId::objects_folder_id());
        for i in 0..N_INT {
            let name = format!("v{:03}", i);
            VariableBuilder::new(&int_id(ns, i), name.as_str(), name.as_str())
                .data_type(DataTypeId::Int32)
                .value(0i32)
                .writable()
                .organized_by(&vars)
                .insert(&mut a);
        }
        for i in 0..N_DBL {
            let name = format!("d{:02}", i);
            VariableBuilder::new(&dbl_id(ns, i), name.as_str(), name.as_str())
                .data_type(DataTypeId::Double)
                .value(0f64)
                .writable()
                .organized_by(&vars)
                .insert(&mut a);
        }
        for i in 0..N_STR {
            let name = format!("s{:02}", i);
            VariableBuilder::new(&str_id(ns, i), name.as_str(), name.as_str())
                .data_type(DataTypeId::String)
                .value(UAString::from("x"))
                .writable()
                .organized_by(&vars)
                .insert(&mut a);
        }
        let ticks = Arc::new(AtomicU64::new(0));
        for i in 0..N_GET {
            let name = format!("g{:02}", i);
            let t = ticks.clone();
            VariableBuilder::new(&get_id(ns, i), name.as_str(), name.as_str())
                .data_type(DataTypeId::UInt64)
                .value(0u64)
                .value_getter(AttrFnGetter::new_boxed(
                    move |_, _, _, _, _, _| -> Result<Option<DataValue>, StatusCode> {
                        Ok(Some(DataValue::new_now(t.fetch_add(1, Ordering::Relaxed))))
                    },
                ))
                .organized_by(&vars)
                .insert(&mut a);
        }
        let f = functions_id(ns);
        ObjectBuilder::new(&f, "Functions", "Functions")
            .event_notifier(EventNotifier::SUBSCRIBE_TO_EVENTS)
            .organized_by(ObjectId::ObjectsFolder)
            .insert(&mut a);
        MethodBuilder::new(&hellox_id(ns), "HelloX", "HelloX")
            .component_of(f)
            .input_args(&mut a, &[("YourName", DataTypeId::String).into()])
            .output_args(&mut a, &[("Result", DataTypeId::String).into()])
            .callback(Box::new(HelloX))
            .insert(&mut a);
    }
    {
        let mut st = opcua::trace_write_lock!(srv.server_state);
        st.set_register_nodes_callbacks(Box::new(RegCb), Box::new(UnregCb));
        st.set_historical_data_provider(Box::new(Hist));
    }
}

#[derive(Default)]
pub struct SrvCounters {
    pub value_writes: AtomicU64,
    pub structural_edits: AtomicU64,
    pub events_raised: AtomicU64,
    pub metrics_collections: AtomicU64,
    pub polling_action_runs: AtomicU64,
    pub probe_stalls: AtomicU64,
    pub probe_ok: AtomicU64,
}

/// Writes changing values so that monitored items have something to report
pub fn write_values(a: &Arc<RwLock<AddressSpace>>, ns: u16, rng: &mut Rng, c: &SrvCounters) {
    let now = DateTime::now();
    let mut a = opcua::trace_write_lock!(a);
    for _ in 0..(1 + rng.usize(6)) {
        match rng.usize(3) {
            0 => {
                let _ = a.set_variable_value(int_id(ns, rng.usize(N_INT)), rng.next_u32() as i32, &now, &now);
            }
            1 => {
                let _ = a.set_variable_value(dbl_id(ns, rng.usize(N_DBL)), rng.f64_unit() * 100.0, &now, &now);
            }
            _ => {
                let _ = a.set_variable_value(
                    str_id(ns, rng.usize(N_STR)),
                    UAString::from(format!("s{}", rng.next_u32() % 1000)),
                    &now,
                    &now,
                );
            }
        }
        c.value_writes.fetch_add(1, Ordering::Relaxed);
    }
}

/// Adds / deletes nodes under SrvDyn and raises a base event from the Functions object
pub fn structural_edit(a: &Arc<RwLock<AddressSpace>>, ns: u16, rng: &mut Rng, c: &SrvCounters, live: &mut Vec<NodeId>) {
    let mut a = opcua::trace_write_lock!(a);
    match rng.usize(4) {
        0 | 1 => {
            let id = NodeId::new(ns, format!("sd{}", rng.next_u32() % 64));
            if !a.node_exists(&id) {
                VariableBuilder::new(&id, "sd", "sd")
                    .data_type(DataTypeId::Int32)
                    .value(1i32)
                    .writable()
                    .organized_by(&srvdyn_folder(ns))
                    .insert(&mut a);
                live.push(id);
            }
            c.structural_edits.fetch_add(1, Ordering::Relaxed);
        }
        2 => {
            if !live.is_empty() {
                let id = live.swap_remove(rng.usize(live.len()));
                a.delete(&id, true);
            }
            c.structural_edits.fetch_add(1, Ordering::Relaxed);
        }
        _ => {
            let ev_id = NodeId::next_numeric(ns);
            let mut ev = BaseEventType::new(
                &ev_id,
                ObjectTypeId::BaseEventType,
                "ev",
                "ev",
                functions_id(ns),
                DateTime::now(),
            )
            .source_node(functions_id(ns))
            .message(LocalizedText::from("harness event"));
            let _ = ev.raise(&mut a);
            // keep the address space from growing without bound
            live.push(ev_id);
            c.events_raised.fetch_add(1, Ordering::Relaxed);
        }
    }
}

/// Collects the metrics the way an embedding application would: ServerMetrics is the outermost lock
/// (as in Server::new), the connection list is copied first. (server/http/mod.rs takes ServerState
/// before ServerMetrics; that module is not compiled here and its order is not reproduced, so that
/// every nesting in the log below ServerMetrics comes from repository code.)
pub fn collect_metrics(srv_state: &Arc<RwLock<ServerState>>, conns: &Arc<RwLock<Connections>>, m: &Arc<RwLock<ServerMetrics>>, c: &SrvCounters) {
    {
        let mut mm = opcua::trace_write_lock!(m);
        let st = opcua::trace_read_lock!(srv_state);
        mm.update_from_server_state(&st);
    }
    let copy = {
        let cs = opcua::trace_read_lock!(conns);
        cs.clone()
    };
    // public per-connection query
    for t in copy.iter().take(3) {
        let t = opcua::trace_read_lock!(t);
        let _ = t.is_server_abort();
    }
    {
        let mut mm = opcua::trace_write_lock!(m);
        mm.update_from_connections(copy);
    }
    c.metrics_collections.fetch_add(1, Ordering::Relaxed);
}

/// The background threads acting on the server through its public API
pub fn spawn_actors(
    srv: &Srv,
    seed: u64,
    stop: Arc<AtomicBool>,
    counters: Arc<SrvCounters>,
) -> Vec<std::thread::JoinHandle<()>> {
    let mut hs = vec![];
    let ns = srv.ns;
    // value writers
    for t in 0..2u64 {
        let a = srv.address_space.clone();
        let stop = stop.clone();
        let c = counters.clone();
        let mut rng = Rng::new(seed ^ 0xA11CE ^ t);
        hs.push(std::thread::spawn(move || {
            while !stop.load(Ordering::Relaxed) {
                write_values(&a, ns, &mut rng, &c);
                std::thread::sleep(Duration::from_millis(3 + rng.below(12)));
            }
        }));
    }
    // structural edits + events
    {
        let a = srv.address_space.clone();
        let stop = stop.clone();
        let c = counters.clone();
        let mut rng = Rng::new(seed ^ 0x57C7);
        hs.push(std::thread::spawn(move || {
            let mut live = vec![];
            while !stop.load(Ordering::Relaxed) {
                structural_edit(&a, ns, &mut rng, &c, &mut live);
                if live.len() > 200 {
                    let mut g = opcua::trace_write_lock!(a);
                    for id in live.drain(..100) {
                        g.delete(&id, true);
                    }
                }
                std::thread::sleep(Duration::from_millis(10 + rng.below(40)));
            }
        }));
    }
    // metrics page
    {
        let st = srv.server_state.clone();
        let cs = srv.connections.clone();
        let m = srv.metrics.clone();
        let stop = stop.clone();
        let c = counters.clone();
        let mut rng = Rng::new(seed ^ 0x3E7);
        hs.push(std::thread::spawn(move || {
            while !stop.load(Ordering::Relaxed) {
                collect_metrics(&st, &cs, &m, &c);
                std::thread::sleep(Duration::from_millis(40 + rng.below(80)));
            }
        }));
    }
    hs
}
