//! When the liveness probe sees the server wedged, every thread is asked (SIGUSR1) for its own
//! backtrace; threads parked inside a parking_lot slow path are summarised by their repository frames.
//! Diagnostic only: it feeds a note in the evidence, never the verdict.
use std::sync::Mutex;

static DUMPS: Mutex<Vec<String>> = Mutex::new(Vec::new());

extern "C" fn on_usr1(_sig: libc::c_int) {
    // not async-signal-safe in general; the threads of interest are parked in a futex wait
    let bt = std::backtrace::Backtrace::force_capture();
    let s = format!("{}", bt);
    if let Ok(mut d) = DUMPS.try_lock() {
        d.push(s);
    }
}

pub fn install() {
    unsafe {
        let mut sa: libc::sigaction = std::mem::zeroed();
        sa.sa_sigaction = on_usr1 as usize;
        sa.sa_flags = libc::SA_RESTART;
        libc::sigemptyset(&mut sa.sa_mask);
        libc::sigaction(libc::SIGUSR1, &sa, std::ptr::null_mut());
    }
}

/// One line per blocked thread: "blocked in <lock kind> at <repo frames, innermost first>"
pub fn dump_blocked_threads() -> Vec<String> {
    DUMPS.lock().unwrap().clear();
    let pid = std::process::id() as libc::pid_t;
    let me = unsafe { libc::syscall(libc::SYS_gettid) } as libc::pid_t;
    let mut n: u64 = 0;
    if let Ok(rd) = std::fs::read_dir("/proc/self/task") {
        for e in rd.flatten() {
            if let Ok(tid) = e.file_name().to_string_lossy().parse::<libc::pid_t>() {
                if tid != me {
                    unsafe {
                        libc::syscall(libc::SYS_tgkill, pid, tid, libc::SIGUSR1);
                    }
                    n += 1;
                    // one at a time keeps the handlers from contending for the dump buffer
                    std::thread::sleep(std::time::Duration::from_millis(40));
                }
            }
        }
    }
    // symbolising the first backtrace reads the debug info of the whole binary: allow for that
    let t0 = std::time::Instant::now();
    loop {
        std::thread::sleep(std::time::Duration::from_millis(250));
        let have = DUMPS.try_lock().map(|d| d.len()).unwrap_or(0);
        if have as u64 >= n || t0.elapsed() > std::time::Duration::from_secs(45) {
            break;
        }
    }
    let dumps = DUMPS.lock().unwrap().clone();
    if std::env::var("VH_LOCKS_DEBUG").is_ok() {
        eprintln!("stall dump: {} threads signalled, {} backtraces", n, dumps.len());
        if let Some(d) = dumps.iter().find(|d| d.contains("parking_lot")) {
            eprintln!("{}", d.chars().take(6000).collect::<String>());
        }
    }
    let mut out = vec![];
    for d in dumps {
        let lines: Vec<&str> = d.lines().collect();
        let mut kind = None;
        let mut frames: Vec<String> = vec![];
        let mut i = 0;
        while i < lines.len() {
            let l = lines[i].trim();
            if l.contains("lock_exclusive_slow") {
                kind = Some("write-lock wait");
            } else if l.contains("lock_shared_slow") {
                kind = Some("read-lock wait");
            } else if l.contains("RawMutex::lock_slow") || l.contains("raw_mutex::RawMutex::lock_slow") {
                kind = Some("mutex wait");
            }
            // frame header "N: symbol", next line "at file:line:col"
            if let Some(next) = lines.get(i + 1) {
                let at = next.trim();
                if at.starts_with("at ")
                    && (at.contains("/repo/lib/src/")
                        || at.contains("crates/locks/src/")
                        || at.contains("/lib_mut/src/")
                        || at.contains("/lib_fixed/src/"))
                {
                    let loc = at.trim_start_matches("at ");
                    let loc = match loc.find("lib/src/") {
                        Some(idx) => &loc[idx + 8..],
                        None => match loc.find("/src/") {
                            Some(idx) if !loc.contains("crates/locks") => &loc[idx + 5..],
                            _ => loc.rsplit('/').next().unwrap_or(loc),
                        },
                    };
                    // drop the column
                    let loc: String = loc.rsplitn(2, ':').last().unwrap_or(loc).to_string();
                    let sym = l.splitn(2, ": ").nth(1).unwrap_or(l);
                    let sym = sym.rsplit("::").next().unwrap_or(sym);
                    frames.push(format!("{}({})", loc, sym));
                }
            }
            i += 1;
        }
        frames.retain(|f| !f.starts_with("stall.rs"));
        if let Some(k) = kind {
            frames.truncate(7);
            out.push(format!("{}: {}", k, frames.join(" < ")));
        } else if frames.iter().any(|f| !f.starts_with("p_locks.rs") && !f.starts_with("cli.rs") && !f.starts_with("raw.rs")) {
            // not waiting for a lock but inside repository (or server-side harness) code
            frames.truncate(7);
            out.push(format!("running: {}", frames.join(" < ")));
        }
    }
    out.sort();
    out
}
