//! Small pure-function workloads (C37 back-off).
#[allow(unused_imports)]
pub(crate) use vh_common::{common, gen, pki};
pub mod p_backoff;
pub use p_backoff::dispatch;
