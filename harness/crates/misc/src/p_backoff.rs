//! C37: reconnect back-off follows its policy and never overflows.
use crate::common::*;
use opcua::verif::client::backoff_sequence;
use serde_json::json;
use std::time::Duration;

fn nanos(d: Duration) -> u128 {
    d.as_nanos()
}

fn dur_from_nanos(n: u128) -> Duration {
    let secs = (n / 1_000_000_000) as u64;
    let sub = (n % 1_000_000_000) as u32;
    Duration::new(secs, sub)
}

/// Reference: first = initial, then each = min(max, 2 * previous); `limit` items or unbounded
fn reference(max: u128, limit: Option<u32>, initial: u128, n: usize) -> Vec<Option<u128>> {
    let mut out = Vec::with_capacity(n);
    let mut cur = initial;
    for i in 0..n {
        if let Some(l) = limit {
            if i as u64 >= l as u64 {
                out.push(None);
                continue;
            }
        }
        out.push(Some(cur));
        cur = std::cmp::min(max, cur * 2);
    }
    out
}

pub fn dispatch(args: &Args, rep: &mut Report) -> bool {
    match args.prop.as_str() {
        "C37" => c37(args, rep),
        _ => return false,
    }
    true
}

pub fn c37(args: &Args, rep: &mut Report) {
    let mut rng = Rng::new(args.seed ^ 0xC37 ^ (args.shard as u64) << 32);
    let dmax = nanos(Duration::MAX);
    let mut edge: Vec<u128> = vec![
        0,
        1,
        2,
        999,
        1_000_000,
        500_000_000,
        1_000_000_000,
        30_000_000_000,
        dmax / 4,
        dmax / 4 + 1,
        dmax / 2 - 1,
        dmax / 2,
        dmax / 2 + 1,
        dmax - 1,
        dmax,
        (u64::MAX as u128) * 1_000_000_000,
        (u64::MAX as u128 / 2) * 1_000_000_000,
        (u64::MAX as u128 / 2 + 1) * 1_000_000_000,
        u64::MAX as u128,
        u32::MAX as u128,
    ];
    for k in [10u32, 31, 32, 33, 62, 63, 64, 65, 90, 93] {
        edge.push(1u128 << k);
        edge.push((1u128 << k) + 1);
        edge.push((1u128 << k) - 1);
    }
    edge.retain(|e| *e <= dmax);
    let limits: Vec<Option<u32>> = vec![
        Some(0),
        Some(1),
        Some(2),
        Some(10),
        Some(199),
        Some(200),
        Some(250),
        Some(u32::MAX),
        None,
    ];
    let n = 200usize;
    let mut cases: Vec<(u128, Option<u32>, u128)> = Vec::new();
    if args.shard == 0 {
        for &mx in &edge {
            for &l in &limits {
                for &ini in &edge {
                    cases.push((mx, l, ini));
                }
            }
        }
    }
    let random = args.budget(20_000, 400_000);
    for _ in 0..random {
        let pickd = |rng: &mut Rng| -> u128 {
            match rng.below(4) {
                0 => *rng.pick(&edge),
                1 => (rng.next_u64() as u128) % (1u128 << rng.below(64)).max(1),
                2 => {
                    let hi = rng.next_u64() as u128;
                    ((hi << 32) | rng.next_u32() as u128) % (dmax + 1)
                }
                _ => {
                    let e = *rng.pick(&edge);
                    let delta = rng.below(5) as u128;
                    if rng.bool() {
                        e.saturating_sub(delta)
                    } else {
                        (e + delta).min(dmax)
                    }
                }
            }
        };
        let mx = pickd(&mut rng);
        let ini = pickd(&mut rng);
        let l = match rng.below(5) {
            0 => None,
            1 => Some(rng.below(4) as u32),
            2 => Some(rng.below(300) as u32),
            3 => Some(u32::MAX - rng.below(3) as u32),
            _ => *rng.pick(&limits),
        };
        cases.push((mx, l, ini));
    }
    for (mx, l, ini) in cases {
        let case = json!({"max_ns": mx.to_string(), "limit": l, "initial_ns": ini.to_string(), "n": n});
        rep.begin_case(&case);
        let expect = reference(mx, l, ini, n);
        // class: does doubling overflow Duration, does the cap engage, limit kind, initial vs max
        let overflow = ini.checked_mul(2).map(|x| x > dmax).unwrap_or(true) || mx > dmax / 2;
        let class = format!(
            "ovf{} cap{} lim{:?} rel{}",
            overflow as u8,
            expect.iter().flatten().any(|d| *d == mx) as u8,
            l.map(|l| if l == 0 { 0 } else if (l as usize) < n { 1 } else { 2 }),
            (ini > mx) as u8 + (ini == mx) as u8 * 2
        );
        let got = catch(|| backoff_sequence(dur_from_nanos(mx), l, dur_from_nanos(ini), n));
        rep.case(&class);
        rep.sample(case.clone());
        match got {
            Err(p) => {
                rep.violation(p.signature(), format!("back-off panicked: {} at {}:{}", p.msg, p.file, p.line), case);
            }
            Ok(got) => {
                let got: Vec<Option<u128>> = got.into_iter().map(|d| d.map(nanos)).collect();
                // what the monitor saw of the real iterator
                rep.count("sequences_compared", 1);
                rep.count("delays_compared", got.iter().flatten().count() as u64);
                rep.count("sequences_that_ended_at_their_limit", (got.iter().any(|d| d.is_none())) as u64);
                rep.count("sequences_that_reached_the_cap", expect.iter().flatten().any(|d| *d == mx) as u64);
                rep.count("policies_where_doubling_would_overflow_duration", overflow as u64);
                if got != expect {
                    let idx = got.iter().zip(expect.iter()).position(|(a, b)| a != b).unwrap_or(0);
                    let kind = match (got[idx], expect[idx]) {
                        (None, Some(_)) => "ended-early",
                        (Some(_), None) => "too-many",
                        _ => "wrong-delay",
                    };
                    rep.violation(
                        format!("sequence-mismatch|{}", kind),
                        format!("index {}: got {:?} expected {:?}", idx, got[idx], expect[idx]),
                        case,
                    );
                }
            }
        }
    }
}
