//! Server monitored-item workloads: C23 revised parameters, C24 item queues, C25 data change filters.
#[allow(unused_imports)]
pub(crate) use vh_common::{common, gen, pki};
pub mod p_monit;
pub use p_monit::dispatch;
