//! C23 revised subscription / monitored item parameters, C24 monitored item queues and resizing,
//! C25 data change filters.
//!
//! Everything runs against a real `Server` / `ServerState` / `Session` / `AddressSpace` built by
//! `ServerBuilder`; the services are entered through the `opcua::verif::server` wrappers and the
//! subscription timer is driven in virtual time through `session_tick_subscriptions(now)`.
//! Nothing sleeps and no wall-clock reading decides a verdict: the virtual clock starts one day
//! ahead of the wall clock (the services stamp new subscriptions and items with `Utc::now()`, so
//! every later `now` has to lie after that) and each history first synchronises the subscription
//! and its items onto the virtual clock before anything is compared.
use crate::common::*;
use opcua::server::prelude::*;
use opcua::server::session::Session;
use opcua::server::state::ServerState;
use opcua::sync::{Mutex as PlMutex, RwLock};
use opcua::verif::server as hk;
use serde_json::{json, Value};
use std::collections::VecDeque;
use std::sync::Arc;

pub fn dispatch(args: &Args, rep: &mut Report) -> bool {
    match args.prop.as_str() {
        "C23" => c23(args, rep),
        "C24" => c24(args, rep),
        "C25" => c25(args, rep),
        _ => return false,
    }
    true
}

// ------------------------------------------------------------------------------------------------
// environment
// ------------------------------------------------------------------------------------------------

/// Number of plain variables (value set with `set_value_direct`)
const N_NODES: usize = 4;

struct CellGetter(Arc<std::sync::Mutex<DataValue>>);

impl AttributeGetter for CellGetter {
    fn get(
        &mut self,
        _node_id: &NodeId,
        _timestamps_to_return: TimestampsToReturn,
        _attribute_id: AttributeId,
        _index_range: NumericRange,
        _data_encoding: &QualifiedName,
        _max_age: f64,
    ) -> Result<Option<DataValue>, StatusCode> {
        Ok(Some(self.0.lock().unwrap().clone()))
    }
}

struct Env {
    _server: Server,
    state: Arc<RwLock<ServerState>>,
    aspace: Arc<RwLock<AddressSpace>>,
    /// variables whose value is stored in the node
    nodes: Vec<NodeId>,
    /// a variable whose value comes from a getter callback reading `getter_cell`
    getter_node: NodeId,
    getter_cell: Arc<std::sync::Mutex<DataValue>>,
    /// origin of the virtual clock
    base: DateTimeUtc,
    scratch: std::path::PathBuf,
}

impl Drop for Env {
    fn drop(&mut self) {
        let _ = std::fs::remove_dir_all(&self.scratch);
    }
}

#[derive(Clone, Copy, Debug, PartialEq)]
struct Limits {
    min_pub: f64,
    min_samp: f64,
    def_ka: u32,
    max_ka: u32,
    max_lt: u32,
    max_q: usize,
}

const DEFAULT_LIMITS: Limits = Limits {
    min_pub: 100.0,
    min_samp: 100.0,
    def_ka: 10,
    max_ka: 30000,
    max_lt: 90000,
    max_q: 10,
};

impl Env {
    fn new(tag: &str) -> Env {
        let scratch = crate::pki::scratch_dir(tag);
        let server = ServerBuilder::new_anonymous("vh_monit")
            .application_uri("urn:vh_monit")
            .product_uri("urn:vh_monit")
            .create_sample_keypair(false)
            .pki_dir(scratch.join("pki"))
            .host_and_port("127.0.0.1", 4855)
            .server()
            .expect("server configuration is valid");
        let state = server.server_state();
        let aspace = server.address_space();
        let mut nodes = Vec::new();
        let getter_node = NodeId::new(2, "vh_getter");
        let getter_cell = Arc::new(std::sync::Mutex::new(DataValue::default()));
        {
            let mut a = aspace.write();
            let _ = a.register_namespace("urn:vh_monit");
            let folder: NodeId = ObjectId::ObjectsFolder.into();
            for i in 0..N_NODES {
                let id = NodeId::new(2, format!("vh_v{}", i));
                let name = format!("vh_v{}", i);
                let ok = a.add_variables(vec![Variable::new(&id, name.as_str(), name.as_str(), 0i64)], &folder);
                assert!(ok.iter().all(|b| *b), "variable inserted");
                nodes.push(id);
            }
            let mut v = Variable::new(&getter_node, "vh_getter", "vh_getter", 0f64);
            v.set_value_getter(Arc::new(PlMutex::new(CellGetter(getter_cell.clone()))));
            let ok = a.add_variables(vec![v], &folder);
            assert!(ok.iter().all(|b| *b), "getter variable inserted");
        }
        let wall = chrono::Utc::now();
        Env {
            _server: server,
            state,
            aspace,
            nodes,
            getter_node,
            getter_cell,
            base: wall + chrono::Duration::days(1),
            scratch,
        }
    }

    fn apply_limits(&self, l: &Limits) {
        let mut s = self.state.write();
        s.min_publishing_interval_ms = l.min_pub;
        s.min_sampling_interval_ms = l.min_samp;
        s.default_keep_alive_count = l.def_ka;
        s.max_keep_alive_count = l.max_ka;
        s.max_lifetime_count = l.max_lt;
        s.max_monitored_item_queue_size = l.max_q;
    }

    fn at(&self, ms: i64) -> DateTimeUtc {
        self.base + chrono::Duration::milliseconds(ms)
    }

    fn new_session(&self) -> Arc<RwLock<Session>> {
        Arc::new(RwLock::new(Session::new(self.state.clone())))
    }
}

fn rh(handle: u32) -> RequestHeader {
    RequestHeader::new(&NodeId::null(), &DateTime::now(), handle)
}

fn bits_of(v: f64) -> String {
    format!("{:016x}", v.to_bits())
}

fn f64_from_bits_str(s: &str) -> f64 {
    f64::from_bits(u64::from_str_radix(s, 16).unwrap_or(0))
}

/// JSON cannot carry NaN / infinities, so every double in a replay case is [bits-hex, debug text]
fn jf(v: f64) -> Value {
    json!([bits_of(v), format!("{:?}", v)])
}

fn fj(v: &Value) -> f64 {
    v.get(0).and_then(|b| b.as_str()).map(f64_from_bits_str).unwrap_or(0.0)
}

fn ju64(v: &Value) -> u64 {
    if let Some(n) = v.as_u64() {
        return n;
    }
    // arbitrary_precision numbers and strings
    let s = v.to_string();
    s.trim_matches('"').parse::<u64>().unwrap_or(0)
}

fn ji64(v: &Value) -> i64 {
    if let Some(n) = v.as_i64() {
        return n;
    }
    let s = v.to_string();
    s.trim_matches('"').parse::<i64>().unwrap_or(0)
}

fn load_replay(path: &str) -> Option<Value> {
    let s = std::fs::read_to_string(path).ok()?;
    let v: Value = serde_json::from_str(&s).ok()?;
    v.get("case").cloned()
}

/// One session with at most one subscription of interest, driven on the virtual clock
struct Drv<'a> {
    env: &'a Env,
    session: Arc<RwLock<Session>>,
    sub_id: u32,
    now_ms: i64,
    next_req: u32,
    publish_requests: u64,
    ticks: u64,
    /// timestamps to return of the CreateMonitoredItems / ModifyMonitoredItems requests
    ts: TimestampsToReturn,
}

impl<'a> Drv<'a> {
    fn new(env: &'a Env) -> Drv<'a> {
        Drv {
            env,
            session: env.new_session(),
            sub_id: 0,
            now_ms: 0,
            next_req: 1,
            publish_requests: 0,
            ticks: 0,
            ts: TimestampsToReturn::Both,
        }
    }

    fn req_handle(&mut self) -> u32 {
        self.next_req += 1;
        self.next_req
    }

    fn create_subscription(&mut self, pi: f64, lt: u32, ka: u32) -> Result<CreateSubscriptionResponse, StatusCode> {
        let req = CreateSubscriptionRequest {
            request_header: rh(self.req_handle()),
            requested_publishing_interval: pi,
            requested_lifetime_count: lt,
            requested_max_keep_alive_count: ka,
            max_notifications_per_publish: 0,
            publishing_enabled: true,
            priority: 0,
        };
        match hk::create_subscription(self.env.state.clone(), self.session.clone(), &req) {
            SupportedMessage::CreateSubscriptionResponse(r) => {
                self.sub_id = r.subscription_id;
                Ok(*r)
            }
            SupportedMessage::ServiceFault(f) => Err(f.response_header.service_result),
            _ => Err(StatusCode::BadUnexpectedError),
        }
    }

    fn modify_subscription(&mut self, pi: f64, lt: u32, ka: u32) -> Result<ModifySubscriptionResponse, StatusCode> {
        let req = ModifySubscriptionRequest {
            request_header: rh(self.req_handle()),
            subscription_id: self.sub_id,
            requested_publishing_interval: pi,
            requested_lifetime_count: lt,
            requested_max_keep_alive_count: ka,
            max_notifications_per_publish: 0,
            priority: 0,
        };
        match hk::modify_subscription(self.env.state.clone(), self.session.clone(), &req) {
            SupportedMessage::ModifySubscriptionResponse(r) => Ok(*r),
            SupportedMessage::ServiceFault(f) => Err(f.response_header.service_result),
            _ => Err(StatusCode::BadUnexpectedError),
        }
    }

    fn delete_subscription(&mut self) {
        if self.sub_id != 0 {
            let req = DeleteSubscriptionsRequest {
                request_header: rh(self.req_handle()),
                subscription_ids: Some(vec![self.sub_id]),
            };
            let _ = hk::delete_subscriptions(self.session.clone(), &req);
            self.sub_id = 0;
        }
    }

    fn create_items(&mut self, items: Vec<MonitoredItemCreateRequest>) -> Result<Vec<MonitoredItemCreateResult>, StatusCode> {
        let req = CreateMonitoredItemsRequest {
            request_header: rh(self.req_handle()),
            subscription_id: self.sub_id,
            timestamps_to_return: self.ts,
            items_to_create: Some(items),
        };
        match hk::create_monitored_items(self.env.state.clone(), self.session.clone(), self.env.aspace.clone(), &req) {
            SupportedMessage::CreateMonitoredItemsResponse(r) => Ok(r.results.unwrap_or_default()),
            SupportedMessage::ServiceFault(f) => Err(f.response_header.service_result),
            _ => Err(StatusCode::BadUnexpectedError),
        }
    }

    fn modify_items(&mut self, items: Vec<MonitoredItemModifyRequest>) -> Result<Vec<MonitoredItemModifyResult>, StatusCode> {
        let req = ModifyMonitoredItemsRequest {
            request_header: rh(self.req_handle()),
            subscription_id: self.sub_id,
            timestamps_to_return: self.ts,
            items_to_modify: Some(items),
        };
        match hk::modify_monitored_items(self.env.state.clone(), self.session.clone(), self.env.aspace.clone(), &req) {
            SupportedMessage::ModifyMonitoredItemsResponse(r) => Ok(r.results.unwrap_or_default()),
            SupportedMessage::ServiceFault(f) => Err(f.response_header.service_result),
            _ => Err(StatusCode::BadUnexpectedError),
        }
    }

    /// Makes sure one publish request is queued. Returns Ok(true) when one had to be sent, which
    /// makes the server tick the subscriptions once with reason ReceivePublishRequest at `now`.
    fn ensure_publish_request(&mut self) -> Result<bool, StatusCode> {
        let queued = {
            let mut s = self.session.write();
            hk::session_queue_lengths(&mut s).0
        };
        if queued > 0 {
            return Ok(false);
        }
        let now = self.env.at(self.now_ms);
        let req = PublishRequest {
            request_header: RequestHeader::new(&NodeId::null(), &DateTime::from(now), self.req_handle()),
            subscription_acknowledgements: None,
        };
        let id = self.next_req;
        self.publish_requests += 1;
        match hk::async_publish(&now, self.session.clone(), self.env.aspace.clone(), id, &req) {
            None => Ok(true),
            Some(SupportedMessage::ServiceFault(f)) => Err(f.response_header.service_result),
            Some(_) => Err(StatusCode::BadUnexpectedError),
        }
    }

    /// Timer tick at the current virtual time; returns the publish responses that became ready
    fn timer_tick(&mut self) -> Result<Vec<PublishResponse>, StatusCode> {
        let now = self.env.at(self.now_ms);
        self.ticks += 1;
        let a = self.env.aspace.read();
        let mut s = self.session.write();
        hk::session_tick_subscriptions(&mut s, &now, &a, true)?;
        Ok(hk::session_take_publish_responses(&mut s)
            .into_iter()
            .filter_map(|(_, m)| match m {
                SupportedMessage::PublishResponse(p) => Some(*p),
                _ => None,
            })
            .collect())
    }

    /// Responses that a ReceivePublishRequest tick may have produced
    fn take_responses(&mut self) -> Vec<PublishResponse> {
        let mut s = self.session.write();
        hk::session_take_publish_responses(&mut s)
            .into_iter()
            .filter_map(|(_, m)| match m {
                SupportedMessage::PublishResponse(p) => Some(*p),
                _ => None,
            })
            .collect()
    }
}

/// All data change notifications of the responses, in delivery order
fn data_items(resps: &[PublishResponse]) -> Vec<MonitoredItemNotification> {
    let opts = DecodingOptions::default();
    let mut out = Vec::new();
    for r in resps {
        if let Some((dcs, _)) = r.notification_message.notifications(&opts) {
            for dc in dcs {
                if let Some(items) = dc.monitored_items {
                    out.extend(items);
                }
            }
        }
    }
    out
}

fn has_status_change(resps: &[PublishResponse]) -> bool {
    resps.iter().any(|r| {
        r.notification_message
            .notification_data
            .as_ref()
            .map(|d| {
                d.iter().any(|n| {
                    n.node_id == ObjectId::StatusChangeNotification_Encoding_DefaultBinary.into()
                })
            })
            .unwrap_or(false)
    })
}

fn create_req(node: &NodeId, handle: u32, si: f64, q: u32, discard_oldest: bool, filter: ExtensionObject) -> MonitoredItemCreateRequest {
    MonitoredItemCreateRequest {
        item_to_monitor: ReadValueId {
            node_id: node.clone(),
            attribute_id: AttributeId::Value as u32,
            index_range: UAString::null(),
            data_encoding: QualifiedName::null(),
        },
        monitoring_mode: MonitoringMode::Reporting,
        requested_parameters: MonitoringParameters {
            client_handle: handle,
            sampling_interval: si,
            filter,
            queue_size: q,
            discard_oldest,
        },
    }
}

fn modify_req(item_id: u32, handle: u32, si: f64, q: u32, discard_oldest: bool, filter: ExtensionObject) -> MonitoredItemModifyRequest {
    MonitoredItemModifyRequest {
        monitored_item_id: item_id,
        requested_parameters: MonitoringParameters {
            client_handle: handle,
            sampling_interval: si,
            filter,
            queue_size: q,
            discard_oldest,
        },
    }
}

// ------------------------------------------------------------------------------------------------
// C23 revised parameters
// ------------------------------------------------------------------------------------------------

fn next_down(x: f64) -> f64 {
    if x.is_nan() || x == f64::NEG_INFINITY {
        return x;
    }
    if x == 0.0 {
        return -f64::from_bits(1);
    }
    let b = x.to_bits();
    f64::from_bits(if x > 0.0 { b - 1 } else { b + 1 })
}

fn next_up(x: f64) -> f64 {
    -next_down(-x)
}

/// Class of a requested double relative to the server minimum
fn f64_class(x: f64, min: f64) -> &'static str {
    if x.is_nan() {
        "NaN"
    } else if x == f64::NEG_INFINITY {
        "-inf"
    } else if x == f64::INFINITY {
        "+inf"
    } else if x == 0.0 {
        if x.is_sign_negative() {
            "-0"
        } else {
            "0"
        }
    } else if x < 0.0 {
        if x == -1.0 {
            "-1"
        } else if x.abs() < f64::MIN_POSITIVE {
            "neg-subnormal"
        } else {
            "negative"
        }
    } else if x.abs() < f64::MIN_POSITIVE {
        "subnormal"
    } else if x == min {
        "=min"
    } else if x < min {
        if x == next_down(min) {
            "min-eps"
        } else {
            "below-min"
        }
    } else if x == next_up(min) {
        "min+eps"
    } else if x >= 1e300 {
        "huge"
    } else {
        "above-min"
    }
}

fn f64_pool(min: f64) -> Vec<f64> {
    vec![
        0.0,
        -0.0,
        -1.0,
        1.0,
        next_down(min),
        min,
        next_up(min),
        min / 2.0,
        min * 2.0,
        f64::NAN,
        -f64::NAN,
        f64::from_bits(0x7ff0_0000_0000_0001), // signalling NaN
        f64::INFINITY,
        f64::NEG_INFINITY,
        f64::from_bits(1),
        -f64::from_bits(1),
        f64::MIN_POSITIVE,
        f64::MAX,
        f64::MIN,
        u32::MAX as f64,
        -(u32::MAX as f64),
        -1e-300,
        1e300,
    ]
}

fn rand_f64(rng: &mut Rng, min: f64) -> f64 {
    match rng.below(5) {
        0 => *rng.pick(&f64_pool(min)),
        1 => f64::from_bits(rng.next_u64()),
        2 => (rng.f64_unit() - 0.3) * min * 4.0,
        3 => {
            let e = rng.range(-320, 308) as i32;
            let m = 1.0 + rng.f64_unit() * 9.0;
            let v = m * 10f64.powi(e);
            if rng.chance(1, 4) {
                -v
            } else {
                v
            }
        }
        _ => rng.below(100_000) as f64,
    }
}

fn ka_pool(l: &Limits) -> Vec<u32> {
    let mut v = vec![
        0,
        1,
        2,
        3,
        l.def_ka,
        l.max_ka.saturating_sub(1),
        l.max_ka,
        l.max_ka.saturating_add(1),
        u32::MAX / 3,
        u32::MAX / 3 + 1,
        u32::MAX - 1,
        u32::MAX,
    ];
    v.dedup();
    v
}

fn lt_pool(l: &Limits) -> Vec<u32> {
    let mut v = vec![
        0,
        1,
        2,
        3,
        l.def_ka.saturating_mul(3),
        l.def_ka.saturating_mul(3).saturating_sub(1),
        l.max_lt.saturating_sub(1),
        l.max_lt,
        l.max_lt.saturating_add(1),
        u32::MAX / 3,
        u32::MAX - 1,
        u32::MAX,
    ];
    v.dedup();
    v
}

fn q_pool(l: &Limits) -> Vec<u32> {
    let m = l.max_q.min(u32::MAX as usize) as u32;
    let mut v = vec![0, 1, 2, 3, m.saturating_sub(1), m, m.saturating_add(1), 1000, u32::MAX / 2, u32::MAX - 1, u32::MAX];
    v.dedup();
    v
}

fn u32_class(x: u32, lo: u32, hi: u32) -> String {
    if x == 0 {
        "0".into()
    } else if x == u32::MAX {
        "u32max".into()
    } else if x < lo {
        "<lo".into()
    } else if x == lo {
        "=lo".into()
    } else if x < hi {
        "mid".into()
    } else if x == hi {
        "=hi".into()
    } else if x == hi.saturating_add(1) {
        "hi+1".into()
    } else {
        ">hi".into()
    }
}

fn c23_configs() -> Vec<Limits> {
    vec![
        DEFAULT_LIMITS,
        Limits { min_pub: 0.5, min_samp: 0.25, def_ka: 1, max_ka: 1, max_lt: 3, max_q: 1 },
        Limits { min_pub: 1000.0, min_samp: 5000.0, def_ka: 5, max_ka: 100, max_lt: 300, max_q: 2 },
        Limits { min_pub: 1e-3, min_samp: 1.0, def_ka: 10, max_ka: u32::MAX / 3, max_lt: u32::MAX, max_q: 1000 },
        Limits { min_pub: 50.0, min_samp: 0.0, def_ka: 3, max_ka: 3, max_lt: 9, max_q: 100 },
        // ServerState documents 0 as "no limit" for the queue size
        Limits { min_pub: 100.0, min_samp: 100.0, def_ka: 10, max_ka: 30000, max_lt: 90000, max_q: 0 },
    ]
}

fn limits_json(l: &Limits) -> Value {
    json!({"min_pub": jf(l.min_pub), "min_samp": jf(l.min_samp), "def_ka": l.def_ka, "max_ka": l.max_ka,
           "max_lt": l.max_lt, "max_q": l.max_q})
}

fn limits_from(v: &Value) -> Limits {
    Limits {
        min_pub: fj(&v["min_pub"]),
        min_samp: fj(&v["min_samp"]),
        def_ka: ju64(&v["def_ka"]) as u32,
        max_ka: ju64(&v["max_ka"]) as u32,
        max_lt: ju64(&v["max_lt"]) as u32,
        max_q: ju64(&v["max_q"]) as usize,
    }
}

#[derive(Clone, Debug)]
struct C23Case {
    cfg_idx: usize,
    cfg: Limits,
    create: (f64, u32, u32),
    modify: (f64, u32, u32),
    items: Vec<(f64, u32, bool)>,
    moditems: Vec<(f64, u32, bool)>,
}

impl C23Case {
    fn to_json(&self) -> Value {
        let it = |v: &Vec<(f64, u32, bool)>| -> Vec<Value> { v.iter().map(|(s, q, d)| json!([jf(*s), q, d])).collect() };
        json!({
            "cfg_idx": self.cfg_idx,
            "cfg": limits_json(&self.cfg),
            "create": [jf(self.create.0), self.create.1, self.create.2],
            "modify": [jf(self.modify.0), self.modify.1, self.modify.2],
            "items": it(&self.items),
            "moditems": it(&self.moditems),
            "fields": "create/modify = [publishing interval, keep-alive count, lifetime count]; items = [sampling interval, queue size, discard oldest]",
        })
    }

    fn from_json(v: &Value) -> C23Case {
        let tri = |x: &Value| (fj(&x[0]), ju64(&x[1]) as u32, ju64(&x[2]) as u32);
        let it = |x: &Value| -> Vec<(f64, u32, bool)> {
            x.as_array()
                .map(|a| a.iter().map(|e| (fj(&e[0]), ju64(&e[1]) as u32, e[2].as_bool().unwrap_or(true))).collect())
                .unwrap_or_default()
        };
        C23Case {
            cfg_idx: ju64(&v["cfg_idx"]) as usize,
            cfg: limits_from(&v["cfg"]),
            create: tri(&v["create"]),
            modify: tri(&v["modify"]),
            items: it(&v["items"]),
            moditems: it(&v["moditems"]),
        }
    }
}

struct C23Stats {
    services: u64,
    inequalities: u64,
    rejected: u64,
    nan_in: u64,
    revised_changed: u64,
}

fn c23_check_sub(
    rep: &mut Report,
    case: &Value,
    st: &mut C23Stats,
    svc: &str,
    l: &Limits,
    req: (f64, u32, u32),
    rev: (f64, u32, u32),
) {
    let (rpi, rka, rlt) = rev;
    st.inequalities += 3;
    if req.0.to_bits() != rpi.to_bits() || req.1 != rka || req.2 != rlt {
        st.revised_changed += 1;
    }
    // 1. publishing interval at least the minimum (NaN fails >=)
    if !(rpi >= l.min_pub) {
        rep.violation(
            format!("{}|publishing-interval-below-min|requested={}", svc, f64_class(req.0, l.min_pub)),
            format!("requested publishing interval {:?} revised to {:?}, server minimum {:?}", req.0, rpi, l.min_pub),
            case.clone(),
        );
    }
    // 2. keep-alive count between 1 and the maximum
    if rka < 1 || rka > l.max_ka {
        rep.violation(
            format!(
                "{}|keep-alive-out-of-range|requested={}|revised={}",
                svc,
                u32_class(req.1, 1, l.max_ka),
                if rka < 1 { "0" } else { ">max" }
            ),
            format!("requested keep-alive {} revised to {}, allowed 1..={}", req.1, rka, l.max_ka),
            case.clone(),
        );
    }
    // 3. lifetime at least three times the keep-alive count
    if (rlt as u64) < 3 * rka as u64 {
        rep.violation(
            format!(
                "{}|lifetime-below-3x-keep-alive|requested-lifetime={}|requested-keep-alive={}",
                svc,
                u32_class(req.2, 3, l.max_lt),
                u32_class(req.1, 1, l.max_ka)
            ),
            format!(
                "requested (keep-alive {}, lifetime {}) revised to (keep-alive {}, lifetime {}); {} < 3*{}",
                req.1, req.2, rka, rlt, rlt, rka
            ),
            case.clone(),
        );
    }
}

fn c23_check_item(
    rep: &mut Report,
    case: &Value,
    st: &mut C23Stats,
    svc: &str,
    l: &Limits,
    req: (f64, u32),
    rev: (f64, u32),
) {
    let (rsi, rq) = rev;
    st.inequalities += 2;
    if req.0.to_bits() != rsi.to_bits() || req.1 != rq {
        st.revised_changed += 1;
    }
    // 4. sampling interval is -1 or at least the minimum
    if !(rsi == -1.0 || rsi >= l.min_samp) {
        rep.violation(
            format!(
                "{}|sampling-interval-not-minus-one-nor-at-least-min|requested={}|revised={}",
                svc,
                f64_class(req.0, l.min_samp),
                f64_class(rsi, l.min_samp)
            ),
            format!("requested sampling interval {:?} revised to {:?}, server minimum {:?}", req.0, rsi, l.min_samp),
            case.clone(),
        );
    }
    // 5. queue size between 1 and the maximum (maximum 0 is documented as "no limit")
    let too_big = l.max_q != 0 && rq as u64 > l.max_q as u64;
    if rq < 1 || too_big {
        let sig = if l.max_q == 0 {
            format!("{}|queue-size-revised-to-0|server-max=0(no-limit)", svc)
        } else {
            format!(
                "{}|queue-size-out-of-range|requested={}|revised={}",
                svc,
                u32_class(req.1, 1, l.max_q.min(u32::MAX as usize) as u32),
                if rq < 1 { "0" } else { ">max" }
            )
        };
        rep.violation(
            sig,
            format!("requested queue size {} revised to {}, server maximum {}", req.1, rq, l.max_q),
            case.clone(),
        );
    }
}

fn c23_run(env: &Env, drv: &mut Drv, c: &C23Case, rep: &mut Report, st: &mut C23Stats) {
    let case = c.to_json();
    rep.begin_case(&case);
    env.apply_limits(&c.cfg);
    let l = c.cfg;
    if c.create.0.is_nan() || c.items.iter().any(|i| i.0.is_nan()) {
        st.nan_in += 1;
    }
    let class = format!(
        "cfg{} pi={} ka={} lt={} | mpi={} mka={} mlt={} | si={} q={}",
        c.cfg_idx,
        f64_class(c.create.0, l.min_pub),
        u32_class(c.create.1, 1, l.max_ka),
        u32_class(c.create.2, 3, l.max_lt),
        f64_class(c.modify.0, l.min_pub),
        u32_class(c.modify.1, 1, l.max_ka),
        u32_class(c.modify.2, 3, l.max_lt),
        c.items.first().map(|i| f64_class(i.0, l.min_samp)).unwrap_or("-"),
        c.items.first().map(|i| u32_class(i.1, 1, l.max_q as u32)).unwrap_or_default(),
    );
    rep.case(&class);
    rep.sample(case.clone());

    // CreateSubscription
    st.services += 1;
    let r = catch(|| drv.create_subscription(c.create.0, c.create.2, c.create.1));
    match r {
        Err(p) => {
            rep.violation(format!("CreateSubscription|{}", p.signature()), format!("{} at {}:{}", p.msg, p.file, p.line), case.clone());
            return;
        }
        Ok(Err(_)) => {
            st.rejected += 1;
            return;
        }
        Ok(Ok(r)) => c23_check_sub(
            rep,
            &case,
            st,
            "CreateSubscription",
            &l,
            c.create,
            (r.revised_publishing_interval, r.revised_max_keep_alive_count, r.revised_lifetime_count),
        ),
    }
    // ModifySubscription
    st.services += 1;
    let r = catch(|| drv.modify_subscription(c.modify.0, c.modify.2, c.modify.1));
    match r {
        Err(p) => {
            rep.violation(format!("ModifySubscription|{}", p.signature()), format!("{} at {}:{}", p.msg, p.file, p.line), case.clone());
        }
        Ok(Err(_)) => st.rejected += 1,
        Ok(Ok(r)) => c23_check_sub(
            rep,
            &case,
            st,
            "ModifySubscription",
            &l,
            c.modify,
            (r.revised_publishing_interval, r.revised_max_keep_alive_count, r.revised_lifetime_count),
        ),
    }
    // CreateMonitoredItems
    let mut ids: Vec<u32> = Vec::new();
    if !c.items.is_empty() {
        st.services += 1;
        let reqs: Vec<MonitoredItemCreateRequest> = c
            .items
            .iter()
            .enumerate()
            .map(|(i, it)| create_req(&env.nodes[i % N_NODES], 100 + i as u32, it.0, it.1, it.2, ExtensionObject::null()))
            .collect();
        let r = catch(|| drv.create_items(reqs));
        match r {
            Err(p) => {
                rep.violation(format!("CreateMonitoredItems|{}", p.signature()), format!("{} at {}:{}", p.msg, p.file, p.line), case.clone());
            }
            Ok(Err(_)) => st.rejected += 1,
            Ok(Ok(results)) => {
                for (it, res) in c.items.iter().zip(results.iter()) {
                    if res.status_code.is_good() {
                        ids.push(res.monitored_item_id);
                        c23_check_item(rep, &case, st, "CreateMonitoredItems", &l, (it.0, it.1), (res.revised_sampling_interval, res.revised_queue_size));
                    } else {
                        ids.push(0);
                        st.rejected += 1;
                    }
                }
            }
        }
    }
    // ModifyMonitoredItems
    if !c.moditems.is_empty() && ids.iter().any(|i| *i != 0) {
        st.services += 1;
        let live: Vec<u32> = ids.iter().cloned().filter(|i| *i != 0).collect();
        let reqs: Vec<MonitoredItemModifyRequest> = c
            .moditems
            .iter()
            .enumerate()
            .map(|(i, it)| modify_req(live[i % live.len()], 200 + i as u32, it.0, it.1, it.2, ExtensionObject::null()))
            .collect();
        let r = catch(|| drv.modify_items(reqs));
        match r {
            Err(p) => {
                rep.violation(format!("ModifyMonitoredItems|{}", p.signature()), format!("{} at {}:{}", p.msg, p.file, p.line), case.clone());
            }
            Ok(Err(_)) => st.rejected += 1,
            Ok(Ok(results)) => {
                for (it, res) in c.moditems.iter().zip(results.iter()) {
                    if res.status_code.is_good() {
                        c23_check_item(rep, &case, st, "ModifyMonitoredItems", &l, (it.0, it.1), (res.revised_sampling_interval, res.revised_queue_size));
                    } else {
                        st.rejected += 1;
                    }
                }
            }
        }
    }
}

pub fn c23(args: &Args, rep: &mut Report) {
    let env = Env::new("c23");
    let mut st = C23Stats { services: 0, inequalities: 0, rejected: 0, nan_in: 0, revised_changed: 0 };
    let mut drv = Drv::new(&env);
    let mut since_new_session = 0;
    let mut run_one = |c: &C23Case, rep: &mut Report, st: &mut C23Stats| {
        if since_new_session >= 16 {
            drv = Drv::new(&env);
            since_new_session = 0;
        }
        since_new_session += 1;
        c23_run(&env, &mut drv, c, rep, st);
        let _ = catch(|| drv.delete_subscription());
        if drv.sub_id != 0 {
            // deletion failed (panic): start over with a fresh session
            since_new_session = 1000;
        }
    };

    if let Some(path) = &args.replay {
        match load_replay(path) {
            Some(v) => {
                let c = C23Case::from_json(&v);
                run_one(&c, rep, &mut st);
            }
            None => rep.inconclusive("replay file unreadable"),
        }
        env.apply_limits(&DEFAULT_LIMITS);
        return;
    }

    let configs = c23_configs();
    // grid: every (publishing interval, keep-alive, lifetime) of the pools under every configuration; the item
    // parameters walk through their pools alongside
    let mut idx: u64 = 0;
    for (ci, l) in configs.iter().enumerate() {
        let fp = f64_pool(l.min_pub);
        let sp = f64_pool(l.min_samp);
        let kp = ka_pool(l);
        let lp = lt_pool(l);
        let qp = q_pool(l);
        let mut k: usize = 0;
        for (a, pi) in fp.iter().enumerate() {
            for (b, ka) in kp.iter().enumerate() {
                for (d, lt) in lp.iter().enumerate() {
                    idx += 1;
                    k += 1;
                    if idx % args.shards as u64 != args.shard as u64 {
                        continue;
                    }
                    let c = C23Case {
                        cfg_idx: ci,
                        cfg: *l,
                        create: (*pi, *ka, *lt),
                        modify: (fp[(a + 7 + b) % fp.len()], kp[(b + 5 + d) % kp.len()], lp[(d + 3 + a) % lp.len()]),
                        items: vec![
                            (sp[k % sp.len()], qp[(k / sp.len()) % qp.len()], k % 2 == 0),
                            (sp[(k + 11) % sp.len()], qp[(k + 3) % qp.len()], k % 3 == 0),
                        ],
                        moditems: vec![(sp[(k / qp.len()) % sp.len()], qp[k % qp.len()], k % 5 != 0)],
                    };
                    run_one(&c, rep, &mut st);
                }
            }
        }
    }
    // random requests; thorough also draws random (consistent) limit configurations
    let mut rng = Rng::new(args.seed ^ 0xC23 ^ ((args.shard as u64) << 32));
    let n = args.budget(16_000, 600_000);
    for _ in 0..n {
        let (ci, l) = if args.thorough() && rng.chance(1, 2) {
            let max_ka = match rng.below(4) {
                0 => 1 + rng.below(10) as u32,
                1 => 1 + rng.below(100_000) as u32,
                2 => u32::MAX / 3 - rng.below(3) as u32,
                _ => 1 + rng.below((u32::MAX / 3) as u64) as u32,
            };
            let def_ka = 1 + rng.below(max_ka as u64) as u32;
            let max_lt = if rng.bool() { max_ka * 3 } else { (max_ka * 3).saturating_add(rng.below(1000) as u32) };
            let pos = |rng: &mut Rng| match rng.below(4) {
                0 => 10f64.powi(rng.range(-6, 7) as i32),
                1 => rng.below(10_000) as f64 + 1.0,
                2 => rng.f64_unit() * 1000.0 + 1e-9,
                _ => 100.0,
            };
            let qmax = if rng.bool() { 12 } else { 100_000 };
            let max_q = 1 + rng.below(qmax) as usize;
            (99, Limits { min_pub: pos(&mut rng), min_samp: pos(&mut rng), def_ka, max_ka, max_lt, max_q })
        } else {
            let ci = rng.usize(configs.len());
            (ci, configs[ci])
        };
        let ru32 = |rng: &mut Rng, pool: &Vec<u32>| -> u32 {
            match rng.below(4) {
                0 => *rng.pick(pool),
                1 => rng.next_u32(),
                2 => rng.below(64) as u32,
                _ => {
                    let p = *rng.pick(pool);
                    if rng.bool() {
                        p.saturating_add(rng.below(3) as u32)
                    } else {
                        p.saturating_sub(rng.below(3) as u32)
                    }
                }
            }
        };
        let kp = ka_pool(&l);
        let lp = lt_pool(&l);
        let qp = q_pool(&l);
        let n_items = rng.usize(4);
        let c = C23Case {
            cfg_idx: ci,
            cfg: l,
            create: (rand_f64(&mut rng, l.min_pub), ru32(&mut rng, &kp), ru32(&mut rng, &lp)),
            modify: (rand_f64(&mut rng, l.min_pub), ru32(&mut rng, &kp), ru32(&mut rng, &lp)),
            items: (0..n_items).map(|_| (rand_f64(&mut rng, l.min_samp), ru32(&mut rng, &qp), rng.bool())).collect(),
            moditems: (0..rng.usize(3)).map(|_| (rand_f64(&mut rng, l.min_samp), ru32(&mut rng, &qp), rng.bool())).collect(),
        };
        run_one(&c, rep, &mut st);
    }
    env.apply_limits(&DEFAULT_LIMITS);
    rep.count("service_calls", st.services);
    rep.count("inequalities_asserted", st.inequalities);
    rep.count("requests_rejected_by_server", st.rejected);
    rep.count("cases_with_nan_request", st.nan_in);
    rep.count("responses_where_server_revised_a_value", st.revised_changed);
    if st.inequalities == 0 {
        rep.inconclusive("no response was checked");
    }
}

// ------------------------------------------------------------------------------------------------
// C24 monitored item queues
// ------------------------------------------------------------------------------------------------

/// Publishing interval used by the C24 histories (ms): long, so that many samples fit between two publishes
const C24_PI_MS: i64 = 3_600_000;

#[derive(Clone, Debug, PartialEq)]
enum St24 {
    /// write a value into the variable: a fresh one or the same again
    W { node: usize, fresh: bool },
    /// timer tick after `ms` (stays inside the publishing interval); negative: that many ms before the interval ends
    T { ms: i64 },
    /// ModifyMonitoredItems of one item; si: 0 = -1 (sample at the publishing interval), 1 = 0.0 (-> minimum),
    /// 2 = 100 ms, 3 = 250 ms
    M { item: usize, q: u32, discard: bool, si: u8 },
    /// queue a publish request if none is queued, jump past the publishing interval, timer tick, compare
    P { extra: i64 },
}

#[derive(Clone, Debug)]
struct ItemSpec {
    node: usize,
    q: u32,
    discard: bool,
    si: u8,
}

fn si_value(code: u8) -> f64 {
    match code {
        0 => -1.0,
        1 => 0.0,
        2 => 100.0,
        _ => 250.0,
    }
}

#[derive(Clone, Debug)]
struct C24Case {
    kind: String,
    max_q: usize,
    items: Vec<ItemSpec>,
    steps: Vec<St24>,
}

impl C24Case {
    fn to_json(&self, class: &str) -> Value {
        let steps: Vec<Value> = self
            .steps
            .iter()
            .map(|s| match s {
                St24::W { node, fresh } => json!(["w", node, fresh]),
                St24::T { ms } => json!(["t", ms]),
                St24::M { item, q, discard, si } => json!(["m", item, q, discard, si]),
                St24::P { extra } => json!(["p", extra]),
            })
            .collect();
        json!({
            "kind": self.kind,
            "max_q": self.max_q,
            "items": self.items.iter().map(|i| json!({"node": i.node, "q": i.q, "discard_oldest": i.discard, "si": i.si})).collect::<Vec<_>>(),
            "steps": steps,
            "legend": "w=[node,fresh value?] t=[ms sampling tick] m=[item,queue size,discard oldest,si code 0:-1 1:0 2:100ms 3:250ms] p=[publish, extra ms]; every history starts with an implicit publish of the initial values",
            "class": class,
        })
    }

    fn from_json(v: &Value) -> C24Case {
        let items = v["items"]
            .as_array()
            .map(|a| {
                a.iter()
                    .map(|i| ItemSpec {
                        node: ju64(&i["node"]) as usize % N_NODES,
                        q: ju64(&i["q"]) as u32,
                        discard: i["discard_oldest"].as_bool().unwrap_or(true),
                        si: ju64(&i["si"]) as u8,
                    })
                    .collect()
            })
            .unwrap_or_default();
        let steps = v["steps"]
            .as_array()
            .map(|a| {
                a.iter()
                    .filter_map(|s| match s[0].as_str()? {
                        "w" => Some(St24::W { node: ju64(&s[1]) as usize % N_NODES, fresh: s[2].as_bool().unwrap_or(true) }),
                        "t" => Some(St24::T { ms: ji64(&s[1]) }),
                        "m" => Some(St24::M {
                            item: ju64(&s[1]) as usize,
                            q: ju64(&s[2]) as u32,
                            discard: s[3].as_bool().unwrap_or(true),
                            si: ju64(&s[4]) as u8,
                        }),
                        "p" => Some(St24::P { extra: ji64(&s[1]) }),
                        _ => None,
                    })
                    .collect()
            })
            .unwrap_or_default();
        C24Case {
            kind: v["kind"].as_str().unwrap_or("replay").to_string(),
            max_q: ju64(&v["max_q"]) as usize,
            items,
            steps,
        }
    }
}

/// Reference model of one monitored item's queue
struct QModel {
    handle: u32,
    item_id: u32,
    node: usize,
    q: usize,
    discard: bool,
    /// revised sampling interval (ms); negative = sample when the publishing interval elapses
    si: f64,
    last_sample_ms: Option<i64>,
    queue: VecDeque<i64>,
    last: Option<i64>,
    /// an entry was discarded by overflow of a queue longer than one since the last drain
    ovf: bool,
    /// an entry of a one-element queue was replaced since the last drain (Part 4: no overflow bit then; not judged)
    ovf_q1: bool,
    /// a resize discarded entries since the last drain (whether that counts as overflow is not judged)
    shrunk: bool,
    /// what happened to this queue since the last drain, for signatures
    window: Vec<&'static str>,
}

impl QModel {
    fn note(&mut self, w: &'static str) {
        if !self.window.contains(&w) {
            self.window.push(w);
        }
    }

    fn enqueue(&mut self, v: i64) {
        if self.queue.len() >= self.q {
            if self.discard {
                self.queue.pop_front();
            } else {
                self.queue.pop_back();
            }
            if self.q > 1 {
                self.ovf = true;
                self.note("overflow");
            } else {
                self.ovf_q1 = true;
                self.note("replace-q1");
            }
        }
        self.queue.push_back(v);
    }

    /// One tick of the item at `now_ms`: returns (sampled, a new entry was queued)
    fn tick(&mut self, now_ms: i64, publish_elapsed: bool, cur: &[i64]) -> (bool, bool) {
        let sampled = if self.si < 0.0 {
            publish_elapsed
        } else if self.si == 0.0 {
            true
        } else {
            match self.last_sample_ms {
                None => true,
                Some(ls) => ((now_ms - ls) as i128) * 1000 >= ((self.si * 1000.0) as u64) as i128,
            }
        };
        if sampled {
            self.last_sample_ms = Some(now_ms);
            let v = cur[self.node];
            if self.last != Some(v) {
                self.last = Some(v);
                self.enqueue(v);
                return (true, true);
            }
        }
        (sampled, false)
    }

    fn resize(&mut self, q: usize, discard: bool) {
        let before = self.queue.len();
        if q < self.q {
            self.note(if before > 0 { "shrink-nonempty" } else { "shrink-empty" });
        } else if q > self.q {
            self.note(if before > 0 { "grow-nonempty" } else { "grow-empty" });
        }
        self.q = q;
        self.discard = discard;
        while self.queue.len() > self.q {
            self.queue.pop_front();
            self.shrunk = true;
            self.note("shrink-discards");
        }
    }
}

#[derive(Default)]
struct C24Stats {
    samples_enqueued: u64,
    drains: u64,
    entries_delivered: u64,
    entries_with_overflow_bit: u64,
    modify_calls: u64,
    shrink_nonempty: u64,
    grow_nonempty: u64,
    full_queue_observations: u64,
    ticks: u64,
    publish_requests: u64,
    modify_panics: u64,
    drains_deferred: u64,
}

fn policy_name(discard: bool) -> &'static str {
    if discard {
        "discard-oldest"
    } else {
        "replace-newest"
    }
}

/// Compare what one publish delivered with the model queues, then empty the models. false = stop the history.
fn c24_compare(
    rep: &mut Report,
    case: &Value,
    st: &mut C24Stats,
    models: &mut [QModel],
    due: &[bool],
    delivered: &[MonitoredItemNotification],
    step_no: usize,
) -> bool {
    let mut ok = true;
    for (mi, m) in models.iter_mut().enumerate() {
        let mine: Vec<&MonitoredItemNotification> = delivered.iter().filter(|n| n.client_handle == m.handle).collect();
        if !due[mi] {
            // not sampled at this publishing tick: the real item keeps its queue for the next interval
            if !mine.is_empty() {
                rep.inconclusive("C24: an item that was not due for sampling delivered notifications");
                ok = false;
            }
            st.drains_deferred += 1;
            continue;
        }
        let got: Vec<i64> = mine
            .iter()
            .map(|n| match n.value.value {
                Some(Variant::Int64(v)) => v,
                _ => i64::MIN,
            })
            .collect();
        let bits: Vec<bool> = mine.iter().map(|n| n.value.status().bits() & StatusCode::OVERFLOW.bits() != 0).collect();
        let want: Vec<i64> = m.queue.iter().cloned().collect();
        st.drains += 1;
        st.entries_delivered += got.len() as u64;
        st.entries_with_overflow_bit += bits.iter().filter(|b| **b).count() as u64;
        let window = if m.window.is_empty() {
            "plain".to_string()
        } else {
            let mut w = m.window.clone();
            w.sort();
            w.join("+")
        };
        if got != want {
            ok = false;
            let kind = if got.len() > m.q {
                "more-entries-than-queue-size"
            } else if got.windows(2).any(|w| w[0] >= w[1]) {
                "order-not-preserved"
            } else if got.len() < want.len() && want.ends_with(&got) {
                "recent-entries-kept-but-too-few"
            } else if got.len() != want.len() {
                "wrong-number-of-entries"
            } else {
                "wrong-survivors"
            };
            rep.violation(
                format!("queue-content|{}|policy={}|window={}", kind, policy_name(m.discard), window),
                format!(
                    "step {}: item handle {} (queue size {}, {}) delivered {:?}, the stated policy leaves {:?}",
                    step_no,
                    m.handle,
                    m.q,
                    policy_name(m.discard),
                    got,
                    want
                ),
                case.clone(),
            );
        } else {
            // overflow marking, only judged when the contents agree
            let any_bit = bits.iter().any(|b| *b);
            if m.ovf && !m.shrunk && !any_bit {
                ok = false;
                rep.violation(
                    format!("overflow-bit-missing|policy={}|window={}", policy_name(m.discard), window),
                    format!(
                        "step {}: item handle {} (queue size {}) overflowed since the last publish but none of the delivered {:?} carries the Overflow info bit",
                        step_no, m.handle, m.q, got
                    ),
                    case.clone(),
                );
            }
            if any_bit && !m.ovf && !m.ovf_q1 && !m.shrunk {
                ok = false;
                rep.violation(
                    format!("overflow-bit-spurious|policy={}|window={}", policy_name(m.discard), window),
                    format!(
                        "step {}: item handle {} (queue size {}) never discarded anything since the last publish, yet delivered {:?} with overflow bits {:?}",
                        step_no, m.handle, m.q, got, bits
                    ),
                    case.clone(),
                );
            }
        }
        m.queue.clear();
        m.ovf = false;
        m.ovf_q1 = false;
        m.shrunk = false;
        m.window.clear();
    }
    // notifications for handles we do not know
    if delivered.iter().any(|n| !models.iter().any(|m| m.handle == n.client_handle)) {
        rep.inconclusive("C24: notification for an unknown client handle");
        ok = false;
    }
    ok
}

fn c24_class(c: &C24Case, seen: &[&'static str]) -> String {
    let mut qs: Vec<String> = c.items.iter().map(|i| format!("{}{}s{}", i.q.min(99), if i.discard { "o" } else { "n" }, i.si)).collect();
    qs.sort();
    let mut seen: Vec<&str> = seen.to_vec();
    seen.sort();
    seen.dedup();
    format!("{} items[{}] seen[{}]", c.kind, qs.join(","), seen.join(","))
}

fn c24_run(env: &Env, c: &C24Case, rep: &mut Report, st: &mut C24Stats) {
    let mut limits = DEFAULT_LIMITS;
    limits.max_q = c.max_q;
    env.apply_limits(&limits);
    let pre_case = c.to_json("?");
    rep.begin_case(&pre_case);
    let mut seen: Vec<&'static str> = Vec::new();
    let outcome = catch(|| c24_history(env, c, rep, st, &mut seen));
    let class = c24_class(c, &seen);
    rep.case(&class);
    let case = c.to_json(&class);
    rep.sample(case.clone());
    match outcome {
        Ok(()) => {}
        Err(p) => {
            // a panic outside ModifyMonitoredItems (those are caught at the call)
            rep.violation(format!("history|{}", p.signature()), format!("{} at {}:{}", p.msg, p.file, p.line), case);
        }
    }
}

fn c24_history(env: &Env, c: &C24Case, rep: &mut Report, st: &mut C24Stats, seen: &mut Vec<&'static str>) {
    let case = c.to_json("?");
    let mut drv = Drv::new(env);
    // current values of the variables: unique, increasing
    let mut cur: Vec<i64> = (0..N_NODES).map(|n| 1000 * (n as i64 + 1)).collect();
    {
        let mut a = env.aspace.write();
        for n in 0..N_NODES {
            let ts = DateTime::from(env.at(0));
            a.set_variable_value(env.nodes[n].clone(), Variant::Int64(cur[n]), &ts, &ts);
        }
    }
    match drv.create_subscription(C24_PI_MS as f64, 90_000, 1000) {
        Ok(r) => {
            if r.revised_publishing_interval != C24_PI_MS as f64 {
                rep.inconclusive("C24: publishing interval was revised, the history timing would be off");
                return;
            }
        }
        Err(e) => {
            rep.inconclusive(format!("C24: CreateSubscription failed: {}", e));
            return;
        }
    }
    // first timer tick: Creating -> Normal
    if drv.timer_tick().is_err() {
        rep.inconclusive("C24: first tick failed");
        return;
    }
    let reqs: Vec<MonitoredItemCreateRequest> = c
        .items
        .iter()
        .enumerate()
        .map(|(i, it)| create_req(&env.nodes[it.node], 10 + i as u32, si_value(it.si), it.q, it.discard, ExtensionObject::null()))
        .collect();
    let results = match drv.create_items(reqs) {
        Ok(r) => r,
        Err(e) => {
            rep.inconclusive(format!("C24: CreateMonitoredItems failed: {}", e));
            return;
        }
    };
    let mut models: Vec<QModel> = Vec::new();
    for (i, (it, r)) in c.items.iter().zip(results.iter()).enumerate() {
        if !r.status_code.is_good() || r.revised_queue_size < 1 || r.revised_sampling_interval.is_nan() {
            rep.inconclusive(format!("C24: item not created as expected: {:?}", r));
            return;
        }
        models.push(QModel {
            handle: 10 + i as u32,
            item_id: r.monitored_item_id,
            node: it.node,
            q: r.revised_queue_size as usize,
            discard: it.discard,
            si: r.revised_sampling_interval,
            last_sample_ms: None,
            queue: VecDeque::new(),
            last: None,
            ovf: false,
            ovf_q1: false,
            shrunk: false,
            window: Vec::new(),
        });
    }
    let mut last_pub_ms: Option<i64> = None;
    let mut steps: Vec<St24> = vec![St24::P { extra: 0 }];
    steps.extend(c.steps.iter().cloned());
    for (step_no, step) in steps.iter().enumerate() {
        match step {
            St24::W { node, fresh } => {
                if *fresh {
                    cur[*node] += 1;
                }
                let ts = DateTime::from(env.at(drv.now_ms));
                let mut a = env.aspace.write();
                a.set_variable_value(env.nodes[*node].clone(), Variant::Int64(cur[*node]), &ts, &ts);
            }
            St24::T { ms } => {
                // a negative value means "that many ms before the publishing interval ends"
                let ms = if *ms < 0 {
                    match last_pub_ms {
                        Some(lp) => lp + C24_PI_MS + *ms - drv.now_ms,
                        None => continue,
                    }
                } else {
                    (*ms).max(1)
                };
                if ms <= 0 {
                    continue;
                }
                // never cross the publishing interval with a sampling tick
                if let Some(lp) = last_pub_ms {
                    if drv.now_ms + ms - lp >= C24_PI_MS {
                        continue;
                    }
                }
                drv.now_ms += ms;
                for m in models.iter_mut() {
                    if m.tick(drv.now_ms, false, &cur).1 {
                        st.samples_enqueued += 1;
                    }
                    if m.queue.len() == m.q {
                        st.full_queue_observations += 1;
                    }
                }
                st.ticks += 1;
                match drv.timer_tick() {
                    Ok(resps) => {
                        let d = data_items(&resps);
                        if !d.is_empty() {
                            rep.inconclusive("C24: data was published by a tick inside the publishing interval");
                            return;
                        }
                    }
                    Err(e) => {
                        rep.inconclusive(format!("C24: tick failed: {}", e));
                        return;
                    }
                }
            }
            St24::M { item, q, discard, si } => {
                if models.is_empty() {
                    continue;
                }
                let idx = *item % models.len();
                let (item_id, handle) = (models[idx].item_id, models[idx].handle);
                let before = models[idx].queue.len();
                st.modify_calls += 1;
                let req = modify_req(item_id, handle, si_value(*si), *q, *discard, ExtensionObject::null());
                let r = catch(|| drv.modify_items(vec![req]));
                let fill_state = if before == 0 {
                    "empty"
                } else if before == models[idx].q {
                    "full"
                } else {
                    "partly-filled"
                };
                // the size the request should be revised to (0 -> 1, capped by the server maximum)
                let eff = (*q as usize).max(1).min(c.max_q.max(1));
                let shape = if eff < before { "new-size-below-queued-entries" } else { "new-size-holds-queued-entries" };
                match r {
                    Err(p) => {
                        st.modify_panics += 1;
                        seen.push("modify-panic");
                        rep.violation(
                            format!("ModifyMonitoredItems|{}|{}", p.signature(), shape),
                            format!(
                                "step {}: ModifyMonitoredItems(queue size {} -> {}, queue {} with {} entries) panicked: {} at {}:{}",
                                step_no, models[idx].q, q, fill_state, before, p.msg, p.file, p.line
                            ),
                            case.clone(),
                        );
                        return;
                    }
                    Ok(Err(e)) => {
                        rep.violation(
                            format!("ModifyMonitoredItems|service-fault|{}", e),
                            format!("step {}: ModifyMonitoredItems answered with a service fault {}", step_no, e),
                            case.clone(),
                        );
                        return;
                    }
                    Ok(Ok(results)) => {
                        let res = match results.first() {
                            Some(r) => r.clone(),
                            None => {
                                rep.violation("ModifyMonitoredItems|no-result".to_string(), format!("step {}: empty results", step_no), case.clone());
                                return;
                            }
                        };
                        if !res.status_code.is_good() {
                            rep.violation(
                                format!("ModifyMonitoredItems|unexpected-status|{}", res.status_code),
                                format!("step {}: modify of an existing item with a null filter failed with {}", step_no, res.status_code),
                                case.clone(),
                            );
                            return;
                        }
                        if res.revised_queue_size < 1 || res.revised_sampling_interval.is_nan() {
                            rep.inconclusive("C24: modify revised to an unusable value (C23 territory)");
                            return;
                        }
                        let newq = res.revised_queue_size as usize;
                        if newq < models[idx].q && before > 0 {
                            st.shrink_nonempty += 1;
                        }
                        if newq > models[idx].q && before > 0 {
                            st.grow_nonempty += 1;
                        }
                        models[idx].resize(newq, *discard);
                        models[idx].si = res.revised_sampling_interval;
                        for w in models[idx].window.clone() {
                            seen.push(w);
                        }
                    }
                }
            }
            St24::P { extra } => {
                match drv.ensure_publish_request() {
                    Ok(true) => {
                        // the server ticked once with reason ReceivePublishRequest at the current time
                        st.publish_requests += 1;
                        for m in models.iter_mut() {
                            if m.tick(drv.now_ms, false, &cur).1 {
                                st.samples_enqueued += 1;
                            }
                        }
                        let d = data_items(&drv.take_responses());
                        if !d.is_empty() {
                            rep.inconclusive("C24: data was published on receipt of a publish request");
                            return;
                        }
                    }
                    Ok(false) => {}
                    Err(e) => {
                        rep.inconclusive(format!("C24: publish request refused: {}", e));
                        return;
                    }
                }
                let target = match last_pub_ms {
                    None => drv.now_ms + 1000,
                    Some(lp) => (lp + C24_PI_MS + extra.max(&0)).max(drv.now_ms + 1),
                };
                drv.now_ms = target;
                last_pub_ms = Some(target);
                // the real item hands its queue over only when it is itself due for sampling at this tick
                let mut due: Vec<bool> = Vec::new();
                for m in models.iter_mut() {
                    let (sampled, queued) = m.tick(drv.now_ms, true, &cur);
                    due.push(sampled);
                    if queued {
                        st.samples_enqueued += 1;
                    }
                    if m.queue.len() == m.q {
                        st.full_queue_observations += 1;
                    }
                    for w in m.window.clone() {
                        seen.push(w);
                    }
                }
                st.ticks += 1;
                let resps = match drv.timer_tick() {
                    Ok(r) => r,
                    Err(e) => {
                        rep.inconclusive(format!("C24: publish tick failed: {}", e));
                        return;
                    }
                };
                if has_status_change(&resps) {
                    rep.inconclusive("C24: subscription expired during the history");
                    return;
                }
                let d = data_items(&resps);
                if !c24_compare(rep, &case, st, &mut models, &due, &d, step_no) {
                    return;
                }
            }
        }
    }
    drv.delete_subscription();
}

fn c24_grid() -> Vec<C24Case> {
    let mut out = Vec::new();
    for q in 1..=10u32 {
        for fill in 0..=(q + 2) {
            for discard in [true, false] {
                for newq in 1..=10u32 {
                    for newdiscard in [true, false] {
                        for later in 0..=2u32 {
                            // keep the grid affordable: vary the later samples only where it matters most
                            if later > 0 && newdiscard != discard && (q + newq) % 2 == 0 {
                                continue;
                            }
                            let mut steps = Vec::new();
                            for _ in 0..fill {
                                steps.push(St24::W { node: 0, fresh: true });
                                steps.push(St24::T { ms: 100 });
                            }
                            steps.push(St24::M { item: 0, q: newq, discard: newdiscard, si: 1 });
                            for _ in 0..later {
                                steps.push(St24::W { node: 0, fresh: true });
                                steps.push(St24::T { ms: 100 });
                            }
                            steps.push(St24::P { extra: 0 });
                            out.push(C24Case {
                                kind: "grid".into(),
                                max_q: 10,
                                items: vec![ItemSpec { node: 0, q, discard, si: 1 }],
                                steps,
                            });
                        }
                    }
                }
            }
        }
    }
    out
}

fn c24_random(rng: &mut Rng, thorough: bool) -> C24Case {
    let max_q = if rng.chance(1, 5) { *rng.pick(&[1usize, 2, 3, 64]) } else { 10 };
    let n_items = 1 + rng.usize(3);
    let qpick = |rng: &mut Rng| -> u32 {
        match rng.below(10) {
            0 => 0,
            1 => *rng.pick(&[11u32, 50, 1000, u32::MAX]),
            _ => 1 + rng.below(10) as u32,
        }
    };
    let sipick = |rng: &mut Rng| -> u8 {
        match rng.below(10) {
            0 => 0,
            1 => 3,
            2 => 2,
            _ => 1,
        }
    };
    let items: Vec<ItemSpec> = (0..n_items).map(|i| ItemSpec { node: i, q: qpick(rng), discard: rng.bool(), si: sipick(rng) }).collect();
    let n_steps = if thorough { 30 + rng.usize(200) } else { 20 + rng.usize(90) };
    let mut steps = Vec::new();
    while steps.len() < n_steps {
        match rng.below(100) {
            0..=54 => {
                // a burst of write+tick pairs
                let burst = 1 + rng.usize(6);
                for _ in 0..burst {
                    steps.push(St24::W { node: rng.usize(n_items), fresh: !rng.chance(1, 8) });
                    steps.push(St24::T { ms: *rng.pick(&[100i64, 100, 100, 150, 250, 1000]) });
                }
            }
            55..=62 => steps.push(St24::T { ms: *rng.pick(&[1i64, 50, 100, 300]) }),
            63..=67 => steps.push(St24::W { node: rng.usize(n_items), fresh: true }),
            68..=84 => steps.push(St24::M { item: rng.usize(n_items), q: qpick(rng), discard: rng.bool(), si: sipick(rng) }),
            _ => {
                if rng.chance(1, 4) {
                    // sample just before the interval ends: items sampled then are not due again at the publish tick
                    // and keep their queue for the next interval
                    steps.push(St24::W { node: rng.usize(n_items), fresh: true });
                    steps.push(St24::T { ms: -(1 + rng.below(120) as i64) });
                }
                steps.push(St24::P { extra: rng.below(500) as i64 })
            }
        }
    }
    steps.push(St24::P { extra: 0 });
    C24Case { kind: "random".into(), max_q, items, steps }
}

pub fn c24(args: &Args, rep: &mut Report) {
    let env = Env::new("c24");
    let mut st = C24Stats::default();
    if let Some(path) = &args.replay {
        match load_replay(path) {
            Some(v) => {
                let c = C24Case::from_json(&v);
                c24_run(&env, &c, rep, &mut st);
            }
            None => rep.inconclusive("replay file unreadable"),
        }
        env.apply_limits(&DEFAULT_LIMITS);
        return;
    }
    for (i, c) in c24_grid().iter().enumerate() {
        if i % args.shards != args.shard {
            continue;
        }
        c24_run(&env, c, rep, &mut st);
    }
    let mut rng = Rng::new(args.seed ^ 0xC24 ^ ((args.shard as u64) << 32));
    let n = args.budget(6_000, 120_000);
    for _ in 0..n {
        let c = c24_random(&mut rng, args.thorough());
        c24_run(&env, &c, rep, &mut st);
    }
    env.apply_limits(&DEFAULT_LIMITS);
    rep.count("samples_enqueued_in_model", st.samples_enqueued);
    rep.count("drains_compared", st.drains);
    rep.count("entries_delivered", st.entries_delivered);
    rep.count("entries_with_overflow_bit", st.entries_with_overflow_bit);
    rep.count("modify_calls", st.modify_calls);
    rep.count("modify_shrinking_nonempty_queue", st.shrink_nonempty);
    rep.count("modify_growing_nonempty_queue", st.grow_nonempty);
    rep.count("modify_panics", st.modify_panics);
    rep.count("drains_deferred_item_not_due", st.drains_deferred);
    rep.count("timer_ticks", st.ticks);
    rep.count("publish_requests", st.publish_requests);
    rep.count("ticks_with_a_full_model_queue", st.full_queue_observations);
    if st.drains == 0 {
        rep.inconclusive("no publish was compared");
    }
}

// ------------------------------------------------------------------------------------------------
// C25 data change filters
// ------------------------------------------------------------------------------------------------

#[derive(Clone, Debug, PartialEq)]
struct Samp {
    val: Option<Variant>,
    status: Option<StatusCode>,
    src_ms: i64,
    srv_ms: i64,
}

#[derive(Clone, Copy, Debug)]
struct FilterSpec {
    /// 0 Status, 1 StatusValue, 2 StatusValueTimestamp
    trigger: u8,
    db_type: u32,
    db_value: f64,
}

impl FilterSpec {
    fn to_filter(&self) -> DataChangeFilter {
        DataChangeFilter {
            trigger: match self.trigger {
                0 => DataChangeTrigger::Status,
                1 => DataChangeTrigger::StatusValue,
                _ => DataChangeTrigger::StatusValueTimestamp,
            },
            deadband_type: self.db_type,
            deadband_value: self.db_value,
        }
    }
    fn to_ext(&self) -> ExtensionObject {
        ExtensionObject::from_encodable(ObjectId::DataChangeFilter_Encoding_DefaultBinary, &self.to_filter())
    }
    fn trigger_name(&self) -> &'static str {
        match self.trigger {
            0 => "Status",
            1 => "StatusValue",
            _ => "StatusValueTimestamp",
        }
    }
    /// Absolute deadband with a usable value (>= 0, not NaN; +inf allowed)
    fn abs_valid(&self) -> bool {
        self.db_type == 1 && self.db_value >= 0.0
    }
    fn db_class(&self) -> String {
        let t = match self.db_type {
            0 => return "none".into(),
            1 => "absolute",
            2 => "percent",
            _ => "unknown-type",
        };
        let d = self.db_value;
        let v = if d.is_nan() {
            "NaN"
        } else if d == f64::INFINITY {
            "+inf"
        } else if d == f64::NEG_INFINITY {
            "-inf"
        } else if d == 0.0 {
            "zero"
        } else if d < 0.0 {
            "negative"
        } else if d < f64::MIN_POSITIVE {
            "subnormal"
        } else if d >= 1e300 {
            "huge"
        } else {
            "positive"
        };
        format!("{}:{}", t, v)
    }
    /// Deadband description for signatures: the type and, for absolute, whether the value is usable
    fn db_coarse(&self) -> &'static str {
        match self.db_type {
            0 => "none",
            1 => {
                if self.db_value.is_nan() {
                    "absolute:NaN"
                } else if self.db_value < 0.0 {
                    "absolute:negative"
                } else {
                    "absolute"
                }
            }
            2 => "percent",
            _ => "unknown-type",
        }
    }
    fn to_json(&self) -> Value {
        json!({"trigger": self.trigger_name(), "deadband_type": self.db_type, "deadband_value": jf(self.db_value)})
    }
}

fn c25_filters() -> Vec<FilterSpec> {
    let mut v = Vec::new();
    for trigger in 0..3u8 {
        v.push(FilterSpec { trigger, db_type: 0, db_value: 0.0 });
        v.push(FilterSpec { trigger, db_type: 0, db_value: 5.0 });
        for d in [0.0, 0.5, 1.0, 2.0, 10.0, 1e-9, 1e300, f64::INFINITY, -1.0, -0.0, f64::NAN, f64::NEG_INFINITY, 5e-324] {
            v.push(FilterSpec { trigger, db_type: 1, db_value: d });
        }
        for d in [0.0, 1.0, 10.0, 100.0, 150.0, -1.0, f64::NAN] {
            v.push(FilterSpec { trigger, db_type: 2, db_value: d });
        }
        v.push(FilterSpec { trigger, db_type: 3, db_value: 1.0 });
        v.push(FilterSpec { trigger, db_type: 7, db_value: 0.0 });
        v.push(FilterSpec { trigger, db_type: u32::MAX, db_value: 2.0 });
    }
    v
}

const FAMILIES: [&str; 11] = ["Double", "Float", "Int32", "Int64", "UInt64", "Byte", "String", "Boolean", "ByteString", "DoubleArray", "Mixed"];
const STRINGS: [&str; 5] = ["", "a", "b", "abc", "10"];

fn status_pool() -> Vec<StatusCode> {
    vec![
        StatusCode::Good,
        StatusCode::GoodClamped,
        StatusCode::UncertainInitialValue,
        StatusCode::UncertainLastUsableValue,
        StatusCode::BadSensorFailure,
        StatusCode::BadNoCommunication,
    ]
}

#[derive(Clone, Debug)]
enum Op25 {
    Sample(Samp, &'static str),
    ModFilter(FilterSpec),
}

#[derive(Clone, Debug)]
struct C25Case {
    case_seed: u64,
    filter_idx: usize,
    filter: FilterSpec,
    family: usize,
    getter: bool,
    si_neg: bool,
    q: u32,
    /// timestamps to return asked for by the client: 0 Both, 1 Source, 2 Server, 3 Neither
    ts: u8,
    ops: Vec<Op25>,
}

const TS25: [(TimestampsToReturn, &str); 4] = [
    (TimestampsToReturn::Both, "Both"),
    (TimestampsToReturn::Source, "Source"),
    (TimestampsToReturn::Server, "Server"),
    (TimestampsToReturn::Neither, "Neither"),
];

fn make_value(family: usize, x: f64, big: bool, kind: u64) -> Variant {
    let xi = if x.is_nan() { 0i64 } else { x.round().max(-9e15).min(9e15) as i64 };
    match family {
        0 => Variant::Double(x),
        1 => Variant::Float(x as f32),
        2 => Variant::Int32(xi.max(i32::MIN as i64).min(i32::MAX as i64) as i32),
        3 => Variant::Int64(if big { (i64::MAX - 4_000_000).saturating_add(xi.max(-2_000_000).min(2_000_000)) } else { xi }),
        4 => Variant::UInt64(if big {
            (u64::MAX - 4_000_000).wrapping_add(xi.max(-2_000_000).min(2_000_000) as u64)
        } else {
            xi.max(0) as u64
        }),
        5 => Variant::Byte(xi.rem_euclid(256) as u8),
        6 => Variant::String(UAString::from(STRINGS[xi.rem_euclid(STRINGS.len() as i64) as usize])),
        7 => Variant::Boolean(xi.rem_euclid(2) == 0),
        8 => Variant::ByteString(ByteString::from(STRINGS[xi.rem_euclid(STRINGS.len() as i64) as usize].as_bytes())),
        9 => Variant::from(vec![x, 1.0, 2.0]),
        _ => match kind % 4 {
            0 => Variant::Double(x),
            1 => Variant::Int32(xi.max(i32::MIN as i64).min(i32::MAX as i64) as i32),
            2 => Variant::String(UAString::from(STRINGS[xi.rem_euclid(STRINGS.len() as i64) as usize])),
            _ => Variant::Empty,
        },
    }
}

fn c25_gen(case_seed: u64, filter_idx: usize, thorough: bool) -> C25Case {
    let mut rng = Rng::new(case_seed ^ 0x25_25);
    let filters = c25_filters();
    let filter = filters[filter_idx % filters.len()];
    let family = match rng.below(10) {
        0..=2 => 0,
        3 => 2,
        _ => rng.usize(FAMILIES.len()),
    };
    let getter = rng.chance(1, 4);
    let si_neg = rng.bool();
    let q = 1 + rng.below(4) as u32;
    let big = rng.chance(1, 3);
    let n = if thorough { 30 + rng.usize(70) } else { 20 + rng.usize(40) };
    let statuses = status_pool();
    let mut cur_filter = filter;
    let mut x: f64 = (rng.range(-40, 40) as f64) * 0.25;
    let mut kind: u64 = rng.below(4);
    let mut cur = Samp { val: Some(make_value(family, x, big, kind)), status: Some(StatusCode::Good), src_ms: 0, srv_ms: 0 };
    let mut ops = vec![Op25::Sample(cur.clone(), "initial")];
    let mut drift_dir = 1.0;
    while ops.len() < n {
        let d_eff = if cur_filter.abs_valid() && cur_filter.db_value.is_finite() && cur_filter.db_value > 0.0 { cur_filter.db_value } else { 1.0 };
        let sign = if rng.bool() { 1.0 } else { -1.0 };
        let mut name: &'static str = "same";
        let mut set_val = false;
        match rng.below(100) {
            0..=11 => {}
            12..=21 => {
                x += sign * d_eff * 0.5;
                set_val = true;
                name = "value-within";
            }
            22..=31 => {
                x += sign * d_eff;
                set_val = true;
                name = "value-at";
            }
            32..=41 => {
                x += sign * (d_eff + if family >= 2 && family <= 5 { 1.0 } else { 0.25 });
                set_val = true;
                name = "value-just-beyond";
            }
            42..=47 => {
                x += sign * (1000.0 + d_eff * 3.0);
                set_val = true;
                name = "value-far";
            }
            48..=57 => {
                if rng.chance(1, 6) {
                    drift_dir = -drift_dir;
                }
                x += drift_dir * d_eff * 0.75;
                set_val = true;
                name = "value-drift";
            }
            58..=65 => {
                let mut s = *rng.pick(&statuses);
                if Some(s) == cur.status {
                    s = statuses[(statuses.iter().position(|t| *t == s).unwrap_or(0) + 1) % statuses.len()];
                }
                cur.status = Some(s);
                name = "status-change";
            }
            66..=70 => {
                let k = 1 + rng.below(1000) as i64;
                cur.src_ms += k;
                cur.srv_ms += k;
                name = "timestamps-both";
            }
            71..=73 => {
                cur.src_ms += 1 + rng.below(1000) as i64;
                name = "timestamp-source-only";
            }
            74..=76 => {
                cur.srv_ms += 1 + rng.below(1000) as i64;
                name = "timestamp-server-only";
            }
            77..=84 => {
                x += sign * (d_eff * 2.0 + 1.0);
                let k = 1 + rng.below(1000) as i64;
                cur.src_ms += k;
                cur.srv_ms += k;
                set_val = true;
                name = "update-value-and-timestamps";
            }
            85..=87 => {
                x += sign * d_eff * 0.25;
                let mut s = *rng.pick(&statuses);
                if Some(s) == cur.status {
                    s = statuses[(statuses.iter().position(|t| *t == s).unwrap_or(0) + 1) % statuses.len()];
                }
                cur.status = Some(s);
                set_val = true;
                name = "status-and-small-value";
            }
            88..=90 => {
                if getter {
                    if rng.bool() {
                        cur.val = None;
                        name = "value-absent";
                    } else {
                        cur.status = if cur.status.is_none() { Some(StatusCode::Good) } else { None };
                        name = "status-absent-toggle";
                    }
                }
            }
            91..=93 => {
                x = *rng.pick(&[0.0, 1e308, -1e308, f64::MAX, f64::NAN, f64::INFINITY, f64::NEG_INFINITY, 5e-324, 1e15, -1e15]);
                set_val = true;
                name = "value-extreme";
            }
            94..=96 => {
                kind = rng.below(4);
                set_val = true;
                name = "kind-switch";
            }
            _ => {
                // filter modify, rarely
                if rng.chance(1, 3) {
                    let nf = filters[rng.usize(filters.len())];
                    cur_filter = nf;
                    ops.push(Op25::ModFilter(nf));
                }
                continue;
            }
        }
        if set_val {
            if !x.is_nan() && x.abs() > 1e15 && family != 0 && family != 1 && family != 9 && family != 10 {
                x = 0.0;
            }
            cur.val = Some(make_value(family, x, big, kind));
            if x.is_nan() || x.is_infinite() || x.abs() >= 1e300 {
                // come back to ordinary values afterwards
                x = 0.0;
            }
        }
        ops.push(Op25::Sample(cur.clone(), name));
    }
    // what the client wants returned must not influence what counts as a change (drawn last: the histories of
    // a given case seed are the same for every choice)
    let ts = if rng.chance(1, 2) { 0 } else { 1 + rng.below(3) as u8 };
    C25Case { case_seed, filter_idx, filter, family, getter, si_neg, q, ts, ops }
}

#[derive(Clone, Copy, Debug, PartialEq)]
enum Exp {
    Must,
    MustNot,
    Either,
}

fn has_nan(v: &Variant) -> bool {
    match v {
        Variant::Double(d) => d.is_nan(),
        Variant::Float(f) => f.is_nan(),
        Variant::Array(a) => a.values.iter().any(has_nan),
        _ => false,
    }
}

enum Num {
    I(i128),
    F(f64),
}

fn num_of(v: &Variant) -> Option<Num> {
    Some(match v {
        Variant::SByte(x) => Num::I(*x as i128),
        Variant::Byte(x) => Num::I(*x as i128),
        Variant::Int16(x) => Num::I(*x as i128),
        Variant::UInt16(x) => Num::I(*x as i128),
        Variant::Int32(x) => Num::I(*x as i128),
        Variant::UInt32(x) => Num::I(*x as i128),
        Variant::Int64(x) => Num::I(*x as i128),
        Variant::UInt64(x) => Num::I(*x as i128),
        Variant::Float(x) => Num::F(*x as f64),
        Variant::Double(x) => Num::F(*x),
        _ => return None,
    })
}

fn same_variant_type(a: &Variant, b: &Variant) -> bool {
    std::mem::discriminant(a) == std::mem::discriminant(b)
}

/// How the value part of a sample relates to the last reported one under the filter
fn value_rel(f: &FilterSpec, a: &Option<Variant>, b: &Option<Variant>) -> (Exp, &'static str) {
    let (a, b) = match (a, b) {
        (None, None) => return (Exp::MustNot, "both-absent"),
        (Some(_), None) | (None, Some(_)) => return (Exp::Must, "presence-changed"),
        (Some(a), Some(b)) => (a, b),
    };
    let nan = has_nan(a) || has_nan(b);
    if f.db_type == 0 {
        if nan {
            return (Exp::Either, "nan");
        }
        return if a == b { (Exp::MustNot, "equal") } else { (Exp::Must, "differs") };
    }
    if !f.abs_valid() {
        // percent (no EURange anywhere), unknown deadband type, negative / NaN deadband value: semantics undefined,
        // except that an identical value is not a change
        if nan {
            return (Exp::Either, "nan");
        }
        let numeric = num_of(a).is_some() && num_of(b).is_some();
        return if a == b {
            (Exp::MustNot, if numeric { "unchanged-numeric" } else { "nonnumeric-unchanged" })
        } else {
            (Exp::Either, "differs-under-undefined-deadband")
        };
    }
    let d = f.db_value;
    match (num_of(a), num_of(b)) {
        (Some(na), Some(nb)) => {
            let fa = match na {
                Num::I(i) => i as f64,
                Num::F(x) => x,
            };
            let fb = match nb {
                Num::I(i) => i as f64,
                Num::F(x) => x,
            };
            let diff = (fa - fb).abs();
            if nan || diff.is_nan() {
                return (Exp::Either, "nan");
            }
            let r1 = diff > d;
            if let (Num::I(ia), Num::I(ib)) = (&na, &nb) {
                let de = (ia - ib).abs();
                let r2 = if d.is_infinite() || d >= 1e38 { false } else { de > d.floor() as i128 };
                if r1 != r2 {
                    return (Exp::Either, "integer-precision");
                }
            }
            if r1 {
                (Exp::Must, "beyond-deadband")
            } else if !same_variant_type(a, b) {
                (Exp::Either, "type-changed-within-deadband")
            } else if diff == d && d > 0.0 {
                (Exp::MustNot, "exactly-at-deadband")
            } else if diff == 0.0 {
                (Exp::MustNot, "numeric-unchanged")
            } else {
                (Exp::MustNot, "within-deadband")
            }
        }
        _ => {
            // no numeric value to apply the deadband to (or an array): plain difference decides, except that
            // Part 4 applies the deadband per element to numeric arrays, which we leave open
            if nan {
                return (Exp::Either, "nan");
            }
            if a == b {
                (Exp::MustNot, "nonnumeric-unchanged")
            } else if matches!(a, Variant::Array(_)) && matches!(b, Variant::Array(_)) {
                (Exp::Either, "array-differs")
            } else {
                (Exp::Must, "nonnumeric-differs")
            }
        }
    }
}

/// Reference predicate: must the sample `s` be reported given the last reported sample `l`?
fn expect_report(f: &FilterSpec, s: &Samp, l: &Samp) -> (Exp, String) {
    let good = StatusCode::Good;
    let st = if s.status == l.status {
        "same"
    } else if s.status.unwrap_or(good) == l.status.unwrap_or(good) {
        "absent-vs-good"
    } else {
        "differs"
    };
    let ts = match (s.src_ms != l.src_ms, s.srv_ms != l.srv_ms) {
        (false, false) => "none",
        (true, true) => "both",
        (true, false) => "source-only",
        (false, true) => "server-only",
    };
    let (vexp, vname) = value_rel(f, &s.val, &l.val);
    let class = format!("status={},value={},timestamps={}", st, vname, ts);
    if st == "differs" {
        return (Exp::Must, class);
    }
    let base = if st == "same" { Exp::MustNot } else { Exp::Either };
    let or = |a: Exp, b: Exp| -> Exp {
        if a == Exp::Must || b == Exp::Must {
            Exp::Must
        } else if a == Exp::Either || b == Exp::Either {
            Exp::Either
        } else {
            Exp::MustNot
        }
    };
    let e = match f.trigger {
        0 => base,
        1 => or(base, vexp),
        _ => {
            let t = match ts {
                "none" => Exp::MustNot,
                // both timestamps moved: a timestamp change under either reading - unless a deadband is set, where
                // Part 4 gives this trigger the StatusValue behaviour and the literal reading says report
                "both" => {
                    if f.db_type == 0 {
                        Exp::Must
                    } else {
                        Exp::Either
                    }
                }
                // only one moved: Part 4 means the source timestamp, the code compares the server timestamp
                _ => Exp::Either,
            };
            or(or(base, vexp), t)
        }
    };
    (e, class)
}

#[derive(Default)]
struct C25Stats {
    filters_accepted: u64,
    filters_rejected: u64,
    samples: u64,
    reports: u64,
    must: u64,
    must_not: u64,
    either: u64,
    can_report_phases: u64,
    modify_filter: u64,
    ticks: u64,
}

fn apply_sample(env: &Env, getter: bool, s: &Samp) {
    let src = DateTime::from(env.at(s.src_ms));
    let srv = DateTime::from(env.at(s.srv_ms));
    if getter {
        let mut c = env.getter_cell.lock().unwrap();
        *c = DataValue {
            value: s.val.clone(),
            status: s.status,
            source_timestamp: Some(src),
            source_picoseconds: None,
            server_timestamp: Some(srv),
            server_picoseconds: None,
        };
    } else {
        let mut a = env.aspace.write();
        if let Some(v) = a.find_variable_mut(env.nodes[0].clone()) {
            let _ = v.set_value_direct(s.val.clone().unwrap_or(Variant::Empty), s.status.unwrap_or(StatusCode::Good), &srv, &src);
        }
    }
}

fn samp_text(s: &Samp) -> String {
    format!("{{value: {:?}, status: {:?}, source_ts: +{}ms, server_ts: +{}ms}}", s.val, s.status, s.src_ms, s.srv_ms)
}

fn c25_case_json(c: &C25Case, thorough: bool, class: &str) -> Value {
    let trace: Vec<String> = c
        .ops
        .iter()
        .take(12)
        .map(|o| match o {
            Op25::Sample(s, n) => format!("{}: {}", n, samp_text(s)),
            Op25::ModFilter(f) => format!("modify filter -> {:?}", f),
        })
        .collect();
    json!({
        "case_seed": c.case_seed.to_string(),
        "filter_idx": c.filter_idx,
        "thorough": thorough,
        "filter": c.filter.to_json(),
        "family": FAMILIES[c.family],
        "variable": if c.getter { "getter-callback" } else { "stored-value" },
        "sampling": if c.si_neg { "-1 (publishing interval)" } else { "0 (-> minimum)" },
        "queue_size": c.q,
        "timestamps_to_return": TS25[c.ts as usize % 4].1,
        "first_ops": trace,
        "class": class,
    })
}

/// Drives one sample through the real subscription. Ok(reported notifications for our handle)
fn c25_step(drv: &mut Drv, env: &Env, getter: bool, s: &Samp, handle: u32, st: &mut C25Stats) -> Result<Vec<MonitoredItemNotification>, String> {
    match drv.ensure_publish_request() {
        Ok(true) => {
            let d = data_items(&drv.take_responses());
            if !d.is_empty() {
                return Err("data published on receipt of a publish request".into());
            }
        }
        Ok(false) => {}
        Err(e) => return Err(format!("publish request refused: {}", e)),
    }
    apply_sample(env, getter, s);
    drv.now_ms += 100;
    st.ticks += 1;
    let resps = drv.timer_tick().map_err(|e| format!("tick failed: {}", e))?;
    if has_status_change(&resps) {
        return Err("subscription expired".into());
    }
    Ok(data_items(&resps).into_iter().filter(|n| n.client_handle == handle).collect())
}

fn values_match(sample: &Option<Variant>, got: &Option<Variant>) -> bool {
    let norm = |v: &Option<Variant>| -> Option<Variant> {
        match v {
            Some(Variant::Empty) | None => None,
            Some(x) => Some(x.clone()),
        }
    };
    let (a, b) = (norm(sample), norm(got));
    if let Some(x) = &a {
        if has_nan(x) {
            return true;
        }
    }
    a == b
}

fn c25_run(env: &Env, c: &C25Case, thorough: bool, rep: &mut Report, st: &mut C25Stats) {
    env.apply_limits(&DEFAULT_LIMITS);
    let class = format!(
        "trigger={} deadband={} family={} var={} si={} ts={}",
        c.filter.trigger_name(),
        c.filter.db_class(),
        FAMILIES[c.family],
        if c.getter { "getter" } else { "stored" },
        if c.si_neg { "-1" } else { "min" },
        TS25[c.ts as usize % 4].1
    );
    let case = c25_case_json(c, thorough, &class);
    rep.begin_case(&case);
    rep.case(&class);
    rep.sample(case.clone());
    let r = catch(|| c25_history(env, c, &case, rep, st));
    if let Err(p) = r {
        rep.violation(format!("history|{}", p.signature()), format!("{} at {}:{}", p.msg, p.file, p.line), case);
    }
}

fn c25_history(env: &Env, c: &C25Case, case: &Value, rep: &mut Report, st: &mut C25Stats) {
    let mut drv = Drv::new(env);
    drv.ts = TS25[c.ts as usize % 4].0;
    let ts_tag = if c.ts % 4 == 0 { String::new() } else { format!("|timestamps-to-return={}", TS25[c.ts as usize % 4].1) };
    let handle = 77u32;
    match drv.create_subscription(100.0, 90_000, 3) {
        Ok(r) if r.revised_publishing_interval == 100.0 => {}
        _ => {
            rep.inconclusive("C25: CreateSubscription did not give the 100 ms interval");
            return;
        }
    }
    if drv.timer_tick().is_err() {
        rep.inconclusive("C25: first tick failed");
        return;
    }
    // queue the publish request while there is no item yet: its ReceivePublishRequest tick then samples nothing and
    // every later sample is taken by exactly one timer tick
    if drv.ensure_publish_request().is_err() {
        rep.inconclusive("C25: first publish request refused");
        return;
    }
    // the variable holds the first sample before the item exists
    let first = match &c.ops[0] {
        Op25::Sample(s, _) => s.clone(),
        _ => return,
    };
    apply_sample(env, c.getter, &first);
    let node = if c.getter { env.getter_node.clone() } else { env.nodes[0].clone() };
    let si = if c.si_neg { -1.0 } else { 0.0 };
    let res = match drv.create_items(vec![create_req(&node, handle, si, c.q, true, c.filter.to_ext())]) {
        Ok(r) if r.len() == 1 => r[0].clone(),
        _ => {
            rep.inconclusive("C25: CreateMonitoredItems failed as a whole");
            return;
        }
    };
    if !res.status_code.is_good() {
        st.filters_rejected += 1;
        rep.count(&format!("rejected:{}:{}", c.filter.db_class(), res.status_code), 1);
        drv.delete_subscription();
        return;
    }
    st.filters_accepted += 1;
    let item_id = res.monitored_item_id;
    let mut filter = c.filter;
    let mut last: Option<Samp> = None;
    let fdesc = |f: &FilterSpec| format!("trigger={}|deadband={}", f.trigger_name(), f.db_coarse());
    for (i, op) in c.ops.iter().enumerate() {
        match op {
            Op25::ModFilter(nf) => {
                st.modify_filter += 1;
                match drv.modify_items(vec![modify_req(item_id, handle, si, c.q, true, nf.to_ext())]) {
                    Ok(r) if r.len() == 1 && r[0].status_code.is_good() => filter = *nf,
                    _ => {
                        // rejected filter on modify: what the item uses afterwards is not specified here
                        rep.count("modify_filter_rejected", 1);
                        drv.delete_subscription();
                        return;
                    }
                }
            }
            Op25::Sample(s, opname) => {
                st.samples += 1;
                let got = match c25_step(&mut drv, env, c.getter, s, handle, st) {
                    Ok(g) => g,
                    Err(e) => {
                        rep.inconclusive(format!("C25: {}", e));
                        return;
                    }
                };
                if got.len() > 1 {
                    rep.violation(
                        format!("duplicate-report|{}", fdesc(&filter)),
                        format!("sample {} ({}) produced {} notifications", i, opname, got.len()),
                        case.clone(),
                    );
                    return;
                }
                let reported = got.len() == 1;
                if reported {
                    st.reports += 1;
                }
                let (exp, cls) = match &last {
                    None => (Exp::Must, "first-sample".to_string()),
                    Some(l) => expect_report(&filter, s, l),
                };
                match exp {
                    Exp::Must => st.must += 1,
                    Exp::MustNot => st.must_not += 1,
                    Exp::Either => st.either += 1,
                }
                let witness = || {
                    format!(
                        "filter {:?}; last reported {}; sample #{} ({}) {}",
                        filter,
                        last.as_ref().map(samp_text).unwrap_or_else(|| "nothing".into()),
                        i,
                        opname,
                        samp_text(s)
                    )
                };
                if exp == Exp::Must && !reported {
                    rep.violation(format!("missed-report|{}|{}", fdesc(&filter), cls), format!("not reported although it must be: {}", witness()), case.clone());
                    return;
                }
                if exp == Exp::MustNot && reported {
                    let sig = if cls.contains("value=nonnumeric-unchanged") {
                        // one root cause whatever the trigger and deadband type
                        "spurious-report|unchanged-nonnumeric-value-under-deadband".to_string()
                    } else if cls.contains("value=unchanged-numeric") {
                        // only arises for deadband values without defined semantics (NaN)
                        format!("spurious-report|unchanged-numeric-value|deadband={}", filter.db_coarse())
                    } else if filter.trigger == 2 {
                        // the timestamp trigger compares timestamps, so which of them the client asked to have returned is part of the shape
                        format!("spurious-report|{}|{}{}", fdesc(&filter), cls, ts_tag)
                    } else {
                        // which timestamps moved is irrelevant for the Status and StatusValue triggers
                        format!("spurious-report|{}|{}", fdesc(&filter), cls.split(",timestamps=").next().unwrap_or(""))
                    };
                    rep.violation(sig, format!("reported although nothing the filter selects changed: {}", witness()), case.clone());
                    return;
                }
                if reported {
                    let n = &got[0];
                    if !values_match(&s.val, &n.value.value) || n.value.status().bits() != s.status.unwrap_or(StatusCode::Good).bits() {
                        rep.violation(
                            format!("reported-value-is-not-the-sample|{}", fdesc(&filter)),
                            format!("sample #{} {} was reported as value {:?} status {:?}", i, samp_text(s), n.value.value, n.value.status),
                            case.clone(),
                        );
                        return;
                    }
                    last = Some(s.clone());
                }
            }
        }
    }
    // a filter the server accepted must be able to report: large value changes, nothing else moving
    let too_wide = filter.abs_valid() && !(filter.db_value <= 1e300);
    if filter.trigger != 0 && !too_wide {
        if let Some(l) = last.clone() {
            st.can_report_phases += 1;
            let big = if filter.abs_valid() { (filter.db_value * 4.0).max(1e6) } else { 1e6 };
            let mut reports_after_first = 0;
            for k in 0..6 {
                let s = Samp { val: Some(Variant::Double(if k % 2 == 0 { big } else { 0.0 })), status: l.status, src_ms: l.src_ms, srv_ms: l.srv_ms };
                st.samples += 1;
                match c25_step(&mut drv, env, c.getter, &s, handle, st) {
                    Ok(g) => {
                        if k > 0 && !g.is_empty() {
                            reports_after_first += 1;
                        }
                        if !g.is_empty() {
                            st.reports += 1;
                        }
                    }
                    Err(e) => {
                        rep.inconclusive(format!("C25: {}", e));
                        return;
                    }
                }
            }
            if reports_after_first == 0 {
                rep.violation(
                    format!("accepted-filter-never-reports|deadband={}", filter.db_coarse()),
                    format!(
                        "CreateMonitoredItems/ModifyMonitoredItems accepted filter {:?}, but six samples alternating between {:?} and 0.0 (status and timestamps constant) produced no report after the first",
                        filter, big
                    ),
                    case.clone(),
                );
            }
        }
    }
    drv.delete_subscription();
}

pub fn c25(args: &Args, rep: &mut Report) {
    let env = Env::new("c25");
    let mut st = C25Stats::default();
    if let Some(path) = &args.replay {
        match load_replay(path) {
            Some(v) => {
                let seed = v["case_seed"].as_str().and_then(|s| s.parse::<u64>().ok()).unwrap_or(0);
                let thorough = v["thorough"].as_bool().unwrap_or(false);
                let c = c25_gen(seed, ju64(&v["filter_idx"]) as usize, thorough);
                c25_run(&env, &c, thorough, rep, &mut st);
            }
            None => rep.inconclusive("replay file unreadable"),
        }
        return;
    }
    let mut rng = Rng::new(args.seed ^ 0xC25 ^ ((args.shard as u64) << 32));
    let n = args.budget(8_000, 160_000);
    let nf = c25_filters().len();
    for i in 0..n {
        // walk through the filter table so every filter gets the same share; the rest comes from the seed
        let filter_idx = (i as usize * args.shards + args.shard) % nf;
        let c = c25_gen(rng.next_u64(), filter_idx, args.thorough());
        c25_run(&env, &c, args.thorough(), rep, &mut st);
    }
    rep.count("filters_accepted", st.filters_accepted);
    rep.count("filters_rejected", st.filters_rejected);
    rep.count("samples_driven", st.samples);
    rep.count("reports_observed", st.reports);
    rep.count("samples_must_report", st.must);
    rep.count("samples_must_not_report", st.must_not);
    rep.count("samples_unspecified", st.either);
    rep.count("can_report_phases", st.can_report_phases);
    rep.count("filter_modifies", st.modify_filter);
    rep.count("timer_ticks", st.ticks);
    if st.filters_accepted == 0 || st.samples == 0 {
        rep.inconclusive("no accepted filter was exercised");
    }
}

