//! Security-token renewal under in-flight traffic (C14): a real client channel and a real server
//! transport joined by two FIFO queues, all interleavings of their atomic steps.
#[allow(unused_imports)]
pub(crate) use vh_common::{common, gen, pki};
pub mod p_renew;
pub use p_renew::dispatch;
