//! C14: security token renewal never breaks a healthy channel.
//!
//! A real client-role `SecureChannel` driven by the client's `SecureChannelState`, `TransportState`
//! and `SendBuffer` talks to a real server `TcpTransport` (from `Server::new_transport()`, driven
//! through its `verif_*` entry points, with a real `MessageWriter` playing the writer task) over two
//! FIFO queues. The atomic steps are
//!
//!   s  client secures request i under its current token and queues it        (client -> server)
//!   r  client secures an OpenSecureChannel(Renew) request and queues it      (client -> server)
//!   v  client receives the head of the server -> client queue
//!   a  client applies a received renew response (the task that awaited it)
//!   V  server reader receives the head of the client -> server queue and processes it
//!   W  server writer secures the head of its response queue and queues it    (server -> client)
//!
//! Client steps touch client state only, server steps server state only; the two sides interact
//! through the FIFO queues alone. Two interleavings with the same client-side order and the same
//! server-side order therefore run the same code on the same inputs. All interleavings are
//! enumerated as (client order, server order) classes with their exact number of members; one
//! seeded member of every class is executed, the small bounds are also executed member by member.
use crate::common::*;
use crate::pki;
use bytes::BytesMut;
use opcua::core::comms::{
    chunker::Chunker,
    message_writer::MessageWriter,
    secure_channel::{Role, SecureChannel},
    tcp_codec::{Message as TcpMessage, TcpCodec},
    tcp_types::HelloMessage,
};
use opcua::core::supported_message::SupportedMessage;
use opcua::crypto::{CertificateStore, SecurityPolicy, X509};
use opcua::server::comms::tcp_transport::{TcpTransport, VerifOut, VerifOutbox};
use opcua::server::prelude::{Server, ServerBuilder, ServerEndpoint};
use opcua::sync::RwLock;
use opcua::types::{
    DecodingOptions, FindServersRequest, FindServersResponse, GetEndpointsRequest, MessageSecurityMode,
    ResponseHeader, SecurityTokenRequestType, UAString,
};
use opcua::verif::client::{Completion, SecureChannelState, SendBuffer, VerifTransportState};
use serde_json::{json, Value};
use std::collections::{BTreeMap, HashMap, HashSet, VecDeque};
use std::path::PathBuf;
use std::sync::Arc;
use std::time::{Duration, Instant};
use tokio_util::codec::Decoder;

pub fn dispatch(args: &Args, rep: &mut Report) -> bool {
    match args.prop.as_str() {
        "C14" => c14(args, rep),
        _ => return false,
    }
    true
}

// ---------------------------------------------------------------------------------------------
// Enumeration of interleavings
// ---------------------------------------------------------------------------------------------

/// Every order of the client's own steps for n requests around r renewals. The j-th `v` is the
/// response to the j-th thing sent (everything is FIFO), a renewal can only start when the previous
/// one has been applied, `a` needs a received and not yet applied renew response.
fn client_seqs(n: usize, r: usize) -> Vec<String> {
    fn rec(
        n: usize,
        r: usize,
        seq: &mut String,
        ns: usize,
        begun: usize,
        applied: usize,
        sent: &mut Vec<u8>,
        nrecv: usize,
        recvd_opn: usize,
        out: &mut Vec<String>,
    ) {
        let mut any = false;
        if ns < n {
            any = true;
            seq.push('s');
            sent.push(b'M');
            rec(n, r, seq, ns + 1, begun, applied, sent, nrecv, recvd_opn, out);
            sent.pop();
            seq.pop();
        }
        if begun < r && begun == applied {
            any = true;
            seq.push('r');
            sent.push(b'O');
            rec(n, r, seq, ns, begun + 1, applied, sent, nrecv, recvd_opn, out);
            sent.pop();
            seq.pop();
        }
        if nrecv < sent.len() {
            any = true;
            let o = (sent[nrecv] == b'O') as usize;
            seq.push('v');
            rec(n, r, seq, ns, begun, applied, sent, nrecv + 1, recvd_opn + o, out);
            seq.pop();
        }
        if recvd_opn > applied {
            any = true;
            seq.push('a');
            rec(n, r, seq, ns, begun, applied + 1, sent, nrecv, recvd_opn, out);
            seq.pop();
        }
        if !any {
            out.push(seq.clone());
        }
    }
    let mut out = Vec::new();
    rec(n, r, &mut String::new(), 0, 0, 0, &mut Vec::new(), 0, 0, &mut out);
    out
}

/// Every order of the server's reader (V) and writer (W) steps for m messages: a response can only
/// be written after its request was processed.
fn server_seqs(m: usize) -> Vec<String> {
    fn rec(m: usize, seq: &mut String, v: usize, w: usize, out: &mut Vec<String>) {
        if v == m && w == m {
            out.push(seq.clone());
            return;
        }
        if v < m {
            seq.push('V');
            rec(m, seq, v + 1, w, out);
            seq.pop();
        }
        if w < v {
            seq.push('W');
            rec(m, seq, v, w + 1, out);
            seq.pop();
        }
    }
    let mut out = Vec::new();
    rec(m, &mut String::new(), 0, 0, &mut out);
    out
}

/// Number of interleavings of one client order with one server order, by position (i, j): lattice
/// paths in which `v` waits for the matching W and `V` waits for the matching send.
struct Table {
    lc: usize,
    ls: usize,
    cnt: Vec<u64>,
    csend: Vec<usize>,
    crecv: Vec<usize>,
    sv: Vec<usize>,
    sw: Vec<usize>,
}

impl Table {
    fn new(c: &[u8], s: &[u8]) -> Table {
        let (lc, ls) = (c.len(), s.len());
        let mut csend = vec![0; lc + 1];
        let mut crecv = vec![0; lc + 1];
        for (i, ch) in c.iter().enumerate() {
            csend[i + 1] = csend[i] + (*ch == b's' || *ch == b'r') as usize;
            crecv[i + 1] = crecv[i] + (*ch == b'v') as usize;
        }
        let mut sv = vec![0; ls + 1];
        let mut sw = vec![0; ls + 1];
        for (j, ch) in s.iter().enumerate() {
            sv[j + 1] = sv[j] + (*ch == b'V') as usize;
            sw[j + 1] = sw[j] + (*ch == b'W') as usize;
        }
        let mut t = Table { lc, ls, cnt: vec![0; (lc + 1) * (ls + 1)], csend, crecv, sv, sw };
        for i in (0..=lc).rev() {
            for j in (0..=ls).rev() {
                let v = if i == lc && j == ls {
                    1
                } else {
                    let mut x = 0u64;
                    if i < lc && t.client_enabled(c, i, j) {
                        x += t.at(i + 1, j);
                    }
                    if j < ls && t.server_enabled(s, i, j) {
                        x += t.at(i, j + 1);
                    }
                    x
                };
                t.cnt[i * (ls + 1) + j] = v;
            }
        }
        t
    }
    fn at(&self, i: usize, j: usize) -> u64 {
        self.cnt[i * (self.ls + 1) + j]
    }
    fn client_enabled(&self, c: &[u8], i: usize, j: usize) -> bool {
        c[i] != b'v' || self.sw[j] > self.crecv[i]
    }
    fn server_enabled(&self, s: &[u8], i: usize, j: usize) -> bool {
        s[j] != b'V' || self.csend[i] > self.sv[j]
    }
    fn total(&self) -> u64 {
        self.at(0, 0)
    }
    /// A member of the class drawn uniformly
    fn sample(&self, c: &[u8], s: &[u8], rng: &mut Rng) -> String {
        let (mut i, mut j) = (0, 0);
        let mut out = String::new();
        while i < self.lc || j < self.ls {
            let a = if i < self.lc && self.client_enabled(c, i, j) { self.at(i + 1, j) } else { 0 };
            let b = if j < self.ls && self.server_enabled(s, i, j) { self.at(i, j + 1) } else { 0 };
            if rng.below(a + b) < a {
                out.push(c[i] as char);
                i += 1;
            } else {
                out.push(s[j] as char);
                j += 1;
            }
        }
        out
    }
    /// Every member of the class
    fn all(&self, c: &[u8], s: &[u8]) -> Vec<String> {
        fn rec(t: &Table, c: &[u8], s: &[u8], i: usize, j: usize, cur: &mut String, out: &mut Vec<String>) {
            if i == t.lc && j == t.ls {
                out.push(cur.clone());
                return;
            }
            if i < t.lc && t.client_enabled(c, i, j) && t.at(i + 1, j) > 0 {
                cur.push(c[i] as char);
                rec(t, c, s, i + 1, j, cur, out);
                cur.pop();
            }
            if j < t.ls && t.server_enabled(s, i, j) && t.at(i, j + 1) > 0 {
                cur.push(s[j] as char);
                rec(t, c, s, i, j + 1, cur, out);
                cur.pop();
            }
        }
        let mut out = Vec::new();
        rec(self, c, s, 0, 0, &mut String::new(), &mut out);
        out
    }
    /// A prefix of some member that brings the target side to its local position `idx`, moving the
    /// other side only when the target is blocked
    fn prefix_to(&self, c: &[u8], s: &[u8], target_server: bool, idx: usize) -> String {
        let (mut i, mut j) = (0, 0);
        let mut out = String::new();
        loop {
            if (target_server && j >= idx) || (!target_server && i >= idx) {
                break;
            }
            let ce = i < self.lc && self.client_enabled(c, i, j) && self.at(i + 1, j) > 0;
            let se = j < self.ls && self.server_enabled(s, i, j) && self.at(i, j + 1) > 0;
            let take_server = if target_server { se } else { !ce && se };
            if take_server {
                out.push(s[j] as char);
                j += 1;
            } else if ce {
                out.push(c[i] as char);
                i += 1;
            } else {
                break;
            }
        }
        out
    }
}

#[derive(Clone)]
struct Class {
    n: usize,
    r: usize,
    c: String,
    s: String,
    members: u64,
}

fn classes(n: usize, r: usize) -> Vec<Class> {
    let cs = client_seqs(n, r);
    let ss = server_seqs(n + r);
    let mut out = Vec::new();
    for c in &cs {
        for s in &ss {
            let t = Table::new(c.as_bytes(), s.as_bytes());
            if t.total() > 0 {
                out.push(Class { n, r, c: c.clone(), s: s.clone(), members: t.total() });
            }
        }
    }
    out
}

/// Brute force over the global scheduler (no class structure): used to check the class
/// enumeration above against an independent count.
fn brute_force_count(n: usize, r: usize) -> u64 {
    #[allow(clippy::too_many_arguments)]
    fn rec(n: usize, r: usize, ns: usize, begun: usize, applied: usize, recvd: usize, cs: &mut VecDeque<u8>, ob: &mut VecDeque<u8>, sc: &mut VecDeque<u8>) -> u64 {
        let mut total = 0;
        let mut any = false;
        if ns < n {
            any = true;
            cs.push_back(b'M');
            total += rec(n, r, ns + 1, begun, applied, recvd, cs, ob, sc);
            cs.pop_back();
        }
        if begun < r && begun == applied {
            any = true;
            cs.push_back(b'O');
            total += rec(n, r, ns, begun + 1, applied, recvd, cs, ob, sc);
            cs.pop_back();
        }
        if let Some(x) = cs.pop_front() {
            any = true;
            ob.push_back(x);
            total += rec(n, r, ns, begun, applied, recvd, cs, ob, sc);
            ob.pop_back();
            cs.push_front(x);
        }
        if let Some(x) = ob.pop_front() {
            any = true;
            sc.push_back(x);
            total += rec(n, r, ns, begun, applied, recvd, cs, ob, sc);
            sc.pop_back();
            ob.push_front(x);
        }
        if let Some(x) = sc.pop_front() {
            any = true;
            total += rec(n, r, ns, begun, applied, recvd + (x == b'O') as usize, cs, ob, sc);
            sc.push_front(x);
        }
        if recvd > applied {
            any = true;
            total += rec(n, r, ns, begun, applied + 1, recvd, cs, ob, sc);
        }
        if !any {
            1
        } else {
            total
        }
    }
    rec(n, r, 0, 0, 0, 0, &mut VecDeque::new(), &mut VecDeque::new(), &mut VecDeque::new())
}

// ---------------------------------------------------------------------------------------------
// The two real endpoints
// ---------------------------------------------------------------------------------------------

#[derive(Clone, Copy, PartialEq, Debug)]
struct Cfg {
    policy: SecurityPolicy,
    mode: MessageSecurityMode,
}

impl Cfg {
    fn name(&self) -> String {
        format!("{}/{}", self.policy.to_str(), mode_name(self.mode))
    }
    fn from_names(p: &str, m: &str) -> Option<Cfg> {
        let policy = match p {
            "Basic128Rsa15" => SecurityPolicy::Basic128Rsa15,
            "Basic256" => SecurityPolicy::Basic256,
            "Basic256Sha256" => SecurityPolicy::Basic256Sha256,
            "Aes128-Sha256-RsaOaep" => SecurityPolicy::Aes128Sha256RsaOaep,
            "Aes256-Sha256-RsaPss" => SecurityPolicy::Aes256Sha256RsaPss,
            _ => return None,
        };
        let mode = match m {
            "Sign" => MessageSecurityMode::Sign,
            "SignAndEncrypt" => MessageSecurityMode::SignAndEncrypt,
            _ => return None,
        };
        Some(Cfg { policy, mode })
    }
}

fn mode_name(m: MessageSecurityMode) -> &'static str {
    match m {
        MessageSecurityMode::Sign => "Sign",
        MessageSecurityMode::SignAndEncrypt => "SignAndEncrypt",
        MessageSecurityMode::None => "None",
        _ => "Invalid",
    }
}

struct Env {
    server: Server,
    client_store: Arc<RwLock<CertificateStore>>,
    server_cert: X509,
    rt: tokio::runtime::Runtime,
    url: String,
    dir: PathBuf,
}

impl Drop for Env {
    fn drop(&mut self) {
        let _ = std::fs::remove_dir_all(&self.dir);
    }
}

impl Env {
    fn new() -> Result<Env, String> {
        let dir = pki::scratch_dir("renew");
        let client_id = pki::identity("crA", 2048);
        let server_id = pki::identity("crB", 2048);
        // pki::cert_store writes own/cert.der and private/private.pem but only creates trusted/ and rejected/
        for side in ["client", "server"] {
            for sub in ["own", "private"] {
                std::fs::create_dir_all(dir.join(side).join(sub)).map_err(|e| e.to_string())?;
            }
        }
        let client_store = pki::cert_store(&dir.join("client"), &client_id);
        pki::trust(&client_store, &server_id.0);
        let server_store = pki::cert_store(&dir.join("server"), &server_id);
        pki::trust(&server_store, &client_id.0);
        let ids = vec!["ANONYMOUS".to_string()];
        let path = "/";
        let server = catch(|| {
            ServerBuilder::new()
                .application_name("verif renew")
                .application_uri("urn:verif:crB")
                .product_uri("urn:verif:renew")
                .pki_dir(dir.join("server"))
                .host_and_port("127.0.0.1", 4855)
                .discovery_urls(vec!["/".to_string()])
                .trust_client_certs()
                .endpoints(vec![
                    ("b128_s", ServerEndpoint::new_basic128rsa15_sign(path, &ids)),
                    ("b128_se", ServerEndpoint::new_basic128rsa15_sign_encrypt(path, &ids)),
                    ("b256_s", ServerEndpoint::new_basic256_sign(path, &ids)),
                    ("b256_se", ServerEndpoint::new_basic256_sign_encrypt(path, &ids)),
                    ("b256s_s", ServerEndpoint::new_basic256sha256_sign(path, &ids)),
                    ("b256s_se", ServerEndpoint::new_basic256sha256_sign_encrypt(path, &ids)),
                    ("a128_s", ServerEndpoint::new_aes128_sha256_rsaoaep_sign(path, &ids)),
                    ("a128_se", ServerEndpoint::new_aes128_sha256_rsaoaep_sign_encrypt(path, &ids)),
                    ("a256_s", ServerEndpoint::new_aes256_sha256_rsapss_sign(path, &ids)),
                    ("a256_se", ServerEndpoint::new_aes256_sha256_rsapss_sign_encrypt(path, &ids)),
                ])
                .server()
        })
        .map_err(|p| format!("server construction panicked: {}", p.msg))?
        .ok_or_else(|| "server configuration invalid".to_string())?;
        let rt = tokio::runtime::Builder::new_current_thread()
            .enable_all()
            .build()
            .map_err(|e| e.to_string())?;
        Ok(Env {
            server,
            client_store: Arc::new(RwLock::new(client_store)),
            server_cert: server_id.0,
            rt,
            url: "opc.tcp://127.0.0.1:4855/".to_string(),
            dir,
        })
    }
}

/// One secured chunk on the wire, with what the harness knew when it was secured
struct Wire {
    bytes: Vec<u8>,
    opn: bool,
    /// token id in the chunk's symmetric security header (0 for OPN chunks)
    tag: u32,
    /// the sender's `token_id()` when it secured the chunk
    sender_tok: u32,
    label: String,
    request_id: u32,
}

#[derive(Clone, Copy, PartialEq, Eq, Debug)]
enum Verdict {
    Accepted,
    Rejected,
    Panicked,
}

#[derive(Clone, Debug)]
struct Delivery {
    step: usize,
    to_server: bool,
    opn: bool,
    label: String,
    tag: u32,
    sender_tok: u32,
    recv_tok: u32,
    recv_seen: u32,
    recv_state: &'static str,
    verdict: Verdict,
    status: String,
}

impl Delivery {
    fn brief(&self) -> String {
        format!(
            "#{} {}<-{}{} recv(tok={},seen={},{}) {}{}",
            self.step,
            if self.to_server { "server" } else { "client" },
            self.label,
            if self.opn { "[OPN]".to_string() } else { format!("[tok={}]", self.tag) },
            self.recv_tok,
            self.recv_seen,
            self.recv_state,
            match self.verdict {
                Verdict::Accepted => "accepted",
                Verdict::Rejected => "REJECTED",
                Verdict::Panicked => "PANIC",
            },
            if self.status.is_empty() { String::new() } else { format!("({})", self.status) }
        )
    }
    fn json(&self) -> Value {
        json!({"step": self.step, "to": if self.to_server {"server"} else {"client"}, "chunk": self.label,
               "opn": self.opn, "chunk_token": self.tag, "sender_token": self.sender_tok,
               "receiver_token": self.recv_tok, "receiver_newest_token_seen": self.recv_seen,
               "receiver_state": self.recv_state,
               "verdict": format!("{:?}", self.verdict), "status": self.status})
    }
    /// what the two sides observe of this delivery, without the global position
    fn local(&self) -> String {
        format!("{}:{}:{}:{:?}", self.label, self.tag, self.recv_tok, self.verdict)
    }
}

fn wire_tag(bytes: &[u8]) -> (bool, u32) {
    let opn = bytes.len() >= 3 && &bytes[0..3] == b"OPN";
    if opn || bytes.len() < 16 {
        (opn, 0)
    } else {
        (false, u32::from_le_bytes([bytes[12], bytes[13], bytes[14], bytes[15]]))
    }
}

fn far_deadline() -> Instant {
    Instant::now() + Duration::from_secs(3600)
}

struct World<'a> {
    env: &'a Env,
    cfg: Cfg,
    // server side
    transport: TcpTransport,
    outbox: VerifOutbox,
    writer: MessageWriter,
    s_sc: Arc<RwLock<SecureChannel>>,
    wq: VecDeque<(u32, SupportedMessage)>,
    // client side
    c_sc: Arc<RwLock<SecureChannel>>,
    c_state: SecureChannelState,
    c_ts: VerifTransportState,
    c_buf: SendBuffer,
    completions: HashMap<u32, Completion>,
    labels: HashMap<u32, (String, bool)>,
    pending_opn: VecDeque<SupportedMessage>,
    opn_outstanding: usize,
    /// (client nonce, server nonce) the client's current keys were derived from
    c_key_nonces: (Vec<u8>, Vec<u8>),
    // wires
    c2s: VecDeque<Wire>,
    s2c: VecDeque<Wire>,
    // what each side has seen
    s_seen: u32,
    c_seen: u32,
    sent: usize,
    renews: usize,
    step: usize,
    /// every token id the server has put in an OpenSecureChannel response
    issued: Vec<u32>,
}

impl<'a> World<'a> {
    /// Connects: HEL/ACK, then the real Issue exchange, so that both sides hold token 1 and its keys
    fn new(env: &'a Env, cfg: Cfg) -> Result<World<'a>, String> {
        let mut transport = env.server.new_transport();
        let mut outbox = VerifOutbox::new();
        let hello = HelloMessage::new(&env.url, 65535, 65535, 0, 0);
        transport
            .verif_process_hello(hello, &outbox, 65535, 65535)
            .map_err(|e| format!("server refused HEL: {}", e))?;
        let _ = outbox.drain();
        let s_sc = transport.verif_secure_channel();
        let c_sc = Arc::new(RwLock::new(SecureChannel::new(
            env.client_store.clone(),
            Role::Client,
            DecodingOptions::default(),
        )));
        {
            let mut sc = c_sc.write();
            sc.set_security_policy(cfg.policy);
            sc.set_security_mode(cfg.mode);
            sc.set_remote_cert(Some(env.server_cert.clone()));
            if sc.cert().is_none() {
                return Err("client channel has no certificate".into());
            }
        }
        let c_state = SecureChannelState::new(false, c_sc.clone(), Default::default());
        let c_ts = VerifTransportState::new(c_sc.clone(), 0, 1000, 1000);
        let mut w = World {
            env,
            cfg,
            transport,
            outbox,
            writer: MessageWriter::new(65535, 0, 0),
            s_sc,
            wq: VecDeque::new(),
            c_sc,
            c_state,
            c_ts,
            c_buf: SendBuffer::new(65535, 0, 0),
            completions: HashMap::new(),
            labels: HashMap::new(),
            pending_opn: VecDeque::new(),
            opn_outstanding: 0,
            c_key_nonces: (Vec::new(), Vec::new()),
            c2s: VecDeque::new(),
            s2c: VecDeque::new(),
            s_seen: 0,
            c_seen: 0,
            sent: 0,
            renews: 0,
            step: 0,
            issued: Vec::new(),
        };
        // Issue
        w.client_open(SecurityTokenRequestType::Issue, "issue")?;
        let d = w.server_recv()?;
        if d.verdict != Verdict::Accepted {
            return Err(format!("server did not accept the Issue request: {}", d.status));
        }
        w.server_write()?;
        let d = w.client_recv()?;
        if d.verdict != Verdict::Accepted {
            return Err(format!("client did not accept the Issue response: {}", d.status));
        }
        w.client_apply()?.map_err(|e| format!("client could not apply the Issue response: {}", e))?;
        let (ct, st) = (w.c_sc.read().token_id(), w.s_sc.read().token_id());
        if ct == 0 || ct != st {
            return Err(format!("after Issue the token ids are client {} server {}", ct, st));
        }
        w.step = 0;
        Ok(w)
    }

    /// Queues a message the way a session does and pushes it through the client's send path
    fn client_submit(&mut self, msg: SupportedMessage, label: &str, opn: bool) -> Result<(), String> {
        let comp = self
            .c_ts
            .submit(msg, far_deadline(), true)
            .map_err(|_| "client request queue refused the message".to_string())?
            .ok_or_else(|| "no completion".to_string())?;
        let c_ts = &mut self.c_ts;
        let c_buf = &mut self.c_buf;
        let (out, request_id) = self
            .env
            .rt
            .block_on(async { tokio::time::timeout(Duration::from_secs(5), c_ts.wait_for_outgoing_message(c_buf)).await })
            .map_err(|_| "client transport did not hand out the queued message".to_string())?
            .ok_or_else(|| "client request queue closed".to_string())?;
        self.completions.insert(request_id, comp);
        self.labels.insert(request_id, (label.to_string(), opn));
        let sender_tok;
        let mut bytes: Vec<u8> = Vec::new();
        {
            let sc = self.c_sc.read();
            sender_tok = sc.token_id();
            self.c_buf
                .write(request_id, out, &sc)
                .map_err(|e| format!("client SendBuffer::write failed: {}", e))?;
        }
        let mut chunks = 0;
        while self.c_buf.should_encode_chunks() {
            {
                let sc = self.c_sc.read();
                self.c_buf
                    .encode_next_chunk(&sc)
                    .map_err(|e| format!("client encode_next_chunk failed: {}", e))?;
            }
            chunks += 1;
            let mut guard = 0;
            while self.c_buf.can_read() {
                let c_buf = &mut self.c_buf;
                self.env
                    .rt
                    .block_on(c_buf.read_into_async(&mut bytes))
                    .map_err(|e| format!("draining the client send buffer: {}", e))?;
                guard += 1;
                if guard > 10_000 {
                    return Err("client send buffer never drains".into());
                }
            }
        }
        if chunks != 1 {
            return Err(format!("client request became {} chunks, the scheduler assumes 1", chunks));
        }
        let (is_opn, tag) = wire_tag(&bytes);
        if is_opn != opn {
            return Err("client chunk type is not what was submitted".into());
        }
        self.c2s.push_back(Wire { bytes, opn, tag, sender_tok, label: label.to_string(), request_id });
        Ok(())
    }

    fn client_open(&mut self, kind: SecurityTokenRequestType, label: &str) -> Result<(), String> {
        let msg = self.c_state.verif_begin_issue_or_renew(kind, Duration::from_secs(30));
        self.opn_outstanding += 1;
        self.client_submit(msg, label, true)
    }

    fn client_send(&mut self, req: u8) -> Result<(), String> {
        self.sent += 1;
        let label = format!("req{}", self.sent);
        let header = self.c_state.make_request_header(Duration::from_secs(30));
        let msg: SupportedMessage = if req == b'e' {
            GetEndpointsRequest {
                request_header: header,
                endpoint_url: UAString::from(self.env.url.as_str()),
                locale_ids: None,
                profile_uris: None,
            }
            .into()
        } else {
            FindServersRequest {
                request_header: header,
                endpoint_url: UAString::from(self.env.url.as_str()),
                locale_ids: None,
                server_uris: None,
            }
            .into()
        };
        self.client_submit(msg, &label, false)
    }

    fn client_renew(&mut self) -> Result<(), String> {
        self.renews += 1;
        let label = format!("renew{}", self.renews);
        self.client_open(SecurityTokenRequestType::Renew, &label)
    }

    fn decode_frame(&self, bytes: &[u8]) -> Result<TcpMessage, String> {
        let mut codec = TcpCodec::new(DecodingOptions::default());
        let mut buf = BytesMut::from(bytes);
        match codec.decode(&mut buf) {
            Ok(Some(m)) if buf.is_empty() => Ok(m),
            Ok(Some(_)) => Err("frame decoder left bytes over".into()),
            Ok(None) => Err("frame decoder wants more bytes".into()),
            Err(e) => Err(format!("frame decoder error: {}", e)),
        }
    }

    /// The server's reader task takes the next frame
    fn server_recv(&mut self) -> Result<Delivery, String> {
        let w = self.c2s.pop_front().ok_or_else(|| "client->server queue is empty".to_string())?;
        self.server_deliver(&w)
    }

    fn server_deliver(&mut self, w: &Wire) -> Result<Delivery, String> {
        let chunk = match self.decode_frame(&w.bytes)? {
            TcpMessage::Chunk(c) => c,
            other => return Err(format!("not a chunk: {:?}", other)),
        };
        let recv_tok = self.s_sc.read().token_id();
        let recv_seen = self.s_seen;
        let transport = &mut self.transport;
        let outbox = &self.outbox;
        let res = catch(|| transport.verif_process_chunk(chunk, outbox));
        let mut answered = false;
        for o in self.outbox.drain() {
            if let VerifOut::Message(id, m) = o {
                if id == w.request_id {
                    answered = true;
                }
                if let SupportedMessage::OpenSecureChannelResponse(ref r) = m {
                    self.issued.push(r.security_token.token_id);
                }
                self.wq.push_back((id, m));
            }
        }
        let (verdict, status) = match res {
            Err(p) => (Verdict::Panicked, p.signature()),
            Ok(Err(e)) => (Verdict::Rejected, format!("{}", e)),
            Ok(Ok(())) if answered => (Verdict::Accepted, String::new()),
            Ok(Ok(())) => (Verdict::Rejected, "processed without a response".to_string()),
        };
        if verdict == Verdict::Accepted && !w.opn && w.tag > self.s_seen {
            self.s_seen = w.tag;
        }
        let recv_state = if recv_tok > w.tag && !w.opn {
            "server-had-processed-a-later-renew"
        } else {
            "server-token-is-chunk-token"
        };
        Ok(Delivery {
            step: self.step,
            to_server: true,
            opn: w.opn,
            label: w.label.clone(),
            tag: w.tag,
            sender_tok: w.sender_tok,
            recv_tok,
            recv_seen,
            recv_state,
            verdict,
            status,
        })
    }

    /// The server's writer task takes the next queued response, secures and sends it
    fn server_write(&mut self) -> Result<(), String> {
        let (id, msg) = self.wq.pop_front().ok_or_else(|| "server writer queue is empty".to_string())?;
        let (label, _) = self.labels.get(&id).cloned().unwrap_or((format!("id{}", id), false));
        let sc = self.s_sc.read();
        let sender_tok = sc.token_id();
        let writer = &mut self.writer;
        let r = catch(|| writer.write(id, msg, &sc));
        match r {
            Err(p) => return Err(format!("server MessageWriter::write panicked: {}", p.signature())),
            Ok(Err(e)) => return Err(format!("server MessageWriter::write failed: {}", e)),
            Ok(Ok(_)) => {}
        }
        drop(sc);
        let bytes = self.writer.bytes_to_write();
        let (opn, tag) = wire_tag(&bytes);
        let declared = if bytes.len() >= 8 { u32::from_le_bytes([bytes[4], bytes[5], bytes[6], bytes[7]]) as usize } else { 0 };
        if declared != bytes.len() {
            return Err(format!("server response is not exactly one chunk ({} of {} bytes)", declared, bytes.len()));
        }
        self.s2c.push_back(Wire { bytes, opn, tag, sender_tok, label: format!("resp-{}", label), request_id: id });
        Ok(())
    }

    fn client_opn_state(&self) -> &'static str {
        if !self.pending_opn.is_empty() {
            "client-renew-response-received-not-applied"
        } else if self.opn_outstanding > 0 {
            "client-renew-response-not-received"
        } else {
            "client-no-renew-outstanding"
        }
    }

    /// The client's event loop takes the next frame
    fn client_recv(&mut self) -> Result<Delivery, String> {
        let w = self.s2c.pop_front().ok_or_else(|| "server->client queue is empty".to_string())?;
        self.client_deliver(&w)
    }

    fn client_deliver(&mut self, w: &Wire) -> Result<Delivery, String> {
        let msg = self.decode_frame(&w.bytes)?;
        let recv_tok = self.c_sc.read().token_id();
        let recv_seen = self.c_seen;
        let recv_state = self.client_opn_state();
        let c_ts = &mut self.c_ts;
        let res = catch(|| c_ts.handle_incoming_message(msg));
        let completed = match self.completions.get_mut(&w.request_id) {
            Some(c) => match c.try_recv() {
                Ok(r) => Some(r),
                Err(_) => None,
            },
            None => None,
        };
        if completed.is_some() {
            self.completions.remove(&w.request_id);
        }
        let (verdict, status) = match (res, completed) {
            (Err(p), _) => (Verdict::Panicked, p.signature()),
            (Ok(Err(e)), _) => (Verdict::Rejected, format!("{}", e)),
            (Ok(Ok(())), Some(Ok(m))) => {
                // whatever answers a renew request goes to the task that awaits it
                let answers_opn = self.labels.get(&w.request_id).map(|l| l.1).unwrap_or(false);
                if answers_opn {
                    self.pending_opn.push_back(m);
                    self.opn_outstanding = self.opn_outstanding.saturating_sub(1);
                }
                (Verdict::Accepted, String::new())
            }
            (Ok(Ok(())), Some(Err(e))) => (Verdict::Rejected, format!("request completed with {}", e)),
            (Ok(Ok(())), None) => (Verdict::Rejected, "taken without completing the request".to_string()),
        };
        if verdict == Verdict::Accepted && !w.opn && w.tag > self.c_seen {
            self.c_seen = w.tag;
        }
        Ok(Delivery {
            step: self.step,
            to_server: false,
            opn: w.opn,
            label: w.label.clone(),
            tag: w.tag,
            sender_tok: w.sender_tok,
            recv_tok,
            recv_seen,
            recv_state,
            verdict,
            status,
        })
    }

    /// The task that awaited the renew response installs the new token
    fn client_apply(&mut self) -> Result<Result<(), String>, String> {
        let resp = self.pending_opn.pop_front().ok_or_else(|| "no renew response to apply".to_string())?;
        let c_state = &self.c_state;
        match catch(|| c_state.verif_end_issue_or_renew(resp)) {
            Err(p) => Ok(Err(p.signature())),
            Ok(Err(e)) => Ok(Err(format!("{}", e))),
            Ok(Ok(())) => {
                let sc = self.c_sc.read();
                self.c_key_nonces = (sc.local_nonce().to_vec(), sc.remote_nonce().to_vec());
                Ok(Ok(()))
            }
        }
    }
}

// ---------------------------------------------------------------------------------------------
// Running one interleaving and judging it
// ---------------------------------------------------------------------------------------------

#[derive(Default)]
struct Outcome {
    deliveries: Vec<Delivery>,
    /// (signature, detail)
    violations: Vec<(String, String)>,
    harness: Vec<String>,
    steps_done: usize,
}

impl Outcome {
    fn log(&self) -> String {
        self.deliveries.iter().map(|d| d.brief()).collect::<Vec<_>>().join("; ")
    }
}

/// The property, applied to one delivery of a healthy run. A chunk secured by the real sender
/// under the token it was using must be accepted unless the receiver has already received a
/// message secured with a later token. OPN chunks carry no token; a renew exchange that fails on a
/// healthy channel breaks it just the same.
fn judge(d: &Delivery, cfg: Cfg, sched: &str, out: &mut Outcome) {
    if d.verdict == Verdict::Accepted {
        return;
    }
    // what was executed: the steps up to and including this delivery
    let sched = &sched[..(d.step + 1).min(sched.len())];
    let to = if d.to_server { "server" } else { "client" };
    if d.verdict == Verdict::Panicked {
        out.violations.push((
            format!("receive-path-panicked|to={}|{}", to, d.status),
            format!("{} [{}] schedule {}: {}", d.brief(), cfg.name(), sched, out.log()),
        ));
        return;
    }
    if d.opn {
        out.violations.push((
            format!("renew-exchange-rejected|to={}", to),
            format!("the renew {} was rejected with {} [{}] schedule {}: {}",
                if d.to_server { "request" } else { "response" }, d.status, cfg.name(), sched, out.log()),
        ));
        return;
    }
    if d.recv_seen > d.tag {
        // the receiver had already received a message under a later token: no obligation
        return;
    }
    let rel = if d.tag < d.recv_tok {
        "older-than-receiver-token"
    } else if d.tag > d.recv_tok {
        "newer-than-receiver-token"
    } else {
        "receiver-token"
    };
    out.violations.push((
        format!("valid-chunk-rejected|to={}|chunk-token={}|{}", to, rel, d.recv_state),
        format!(
            "{} secured by the real {} under token {} was rejected ({}) by the {} whose token was {} and which had received nothing newer than token {} [{}] schedule {} (s=client sends request, r=client sends renew, V=server reads, W=server writes, v=client reads, a=client applies renew response): {}",
            d.label,
            if d.to_server { "client" } else { "server" },
            d.tag,
            d.status,
            to,
            d.recv_tok,
            d.recv_seen,
            cfg.name(),
            sched,
            out.log()
        ),
    ));
}

/// Runs the steps of `sched` against a fresh pair. Stops at the first rejected delivery (both real
/// endpoints close the connection on that).
fn run_schedule<'a>(env: &'a Env, cfg: Cfg, sched: &str, reqs: &[u8], judge_it: bool) -> (Outcome, Option<World<'a>>) {
    let mut out = Outcome::default();
    let mut w = match World::new(env, cfg) {
        Ok(w) => w,
        Err(e) => {
            out.harness.push(format!("setup: {}", e));
            return (out, None);
        }
    };
    for (k, ch) in sched.bytes().enumerate() {
        w.step = k;
        let r: Result<Option<Delivery>, String> = match ch {
            b's' => {
                let kind = reqs.get(w.sent).copied().unwrap_or(b'f');
                w.client_send(kind).map(|_| None)
            }
            b'r' => w.client_renew().map(|_| None),
            b'V' => w.server_recv().map(Some),
            b'W' => w.server_write().map(|_| None),
            b'v' => w.client_recv().map(Some),
            b'a' => match w.client_apply() {
                Ok(Ok(())) => Ok(None),
                Ok(Err(e)) => {
                    if judge_it {
                        out.violations.push((
                            "renew-response-not-applied".to_string(),
                            format!("the client could not install the renewed token: {} [{}] schedule {}: {}", e, cfg.name(), &sched[..=k], out.log()),
                        ));
                    }
                    out.steps_done = k;
                    return (out, Some(w));
                }
                Err(e) => Err(e),
            },
            other => Err(format!("unknown step {:?}", other as char)),
        };
        match r {
            Err(e) => {
                out.harness.push(format!("step {} ({}): {}", k, ch as char, e));
                out.steps_done = k;
                return (out, Some(w));
            }
            Ok(None) => {}
            Ok(Some(d)) => {
                let bad = d.verdict != Verdict::Accepted;
                out.deliveries.push(d.clone());
                if judge_it {
                    judge(&d, cfg, sched, &mut out);
                }
                if bad {
                    out.steps_done = k + 1;
                    return (out, Some(w));
                }
            }
        }
    }
    out.steps_done = sched.len();
    (out, Some(w))
}

// ---------------------------------------------------------------------------------------------
// Chunks under tokens that were never issued
// ---------------------------------------------------------------------------------------------

struct Probe {
    keys: &'static str,
    id_class: &'static str,
    token_id: u32,
}

fn forger(env: &Env, cfg: Cfg, role: Role, channel_id: u32, token_id: u32, local: &[u8], remote: &[u8]) -> SecureChannel {
    let mut f = SecureChannel::new(env.client_store.clone(), role, DecodingOptions::default());
    f.set_security_policy(cfg.policy);
    f.set_security_mode(cfg.mode);
    f.set_secure_channel_id(channel_id);
    f.set_token_id(token_id);
    f.set_local_nonce(local);
    f.set_remote_nonce(remote);
    f.derive_keys();
    f
}

fn forge(f: &SecureChannel, seq: u32, request_id: u32, msg: &SupportedMessage) -> Result<Vec<u8>, String> {
    let chunks = Chunker::encode(seq, request_id, 0, 0, f, msg).map_err(|e| format!("forging: encode {}", e))?;
    if chunks.len() != 1 {
        return Err("forged message is not one chunk".into());
    }
    let mut buf = vec![0u8; chunks[0].data.len() + 4096];
    let n = f.apply_security(&chunks[0], &mut buf).map_err(|e| format!("forging: apply_security {}", e))?;
    buf.truncate(n);
    Ok(buf)
}

/// After the prefix, offers the target side chunks that name a token id nobody issued, or that
/// are secured with keys from nonces that were never exchanged. All of them must be rejected.
fn run_probes(env: &Env, cfg: Cfg, prefix: &str, reqs: &[u8], target_server: bool, rng: &mut Rng, rep: &mut Report) -> Outcome {
    let (mut out, w) = run_schedule(env, cfg, prefix, reqs, false);
    let mut w = match w {
        Some(w) => w,
        None => return out,
    };
    if !out.harness.is_empty() {
        return out;
    }
    if out.deliveries.iter().any(|d| d.verdict != Verdict::Accepted) {
        // the healthy part already broke (reported by the healthy runs); nothing to probe
        rep.count("probe_points_unreachable_because_prefix_broke", 1);
        out.deliveries.clear();
        return out;
    }
    out.deliveries.clear();
    let issued_max = w.issued.iter().copied().max().unwrap_or(0).max(w.s_sc.read().token_id());
    let (recv_tok, chan, accept_local, accept_remote) = if target_server {
        let sc = w.s_sc.read();
        // the server verifies with keys made from (its nonce, the client's nonce)
        (sc.token_id(), sc.secure_channel_id(), sc.remote_nonce().to_vec(), sc.local_nonce().to_vec())
    } else {
        let sc = w.c_sc.read();
        (sc.token_id(), sc.secure_channel_id(), w.c_key_nonces.1.clone(), w.c_key_nonces.0.clone())
    };
    let nl = cfg.policy.secure_channel_nonce_length();
    let far = issued_max.wrapping_add(1000 + rng.below(1_000_000) as u32);
    let probes = vec![
        Probe { keys: "receiver-current-keys", id_class: "next-unissued", token_id: issued_max + 1 },
        Probe { keys: "receiver-current-keys", id_class: "zero", token_id: 0 },
        Probe { keys: "receiver-current-keys", id_class: "far", token_id: far },
        Probe { keys: "receiver-current-keys", id_class: "u32-max", token_id: u32::MAX },
        Probe { keys: "unrelated-nonces", id_class: "receiver-current", token_id: recv_tok },
        Probe { keys: "unrelated-nonces", id_class: "next-unissued", token_id: issued_max + 1 },
        Probe { keys: "own-nonce-twice", id_class: "receiver-current", token_id: recv_tok },
    ];
    let to = if target_server { "server" } else { "client" };
    let sender_role = || if target_server { Role::Client } else { Role::Server };
    for p in probes {
        let (l, r) = match p.keys {
            "receiver-current-keys" => (accept_local.clone(), accept_remote.clone()),
            "own-nonce-twice" => (accept_local.clone(), accept_local.clone()),
            _ => (rng.bytes(nl), rng.bytes(nl)),
        };
        let f = forger(env, cfg, sender_role(), chan, p.token_id, &l, &r);
        if p.keys == "receiver-current-keys" {
            // the forger must really hold the keys the receiver verifies with at this moment
            let mine = f.verif_keys().0;
            let theirs = if target_server { w.s_sc.read().verif_keys().1 } else { w.c_sc.read().verif_keys().1 };
            if mine.is_none() || mine != theirs {
                out.harness.push(format!("probe: could not reproduce the {}'s verification keys", to));
                return out;
            }
        }
        w.step = prefix.len();
        let d = if target_server {
            let seq = w.transport.verif_last_received_sequence_number() + 1;
            let rid = 900_000 + rng.below(1000) as u32;
            let msg: SupportedMessage = FindServersRequest {
                request_header: w.c_state.make_request_header(Duration::from_secs(30)),
                endpoint_url: UAString::from(env.url.as_str()),
                locale_ids: None,
                server_uris: None,
            }
            .into();
            let bytes = match forge(&f, seq, rid, &msg) {
                Ok(b) => b,
                Err(e) => {
                    out.harness.push(e);
                    return out;
                }
            };
            let (_, tag) = wire_tag(&bytes);
            let wire = Wire { bytes, opn: false, tag, sender_tok: p.token_id, label: format!("forged({},{})", p.keys, p.id_class), request_id: rid };
            w.server_deliver(&wire)
        } else {
            // a pending request the forged response can answer
            let header = w.c_state.make_request_header(Duration::from_secs(30));
            let dummy: SupportedMessage = FindServersRequest {
                request_header: header.clone(),
                endpoint_url: UAString::null(),
                locale_ids: None,
                server_uris: None,
            }
            .into();
            let comp = match w.c_ts.submit(dummy, far_deadline(), true) {
                Ok(Some(c)) => c,
                _ => {
                    out.harness.push("probe: client queue refused the pending request".into());
                    return out;
                }
            };
            let c_ts = &mut w.c_ts;
            let c_buf = &mut w.c_buf;
            let got = env.rt.block_on(async {
                tokio::time::timeout(Duration::from_secs(5), c_ts.wait_for_outgoing_message(c_buf)).await
            });
            let rid = match got {
                Ok(Some((_, id))) => id,
                _ => {
                    out.harness.push("probe: client transport did not register the pending request".into());
                    return out;
                }
            };
            w.completions.insert(rid, comp);
            let seq = w.c_ts.last_received_sequence_number() + 1;
            let msg: SupportedMessage = FindServersResponse {
                response_header: ResponseHeader::new_good(&header),
                servers: None,
            }
            .into();
            let bytes = match forge(&f, seq, rid, &msg) {
                Ok(b) => b,
                Err(e) => {
                    out.harness.push(e);
                    return out;
                }
            };
            let (_, tag) = wire_tag(&bytes);
            let wire = Wire { bytes, opn: false, tag, sender_tok: p.token_id, label: format!("forged({},{})", p.keys, p.id_class), request_id: rid };
            w.client_deliver(&wire)
        };
        let d = match d {
            Ok(d) => d,
            Err(e) => {
                out.harness.push(format!("probe: {}", e));
                return out;
            }
        };
        rep.count("forged_chunks_offered", 1);
        match d.verdict {
            Verdict::Rejected => rep.count("forged_chunks_rejected", 1),
            Verdict::Accepted => {
                rep.count("forged_chunks_accepted", 1);
                out.violations.push((
                    format!("never-issued-token-accepted|to={}|keys={}", to, p.keys),
                    format!(
                        "the {} accepted a chunk whose security header names token id {} ({}; tokens issued so far: {:?}, its own token {}) secured with {} [{}] after the healthy prefix {}",
                        to, p.token_id, p.id_class, w.issued, recv_tok, p.keys, cfg.name(), prefix
                    ),
                ));
            }
            Verdict::Panicked => {
                out.violations.push((
                    format!("receive-path-panicked|to={}|{}", to, d.status),
                    format!("forged chunk ({}, {}) [{}] after prefix {}", p.keys, p.id_class, cfg.name(), prefix),
                ));
            }
        }
        out.deliveries.push(d);
    }
    out
}

// ---------------------------------------------------------------------------------------------
// Work list
// ---------------------------------------------------------------------------------------------

#[derive(Clone)]
struct Work {
    kind: &'static str, // "class" (one seeded member), "member" (literal), "probe"
    cfg: Cfg,
    n: usize,
    r: usize,
    c: String,
    s: String,
    sched: String,
    members: u64,
    target_server: bool,
    idx: u64,
}

/// The points at which forged chunks are offered: every distinct local history (own steps plus
/// what the inputs were) of either side over the classes of (n, r)
fn probe_points(cls: &[Class]) -> Vec<(usize, bool, usize)> {
    let mut seen: HashSet<(bool, String)> = HashSet::new();
    let mut out = Vec::new();
    for (ci, cl) in cls.iter().enumerate() {
        let c = cl.c.as_bytes();
        let s = cl.s.as_bytes();
        // what the client sends, with the number of renewals it had applied at that point
        let mut sends: Vec<(u8, usize)> = Vec::new();
        let mut a = 0;
        for ch in c {
            match ch {
                b'a' => a += 1,
                b's' => sends.push((b'M', a)),
                b'r' => sends.push((b'O', a)),
                _ => {}
            }
        }
        // server history annotated with its inputs, and what it writes
        let mut ann_s: Vec<String> = Vec::new();
        let mut written: Vec<(u8, usize)> = Vec::new();
        let mut q: VecDeque<(u8, usize)> = VecDeque::new();
        let (mut vi, mut otok) = (0, 0);
        for ch in s {
            if *ch == b'V' {
                let k = sends[vi];
                vi += 1;
                if k.0 == b'O' {
                    otok += 1;
                }
                q.push_back(k);
                ann_s.push(format!("V{}{}", k.0 as char, k.1));
            } else {
                let k = q.pop_front().unwrap();
                written.push((k.0, otok));
                ann_s.push("W".into());
            }
        }
        let mut ann_c: Vec<String> = Vec::new();
        let mut ri = 0;
        for ch in c {
            if *ch == b'v' {
                let k = written[ri];
                ri += 1;
                ann_c.push(format!("v{}{}", k.0 as char, k.1));
            } else {
                ann_c.push((*ch as char).to_string());
            }
        }
        for j in 0..=s.len() {
            if seen.insert((true, ann_s[..j].join(","))) {
                out.push((ci, true, j));
            }
        }
        for i in 0..=c.len() {
            if seen.insert((false, ann_c[..i].join(","))) {
                out.push((ci, false, i));
            }
        }
    }
    out
}

fn reqs_for(seed: u64, idx: u64, n: usize) -> Vec<u8> {
    let mut rng = Rng::new(seed ^ 0x5EED_C14 ^ idx.wrapping_mul(0x9E37_79B9));
    (0..n).map(|_| if rng.below(4) == 0 { b'e' } else { b'f' }).collect()
}

fn build_work(args: &Args, rep: &mut Report) -> Vec<Work> {
    let thorough = args.thorough();
    let main_cfgs = vec![
        Cfg { policy: SecurityPolicy::Basic256Sha256, mode: MessageSecurityMode::Sign },
        Cfg { policy: SecurityPolicy::Basic256Sha256, mode: MessageSecurityMode::SignAndEncrypt },
        Cfg { policy: SecurityPolicy::Aes128Sha256RsaOaep, mode: MessageSecurityMode::Sign },
        Cfg { policy: SecurityPolicy::Aes128Sha256RsaOaep, mode: MessageSecurityMode::SignAndEncrypt },
    ];
    let extra_cfgs = vec![
        Cfg { policy: SecurityPolicy::Aes256Sha256RsaPss, mode: MessageSecurityMode::Sign },
        Cfg { policy: SecurityPolicy::Aes256Sha256RsaPss, mode: MessageSecurityMode::SignAndEncrypt },
        Cfg { policy: SecurityPolicy::Basic256, mode: MessageSecurityMode::Sign },
        Cfg { policy: SecurityPolicy::Basic256, mode: MessageSecurityMode::SignAndEncrypt },
        Cfg { policy: SecurityPolicy::Basic128Rsa15, mode: MessageSecurityMode::Sign },
        Cfg { policy: SecurityPolicy::Basic128Rsa15, mode: MessageSecurityMode::SignAndEncrypt },
    ];
    // (n requests, r renewals, which configurations, run every member literally?)
    let mut plan: Vec<(usize, usize, bool, bool)> = vec![
        (1, 1, true, true),
        (2, 1, true, thorough),
        (1, 2, true, true),
        (3, 1, true, false),
        (2, 2, true, false),
    ];
    if thorough {
        plan.push((2, 3, true, false));
        plan.push((4, 1, false, false));
        plan.push((3, 2, false, false));
    }
    let probe_bounds: Vec<(usize, usize)> = if thorough { vec![(1, 1), (2, 1), (1, 2), (2, 2), (3, 1)] } else { vec![(1, 1), (2, 1), (1, 2)] };
    let mut work: Vec<Work> = Vec::new();
    let mut idx = 0u64;
    for (n, r, all_cfgs, literal) in plan {
        let cls = classes(n, r);
        let total: u64 = cls.iter().map(|c| c.members).sum();
        if n + r <= 4 {
            let bf = brute_force_count(n, r);
            if bf != total {
                rep.inconclusive(format!("interleaving count for ({},{}) disagrees: classes give {}, scheduler gives {}", n, r, total, bf));
            }
        }
        if args.shard == 0 {
            rep.note(format!("bound n={} r={}: {} interleavings in {} (client order, server order) classes", n, r, total, cls.len()));
        }
        let mut cfgs = main_cfgs.clone();
        if thorough && all_cfgs {
            cfgs.extend(extra_cfgs.iter().copied());
        }
        for (ck, cfg) in cfgs.iter().enumerate() {
            for (k, cl) in cls.iter().enumerate() {
                // the largest bounds: every class once, the four configurations dealt out over the classes
                if !all_cfgs && (k + args.seed as usize) % cfgs.len() != ck {
                    continue;
                }
                let t = Table::new(cl.c.as_bytes(), cl.s.as_bytes());
                let mut rng = Rng::new(args.seed ^ 0xC14 ^ idx.wrapping_mul(0xD6E8_FEB8_6659_FD93));
                work.push(Work {
                    kind: "class",
                    cfg: *cfg,
                    n,
                    r,
                    c: cl.c.clone(),
                    s: cl.s.clone(),
                    sched: t.sample(cl.c.as_bytes(), cl.s.as_bytes(), &mut rng),
                    members: cl.members,
                    target_server: false,
                    idx,
                });
                idx += 1;
            }
        }
        if literal {
            // every member, in the configurations of the main matrix (thorough: (2,2) too, in one)
            for cfg in &main_cfgs {
                for cl in &cls {
                    let t = Table::new(cl.c.as_bytes(), cl.s.as_bytes());
                    for m in t.all(cl.c.as_bytes(), cl.s.as_bytes()) {
                        work.push(Work { kind: "member", cfg: *cfg, n, r, c: cl.c.clone(), s: cl.s.clone(), sched: m, members: 1, target_server: false, idx });
                        idx += 1;
                    }
                }
            }
        }
    }
    if thorough {
        // beyond the exhaustive bounds: a seeded sample of classes
        for (n, r) in [(5usize, 1usize), (4, 2)] {
            let cls = classes(n, r);
            let total: u64 = cls.iter().map(|c| c.members).sum();
            if args.shard == 0 {
                rep.note(format!("bound n={} r={}: {} interleavings in {} classes, of which 1500 classes are sampled", n, r, total, cls.len()));
            }
            let mut rng = Rng::new(args.seed ^ 0x5A_C14 ^ ((n * 16 + r) as u64));
            for _ in 0..1500 {
                let cl = &cls[rng.usize(cls.len())];
                let t = Table::new(cl.c.as_bytes(), cl.s.as_bytes());
                let cfg = main_cfgs[rng.usize(4)];
                work.push(Work {
                    kind: "sampled-class",
                    cfg,
                    n,
                    r,
                    c: cl.c.clone(),
                    s: cl.s.clone(),
                    sched: t.sample(cl.c.as_bytes(), cl.s.as_bytes(), &mut rng),
                    members: cl.members,
                    target_server: false,
                    idx,
                });
                idx += 1;
            }
        }
        // every member of a quarter of the (2,2) classes in one configuration
        let cls = classes(2, 2);
        let cfg = main_cfgs[(args.seed % 4) as usize];
        for (k, cl) in cls.iter().enumerate() {
            if (k as u64 + args.seed) % 4 != 0 {
                continue;
            }
            let t = Table::new(cl.c.as_bytes(), cl.s.as_bytes());
            for m in t.all(cl.c.as_bytes(), cl.s.as_bytes()) {
                work.push(Work { kind: "member", cfg, n: 2, r: 2, c: cl.c.clone(), s: cl.s.clone(), sched: m, members: 1, target_server: false, idx });
                idx += 1;
            }
        }
    }
    for (n, r) in probe_bounds {
        let cls = classes(n, r);
        let pts = probe_points(&cls);
        for cfg in &main_cfgs {
            for (ci, target_server, at) in &pts {
                let cl = &cls[*ci];
                let t = Table::new(cl.c.as_bytes(), cl.s.as_bytes());
                let prefix = t.prefix_to(cl.c.as_bytes(), cl.s.as_bytes(), *target_server, *at);
                work.push(Work { kind: "probe", cfg: *cfg, n, r, c: cl.c.clone(), s: cl.s.clone(), sched: prefix, members: 0, target_server: *target_server, idx });
                idx += 1;
            }
        }
    }
    work
}

fn case_json(w: &Work, reqs: &[u8]) -> Value {
    json!({
        "kind": w.kind,
        "policy": w.cfg.policy.to_str(),
        "mode": mode_name(w.cfg.mode),
        "n": w.n, "r": w.r,
        "schedule": w.sched,
        "requests": String::from_utf8_lossy(reqs),
        "probe_target": if w.kind == "probe" { if w.target_server { "server" } else { "client" } } else { "" },
        "idx": w.idx,
        "class": format!("{} n{} r{} {}", w.kind, w.n, w.r, w.cfg.name()),
    })
}

fn read_replay(path: &str) -> Option<Value> {
    let s = std::fs::read_to_string(path).ok()?;
    let v: Value = serde_json::from_str(&s).ok()?;
    if v.get("case").is_some() {
        Some(v["case"].clone())
    } else {
        Some(v)
    }
}

fn tally(rep: &mut Report, out: &Outcome) {
    for d in &out.deliveries {
        if d.label.starts_with("forged") {
            continue;
        }
        if d.opn {
            rep.count("deliveries_opn", 1);
            continue;
        }
        rep.count("deliveries_msg", 1);
        let key = if d.tag < d.recv_tok {
            if d.recv_seen > d.tag { "deliveries_msg_old_token_after_receiver_saw_newer (no obligation)" } else { "deliveries_msg_old_token_receiver_had_seen_nothing_newer (must accept)" }
        } else if d.tag > d.recv_tok {
            "deliveries_msg_token_newer_than_receiver_token (must accept)"
        } else {
            "deliveries_msg_under_receiver_token (must accept)"
        };
        rep.count(key, 1);
        match d.verdict {
            Verdict::Accepted => rep.count("deliveries_msg_accepted", 1),
            _ => rep.count("deliveries_msg_rejected", 1),
        }
    }
}

pub fn c14(args: &Args, rep: &mut Report) {
    rep.max_samples = 8;
    let env = match Env::new() {
        Ok(e) => e,
        Err(e) => {
            rep.inconclusive(format!("could not build the server/client pair: {}", e));
            return;
        }
    };

    if let Some(path) = &args.replay {
        let case = match read_replay(path) {
            Some(c) => c,
            None => {
                rep.inconclusive("cannot read the replay file");
                return;
            }
        };
        let cfg = match Cfg::from_names(case["policy"].as_str().unwrap_or(""), case["mode"].as_str().unwrap_or("")) {
            Some(c) => c,
            None => {
                rep.inconclusive("replay names an unknown policy or mode");
                return;
            }
        };
        let sched = case["schedule"].as_str().unwrap_or("").to_string();
        let reqs = case["requests"].as_str().unwrap_or("").as_bytes().to_vec();
        rep.begin_case(&case);
        let out = if case["kind"].as_str() == Some("probe") {
            let mut rng = Rng::new(args.seed ^ 0xF0_C14 ^ case["idx"].as_u64().unwrap_or(0));
            run_probes(&env, cfg, &sched, &reqs, case["probe_target"].as_str() == Some("server"), &mut rng, rep)
        } else {
            run_schedule(&env, cfg, &sched, &reqs, true).0
        };
        rep.case(&format!("replay {}", sched));
        tally(rep, &out);
        for h in &out.harness {
            rep.inconclusive(format!("replay: {}", h));
        }
        for (sig, detail) in out.violations {
            rep.violation(sig, detail, case.clone());
        }
        return;
    }

    let work = build_work(args, rep);
    let mut class_members: BTreeMap<String, (Vec<String>, Vec<String>)> = BTreeMap::new();
    let mut classes_seen: HashSet<String> = HashSet::new();
    let mut harness_errors = 0u64;
    // per signature the three shortest witnesses of this shard: (executed steps, idx, detail, case)
    let mut found: BTreeMap<String, Vec<(usize, u64, String, Value)>> = BTreeMap::new();
    let mut found_total = 0u64;
    // the smallest bound in the first configuration runs on shard 0, so that the witness the driver
    // prints first is a smallest one
    let first_cfg = Cfg { policy: SecurityPolicy::Basic256Sha256, mode: MessageSecurityMode::Sign };
    let owner = |w: &Work| -> usize {
        if w.n == 1 && w.r == 1 && w.cfg == first_cfg && w.kind != "member" {
            0
        } else {
            (w.idx as usize) % args.shards
        }
    };
    for w in work.iter().filter(|w| owner(w) == args.shard) {
        let reqs = reqs_for(args.seed, w.idx, w.n);
        let case = case_json(w, &reqs);
        rep.begin_case(&case);
        let class_id = format!("{} n{} r{} {}/{}", w.cfg.name(), w.n, w.r, w.c, w.s);
        let out = if w.kind == "probe" {
            let mut rng = Rng::new(args.seed ^ 0xF0_C14 ^ w.idx);
            let o = run_probes(&env, w.cfg, &w.sched, &reqs, w.target_server, &mut rng, rep);
            rep.case(&format!("probe {} {} after {}", w.cfg.name(), if w.target_server { "server" } else { "client" }, w.sched));
            rep.count("probe_points", 1);
            o
        } else {
            let (o, _) = run_schedule(&env, w.cfg, &w.sched, &reqs, true);
            rep.case(&class_id);
            rep.count("interleavings_executed", 1);
            if w.kind == "class" {
                rep.count("interleavings_covered_by_executed_classes", w.members);
                if classes_seen.insert(class_id.clone()) {
                    rep.count("classes_executed", 1);
                }
            } else if w.kind == "sampled-class" {
                rep.count("classes_sampled_beyond_exhaustive_bounds", 1);
            } else {
                rep.count("interleavings_executed_member_by_member", 1);
                // members of one class must show the same thing to each side (up to where a run stopped)
                let cl: Vec<String> = o.deliveries.iter().filter(|d| !d.to_server).map(|d| d.local()).collect();
                let sv: Vec<String> = o.deliveries.iter().filter(|d| d.to_server).map(|d| d.local()).collect();
                match class_members.get(&class_id) {
                    None => {
                        class_members.insert(class_id.clone(), (cl, sv));
                    }
                    Some((c0, s0)) => {
                        let pc = c0.iter().zip(cl.iter()).all(|(a, b)| a == b);
                        let ps = s0.iter().zip(sv.iter()).all(|(a, b)| a == b);
                        rep.count("class_members_compared", 1);
                        if !pc || !ps {
                            rep.count("class_members_differing", 1);
                            rep.inconclusive(format!("two interleavings of class {} showed different things to one side: {:?}/{:?} vs {:?}/{:?}", class_id, c0, s0, cl, sv));
                        } else if cl.len() > c0.len() || sv.len() > s0.len() {
                            let longer_c = if cl.len() > c0.len() { cl } else { c0.clone() };
                            let longer_s = if sv.len() > s0.len() { sv } else { s0.clone() };
                            class_members.insert(class_id.clone(), (longer_c, longer_s));
                        }
                    }
                }
            }
            o
        };
        tally(rep, &out);
        if out.violations.is_empty() && out.harness.is_empty() {
            rep.sample(json!({"case": case, "deliveries": out.deliveries.iter().map(|d| d.json()).collect::<Vec<_>>()}));
        }
        for h in &out.harness {
            harness_errors += 1;
            if harness_errors <= 5 {
                rep.inconclusive(format!("{} schedule {}: {}", w.cfg.name(), w.sched, h));
            }
        }
        if !out.violations.is_empty() {
            rep.count(if w.kind == "probe" { "probe_points_with_violation" } else { "interleavings_with_violation" }, 1);
        }
        let executed = if w.kind == "probe" {
            w.sched.len()
        } else {
            out.deliveries.last().map(|d| d.step + 1).unwrap_or(w.sched.len())
        };
        for (sig, detail) in out.violations {
            found_total += 1;
            let e = found.entry(sig).or_default();
            if e.len() < 3 || executed < e.last().map(|x| x.0).unwrap_or(0) {
                let mut c = case.clone();
                c["deliveries"] = Value::Array(out.deliveries.iter().map(|d| d.json()).collect());
                e.push((executed, w.idx, detail, c));
                e.sort_by(|a, b| (a.0, a.1).cmp(&(b.0, b.1)));
                e.truncate(3);
            }
        }
    }
    // shortest witnesses first, signatures ordered by their shortest witness
    let mut order: Vec<(usize, String)> = found.iter().map(|(k, v)| (v[0].0, k.clone())).collect();
    order.sort();
    let mut reported = 0u64;
    for (_, sig) in order {
        for (_, _, detail, case) in found.remove(&sig).unwrap_or_default() {
            reported += 1;
            rep.violation(sig.clone(), detail, case);
        }
    }
    if found_total > reported {
        rep.count("violations_total", found_total - reported);
    }
    if harness_errors > 0 {
        rep.count("harness_errors", harness_errors);
    }
}
