//! Session workloads: C19 session gating, C20 user authentication at ActivateSession.
#[allow(unused_imports)]
pub(crate) use vh_common::{common, gen, pki};
pub mod p_c19;
pub mod p_c20;
pub mod p_sess;
pub use p_sess::dispatch;
