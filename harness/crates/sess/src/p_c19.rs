//! C19: only activated sessions on their own connection / current secure channel can use services.
//!
//! Histories over several connections (real `TcpTransport`s of one `Server`) are executed against the
//! real dispatcher while a reference model tracks, per authentication token, {owner connection, bound
//! channel, activated, closed, timed out}. The model follows the *responses* of the session services
//! (which the property exempts) and judges every other, non-discovery request.
use crate::common::*;
use crate::p_sess::*;
use serde_json::{json, Value};
use std::collections::BTreeMap;

use opcua::core::supported_message::SupportedMessage;
use opcua::crypto::SecurityPolicy;
use opcua::server::config::{ServerEndpoint, ServerUserToken, ANONYMOUS_USER_TOKEN_ID};
use opcua::server::comms::transport::Transport;
use opcua::server::prelude::VariableBuilder;
use opcua::types::*;

const SVC_KINDS: [&str; 11] = [
    "read", "write", "browse", "createsub", "addnode", "deletenode", "publish", "translate", "call", "createmon", "deletesubs",
];
/// Services that answer a valid session with a non-fault response whatever the state of the session
const ALWAYS_OK: [&str; 5] = ["read", "write", "browse", "createsub", "translate"];
const N_NODES: usize = 3;

pub struct C19Env {
    pub env: Env,
    pub ns: u16,
    pub var: NodeId,
    pub folder: NodeId,
}

impl C19Env {
    pub fn new(tag: &str) -> Result<C19Env, String> {
        let mut user_tokens = BTreeMap::new();
        user_tokens.insert("u_alice".to_string(), ServerUserToken::user_pass("alice", "pw-alice"));
        let mut endpoints = BTreeMap::new();
        endpoints.insert(
            "e_none".to_string(),
            ServerEndpoint::new_none("/", &[ANONYMOUS_USER_TOKEN_ID.to_string(), "u_alice".to_string()]),
        );
        let env = Env::new(EnvSpec { tag: format!("c19_{}", tag), user_tokens, endpoints, clients_can_modify_address_space: true, own_identity: true })?;
        let (ns, var, folder) = {
            let mut a = env.aspace.write();
            let ns = a.register_namespace("urn:verif:sess").map_err(|_| "register_namespace".to_string())?;
            let folder = NodeId::new(ns, "verif-folder");
            if !a.add_folder_with_id(&folder, "verif-folder", "verif-folder", &NodeId::objects_folder_id()) {
                return Err("cannot add folder".into());
            }
            let var = NodeId::new(ns, "verif-var");
            let ok = VariableBuilder::new(&var, "verif-var", "verif-var")
                .data_type(DataTypeId::Int32)
                .value(0i32)
                .writable()
                .organized_by(&folder)
                .insert(&mut a);
            if !ok {
                return Err("cannot add variable".into());
            }
            (ns, var, folder)
        };
        Ok(C19Env { env, ns, var, folder })
    }

    fn node(&self, k: usize) -> NodeId {
        NodeId::new(self.ns, format!("verif-added-{}", k))
    }

    /// Everything the requests of this workload could change, rendered as a comparable list of strings
    fn digest(&self, conns: &[Conn]) -> Vec<String> {
        let mut d = Vec::new();
        {
            let a = self.env.aspace.read();
            let v = a.get_variable_value(self.var.clone()).ok().and_then(|dv| dv.value);
            d.push(format!("var={:?}", v));
            for k in 0..N_NODES {
                d.push(format!("node{}={}", k, a.node_exists(&self.node(k))));
            }
        }
        let mut sessions: BTreeMap<String, String> = BTreeMap::new();
        let mut total = Vec::new();
        for c in conns {
            let sm = c.t.session_manager();
            let sm = sm.read();
            total.push(sm.len());
            for (id, s) in sm.sessions.iter() {
                let mut s = s.write();
                let activated = s.is_activated();
                let chan = s.secure_channel_id();
                let tok = format!("{}", s.authentication_token());
                let cps = s.verif_browse_continuation_points_len();
                let (pubreq, pubresp, retained, subs) = opcua::verif::server::session_queue_lengths(&mut s);
                sessions.insert(
                    format!("{}", id),
                    format!("tok={} act={} chan={} subs={} pubreq={} pubresp={} retained={} cps={}", tok, activated, chan, subs, pubreq, pubresp, retained, cps),
                );
            }
        }
        d.push(format!("session-counts={:?}", total));
        for (k, v) in sessions {
            d.push(format!("session {}: {}", k, v));
        }
        d
    }

    fn cleanup(&self, conns: &mut Vec<Conn>) {
        for c in conns.iter_mut() {
            c.finish();
        }
        let mut a = self.env.aspace.write();
        for k in 0..N_NODES {
            let n = self.node(k);
            if a.node_exists(&n) {
                a.delete(&n, true);
            }
        }
        let _ = a.set_variable_value(self.var.clone(), 0i32, &DateTime::now(), &DateTime::now());
    }
}

/// Reference model of one CreateSession that the server answered
#[derive(Clone, Debug)]
struct Slot {
    token: NodeId,
    owner: usize,
    bound: (usize, u32),
    activated: bool,
    closed: bool,
    timed_out: bool,
    revised_timeout: f64,
    /// activated and nothing questionable has happened to the session since
    clean: bool,
    subs: Vec<u32>,
    nonce: ByteString,
}

#[derive(Clone, Debug)]
pub struct Finding {
    pub signature: String,
    pub detail: String,
    pub at: usize,
}

#[derive(Default)]
pub struct Stats {
    pub requests: u64,
    pub judged: u64,
    pub forbidden: u64,
    pub forbidden_faulted: u64,
    pub permitted: u64,
    pub permitted_carried_out: u64,
    pub permitted_faulted: u64,
    pub clean_denied: Vec<String>,
    pub faulted_state_checks: u64,
    pub session_service_calls: u64,
    pub discovery_calls: u64,
    pub channel_changes: u64,
    pub timeouts_elapsed: u64,
    pub classes: Vec<String>,
    pub harness_problems: Vec<String>,
    pub permitted_panics: Vec<String>,
    pub reasons: BTreeMap<String, u64>,
}

fn forged_token(k: u64) -> NodeId {
    let mut b = Vec::new();
    for i in 0..4u64 {
        b.extend_from_slice(&fnv64(format!("forged-{}-{}", k, i).as_bytes()).to_le_bytes());
    }
    NodeId::new(0, ByteString::from(b))
}

fn mutate_token(t: &NodeId, how: &str) -> NodeId {
    let bytes: Vec<u8> = match &t.identifier {
        Identifier::ByteString(b) => b.value.clone().unwrap_or_default(),
        _ => vec![],
    };
    match how {
        "flip" => {
            let mut b = bytes;
            if let Some(x) = b.last_mut() {
                *x ^= 1;
            }
            NodeId::new(t.namespace, ByteString::from(b))
        }
        "flipfirst" => {
            let mut b = bytes;
            if let Some(x) = b.first_mut() {
                *x ^= 0x80;
            }
            NodeId::new(t.namespace, ByteString::from(b))
        }
        "trunc" => {
            let mut b = bytes;
            b.pop();
            NodeId::new(t.namespace, ByteString::from(b))
        }
        "extend" => {
            let mut b = bytes;
            b.push(0);
            NodeId::new(t.namespace, ByteString::from(b))
        }
        "ns" => NodeId::new(t.namespace.wrapping_add(1), ByteString::from(bytes)),
        "empty" => NodeId::new(0, ByteString::from(Vec::<u8>::new())),
        _ => NodeId::new(0, 0u32),
    }
}

fn token_of(tok: &Value, slots: &BTreeMap<u64, Slot>) -> (NodeId, &'static str) {
    match tok["k"].as_str().unwrap_or("forged") {
        "sess" => {
            let s = tok["s"].as_u64().unwrap_or(0);
            match slots.get(&s) {
                Some(slot) => (slot.token.clone(), "session-token"),
                None => (forged_token(1000 + s), "forged-token"),
            }
        }
        "null" => (NodeId::null(), "null-token"),
        "mut" => {
            let s = tok["s"].as_u64().unwrap_or(0);
            match slots.get(&s) {
                Some(slot) => (mutate_token(&slot.token, tok["how"].as_str().unwrap_or("flip")), "mutated-token"),
                None => (forged_token(2000 + s), "forged-token"),
            }
        }
        _ => (forged_token(tok["n"].as_u64().unwrap_or(0)), "forged-token"),
    }
}

/// Why the model forbids (or "ok") a gated request with `token` on connection `c`
fn model_verdict(token: &NodeId, c: usize, conns: &[Conn], slots: &BTreeMap<u64, Slot>) -> (&'static str, Option<u64>) {
    let mut best: (&'static str, Option<u64>) = ("unknown-token", None);
    if token.is_null() {
        best = ("null-token", None);
    }
    for (k, s) in slots.iter() {
        if &s.token != token {
            continue;
        }
        let r = if s.closed {
            "closed"
        } else if s.timed_out {
            "timed-out"
        } else if !s.activated {
            "not-activated"
        } else if s.owner != c {
            "other-connection"
        } else if s.bound != (c, conns[c].channel_id) {
            "stale-channel"
        } else {
            "ok"
        };
        if r == "ok" {
            return ("ok", Some(*k));
        }
        best = (r, Some(*k));
    }
    best
}

fn build_service(env: &C19Env, conn: &mut Conn, token: &NodeId, svc: &str, arg: u64, subs_hint: Option<u32>) -> SupportedMessage {
    let h = conn.next_header(token);
    match svc {
        "read" => ReadRequest {
            request_header: h,
            max_age: 0.0,
            timestamps_to_return: TimestampsToReturn::Both,
            nodes_to_read: Some(vec![ReadValueId {
                node_id: env.var.clone(),
                attribute_id: AttributeId::Value as u32,
                index_range: UAString::null(),
                data_encoding: QualifiedName::null(),
            }]),
        }
        .into(),
        "write" => WriteRequest {
            request_header: h,
            nodes_to_write: Some(vec![WriteValue {
                node_id: env.var.clone(),
                attribute_id: AttributeId::Value as u32,
                index_range: UAString::null(),
                value: DataValue::value_only(Variant::Int32(1 + (arg % 1_000_000) as i32)),
            }]),
        }
        .into(),
        "browse" => BrowseRequest {
            request_header: h,
            view: ViewDescription { view_id: NodeId::null(), timestamp: DateTime::null(), view_version: 0 },
            requested_max_references_per_node: 1,
            nodes_to_browse: Some(vec![BrowseDescription {
                node_id: NodeId::objects_folder_id(),
                browse_direction: BrowseDirection::Forward,
                reference_type_id: ReferenceTypeId::HierarchicalReferences.into(),
                include_subtypes: true,
                node_class_mask: 0,
                result_mask: 0x3f,
            }]),
        }
        .into(),
        "createsub" => CreateSubscriptionRequest {
            request_header: h,
            requested_publishing_interval: 1000.0,
            requested_lifetime_count: 30,
            requested_max_keep_alive_count: 10,
            max_notifications_per_publish: 0,
            publishing_enabled: true,
            priority: 0,
        }
        .into(),
        "addnode" => AddNodesRequest {
            request_header: h,
            nodes_to_add: Some(vec![AddNodesItem {
                parent_node_id: env.folder.clone().into(),
                reference_type_id: ReferenceTypeId::Organizes.into(),
                requested_new_node_id: env.node((arg as usize) % N_NODES).into(),
                browse_name: QualifiedName::new(0, format!("added-{}", arg % N_NODES as u64)),
                node_class: NodeClass::Object,
                node_attributes: ExtensionObject::from_encodable(
                    ObjectId::ObjectAttributes_Encoding_DefaultBinary,
                    &ObjectAttributes {
                        specified_attributes: (AttributesMask::DISPLAY_NAME
                            | AttributesMask::DESCRIPTION
                            | AttributesMask::WRITE_MASK
                            | AttributesMask::USER_WRITE_MASK
                            | AttributesMask::EVENT_NOTIFIER)
                            .bits(),
                        display_name: LocalizedText::new("", "added"),
                        description: LocalizedText::new("", "added"),
                        write_mask: 0,
                        user_write_mask: 0,
                        event_notifier: 0,
                    },
                ),
                type_definition: ObjectTypeId::BaseObjectType.into(),
            }]),
        }
        .into(),
        "deletenode" => DeleteNodesRequest {
            request_header: h,
            nodes_to_delete: Some(vec![DeleteNodesItem { node_id: env.node((arg as usize) % N_NODES), delete_target_references: true }]),
        }
        .into(),
        "publish" => PublishRequest { request_header: h, subscription_acknowledgements: None }.into(),
        "translate" => TranslateBrowsePathsToNodeIdsRequest {
            request_header: h,
            browse_paths: Some(vec![BrowsePath {
                starting_node: NodeId::objects_folder_id(),
                relative_path: RelativePath {
                    elements: Some(vec![RelativePathElement {
                        reference_type_id: ReferenceTypeId::HierarchicalReferences.into(),
                        is_inverse: false,
                        include_subtypes: true,
                        target_name: QualifiedName::new(0, "Server"),
                    }]),
                },
            }]),
        }
        .into(),
        "call" => CallRequest {
            request_header: h,
            methods_to_call: Some(vec![CallMethodRequest {
                object_id: ObjectId::Server.into(),
                method_id: MethodId::Server_GetMonitoredItems.into(),
                input_arguments: Some(vec![Variant::UInt32(subs_hint.unwrap_or(1))]),
            }]),
        }
        .into(),
        "createmon" => CreateMonitoredItemsRequest {
            request_header: h,
            subscription_id: subs_hint.unwrap_or(1),
            timestamps_to_return: TimestampsToReturn::Both,
            items_to_create: Some(vec![MonitoredItemCreateRequest {
                item_to_monitor: ReadValueId {
                    node_id: env.var.clone(),
                    attribute_id: AttributeId::Value as u32,
                    index_range: UAString::null(),
                    data_encoding: QualifiedName::null(),
                },
                monitoring_mode: MonitoringMode::Reporting,
                requested_parameters: MonitoringParameters {
                    client_handle: 1,
                    sampling_interval: 1000.0,
                    filter: ExtensionObject::null(),
                    queue_size: 1,
                    discard_oldest: true,
                },
            }]),
        }
        .into(),
        _ => DeleteSubscriptionsRequest { request_header: h, subscription_ids: Some(vec![subs_hint.unwrap_or(1)]) }.into(),
    }
}

fn activate_request(conn: &mut Conn, env: &Env, token: &NodeId, cred: &str, nonce: &ByteString) -> SupportedMessage {
    let plain = |user: &str, pass: &str, policy: &str| {
        user_name_token(&UserNameIdentityToken {
            policy_id: UAString::from(policy),
            user_name: UAString::from(user),
            password: ByteString::from(pass.as_bytes()),
            encryption_algorithm: UAString::null(),
        })
    };
    let user_identity_token = match cred {
        "anon" => anonymous_token("anonymous"),
        "alice" => plain("alice", "pw-alice", "userpass_none"),
        "badpw" => plain("alice", "wrong", "userpass_none"),
        "baduser" => plain("mallory", "pw-alice", "userpass_none"),
        _ => anonymous_token("no-such-policy"),
    };
    ActivateSessionRequest {
        request_header: conn.next_header(token),
        client_signature: client_signature(conn, env, nonce),
        client_software_certificates: None,
        locale_ids: None,
        user_identity_token,
        user_token_signature: SignatureData::null(),
    }
    .into()
}

/// Runs one history on fresh connections and returns what the oracle found
pub fn run_history(cenv: &C19Env, case: &Value, stats: &mut Stats) -> Vec<Finding> {
    let env = &cenv.env;
    let nconn = case["conns"].as_u64().unwrap_or(2).max(1) as usize;
    let mut findings = Vec::new();
    let mut conns: Vec<Conn> = Vec::new();
    let url = format!("{}/", base_url());
    for _ in 0..nconn {
        let mut c = Conn::new(env, SecurityPolicy::None, MessageSecurityMode::None);
        if let Err(e) = c.hello(&url).and_then(|_| c.open(SecurityTokenRequestType::Issue).map(|_| ())) {
            stats.harness_problems.push(format!("connection setup: {}", e));
            conns.push(c);
            cenv.cleanup(&mut conns);
            return findings;
        }
        conns.push(c);
    }
    let mut slots: BTreeMap<u64, Slot> = BTreeMap::new();
    let empty = vec![];
    let ops = case["ops"].as_array().unwrap_or(&empty);
    let mut prev = "start".to_string();
    for (i, op) in ops.iter().enumerate() {
        let kind = op["op"].as_str().unwrap_or("");
        let c = (op["c"].as_u64().unwrap_or(0) as usize) % nconn;
        match kind {
            "open" | "renew" => {
                let rt = if kind == "open" { SecurityTokenRequestType::Issue } else { SecurityTokenRequestType::Renew };
                let before = conns[c].channel_id;
                match conns[c].open(rt) {
                    Ok(id) => {
                        if id != before {
                            stats.channel_changes += 1;
                        }
                    }
                    Err(e) => stats.harness_problems.push(format!("op {} {}: {}", i, kind, e)),
                }
            }
            "create" => {
                let s = op["s"].as_u64().unwrap_or(0);
                let to = match op["to"].as_str() {
                    Some("nan") => f64::NAN,
                    Some(x) => x.parse::<f64>().unwrap_or(60_000.0),
                    None => op["to"].as_f64().unwrap_or(60_000.0),
                };
                let req = create_session_request(&mut conns[c], env, &url, to, &format!("s{}", s));
                let out = conns[c].request(req.into());
                stats.session_service_calls += 1;
                match out {
                    Outcome::Response(SupportedMessage::CreateSessionResponse(r)) => {
                        if slots.values().any(|x| x.token == r.authentication_token) {
                            *stats.reasons.entry("observed_authentication_token_reused".to_string()).or_insert(0) += 1;
                        }
                        slots.insert(
                            s,
                            Slot {
                                token: r.authentication_token.clone(),
                                owner: c,
                                bound: (c, conns[c].channel_id),
                                activated: false,
                                closed: false,
                                timed_out: false,
                                revised_timeout: r.revised_session_timeout,
                                clean: false,
                                subs: vec![],
                                nonce: r.server_nonce.clone(),
                            },
                        );
                    }
                    Outcome::Panic(p) => findings.push(Finding { signature: p.signature(), detail: format!("CreateSession panicked: {} at {}:{}", p.msg, p.file, p.line), at: i }),
                    _ => {}
                }
            }
            "activate" => {
                let s = op["s"].as_u64().unwrap_or(0);
                let cred = op["cred"].as_str().unwrap_or("anon");
                let (mut token, nonce) = match slots.get(&s) {
                    Some(x) => (x.token.clone(), x.nonce.clone()),
                    None => (forged_token(3000 + s), ByteString::null()),
                };
                // an explicit token (null, forged, mutated) instead of the one the server issued
                let explicit = op.get("tok").is_some();
                if explicit {
                    token = token_of(&op["tok"], &slots).0;
                }
                let req = activate_request(&mut conns[c], env, &token, cred, &nonce);
                let chan = conns[c].channel_id;
                let out = conns[c].request(req);
                stats.session_service_calls += 1;
                match out {
                    Outcome::Response(SupportedMessage::ActivateSessionResponse(_)) if explicit && !slots.values().any(|x| x.token == token) => {
                        *stats.reasons.entry("observed_session_service_good_for_token_never_issued".to_string()).or_insert(0) += 1;
                    }
                    Outcome::Response(SupportedMessage::ActivateSessionResponse(r)) => {
                        if let Some(x) = slots.get_mut(&s) {
                            if x.closed {
                                findings.push(Finding {
                                    signature: "closed-token-accepted|ActivateSession".into(),
                                    detail: format!("ActivateSession succeeded with the token of session slot {} after its CloseSession was answered Good", s),
                                    at: i,
                                });
                            }
                            x.activated = true;
                            x.owner = c;
                            x.bound = (c, chan);
                            // a short real timeout can elapse on the wall clock; such a session is not a liveness witness
                            x.clean = !x.closed && !x.timed_out && !(x.revised_timeout > 0.0 && x.revised_timeout < 10_000.0);
                            x.nonce = r.server_nonce.clone();
                        } else {
                            *stats.reasons.entry("observed_session_service_good_for_token_never_issued".to_string()).or_insert(0) += 1;
                        }
                    }
                    Outcome::Panic(p) => findings.push(Finding { signature: p.signature(), detail: format!("ActivateSession panicked: {} at {}:{}", p.msg, p.file, p.line), at: i }),
                    _ => {
                        // a refused activation may or may not leave the session usable; the model stays permissive
                        if let Some(x) = slots.get_mut(&s) {
                            x.clean = false;
                        }
                    }
                }
            }
            "close" => {
                let s = op["s"].as_u64().unwrap_or(0);
                let mut token = match slots.get(&s) {
                    Some(x) => x.token.clone(),
                    None => forged_token(4000 + s),
                };
                let explicit = op.get("tok").is_some();
                if explicit {
                    token = token_of(&op["tok"], &slots).0;
                }
                let h = conns[c].next_header(&token);
                let out = conns[c].request(CloseSessionRequest { request_header: h, delete_subscriptions: op["del"].as_bool().unwrap_or(true) }.into());
                stats.session_service_calls += 1;
                match out {
                    Outcome::Response(SupportedMessage::CloseSessionResponse(_)) if explicit && !slots.values().any(|x| x.token == token) => {
                        *stats.reasons.entry("observed_session_service_good_for_token_never_issued".to_string()).or_insert(0) += 1;
                    }
                    Outcome::Response(SupportedMessage::CloseSessionResponse(_)) => {
                        if let Some(x) = slots.get_mut(&s) {
                            if x.closed {
                                findings.push(Finding {
                                    signature: "closed-token-accepted|CloseSession".into(),
                                    detail: format!("a second CloseSession with the token of session slot {} was answered Good", s),
                                    at: i,
                                });
                            }
                            x.closed = true;
                            x.clean = false;
                        } else {
                            *stats.reasons.entry("observed_session_service_good_for_token_never_issued".to_string()).or_insert(0) += 1;
                        }
                    }
                    Outcome::Panic(p) => findings.push(Finding { signature: p.signature(), detail: format!("CloseSession panicked: {} at {}:{}", p.msg, p.file, p.line), at: i }),
                    _ => {}
                }
            }
            "elapse" => {
                let s = op["s"].as_u64().unwrap_or(0);
                let how = op["how"].as_str().unwrap_or("beyond");
                if let Some(x) = slots.get_mut(&s) {
                    if !x.closed && x.revised_timeout.is_finite() && x.revised_timeout > 0.0 {
                        if let Some(sess) = find_session(&conns, &x.token) {
                            let mut sess = sess.write();
                            let back_ms = if how == "beyond" { x.revised_timeout + 25.0 } else { (x.revised_timeout - 5000.0).max(0.0) };
                            let ts = chrono::Utc::now() - chrono::Duration::microseconds((back_ms * 1000.0) as i64);
                            // time only passes: the last-request time is never moved towards the present
                            if (how == "beyond" || x.revised_timeout >= 10_000.0) && ts < sess.last_service_request_timestamp() {
                                sess.set_last_service_request_timestamp(ts);
                            }
                            if how == "beyond" {
                                x.timed_out = true;
                                x.clean = false;
                                stats.timeouts_elapsed += 1;
                            }
                        }
                    }
                }
            }
            "disc" => {
                let (token, _) = token_of(&op["tok"], &slots);
                let h = conns[c].next_header(&token);
                let req: SupportedMessage = if op["svc"].as_str() == Some("findservers") {
                    FindServersRequest { request_header: h, endpoint_url: UAString::from(url.as_str()), locale_ids: None, server_uris: None }.into()
                } else {
                    GetEndpointsRequest { request_header: h, endpoint_url: UAString::from(url.as_str()), locale_ids: None, profile_uris: None }.into()
                };
                let out = conns[c].request(req);
                stats.discovery_calls += 1;
                if let Outcome::Panic(p) = out {
                    findings.push(Finding { signature: p.signature(), detail: format!("discovery request panicked: {} at {}:{}", p.msg, p.file, p.line), at: i });
                }
            }
            "svc" => {
                let svc = op["svc"].as_str().unwrap_or("read");
                let (token, tkind) = token_of(&op["tok"], &slots);
                let (reason, slot_key) = model_verdict(&token, c, &conns, &slots);
                let subs_hint = slot_key.and_then(|k| slots.get(&k)).and_then(|x| x.subs.last().cloned());
                let arg = op["arg"].as_u64().unwrap_or(i as u64);
                let req = build_service(cenv, &mut conns[c], &token, svc, arg, subs_hint);
                let before = cenv.digest(&conns);
                let out = conns[c].request(req);
                let after = cenv.digest(&conns);
                stats.requests += 1;
                stats.judged += 1;
                *stats.reasons.entry(format!("situation_{}_{}", reason, tkind)).or_insert(0) += 1;
                stats.classes.push(format!("{}|{}|{}|after-{}", svc, tkind, reason, prev));
                if let Outcome::Panic(p) = &out {
                    if reason != "ok" {
                        findings.push(Finding {
                            signature: format!("{}|{}", p.signature(), reason),
                            detail: format!("{} request that the model forbids ({}) panicked instead of being answered with a ServiceFault: {} at {}:{}", svc, reason, p.msg, p.file, p.line),
                            at: i,
                        });
                    } else {
                        stats.permitted_panics.push(format!("{} at {}:{}", svc, p.file, p.line));
                    }
                    prev = kind.to_string();
                    continue;
                }
                if let Outcome::TransportError(s) = &out {
                    stats.harness_problems.push(format!("op {} {}: handle_message returned {}", i, svc, s));
                    prev = kind.to_string();
                    continue;
                }
                let faulted = out.is_fault();
                if faulted {
                    stats.faulted_state_checks += 1;
                    if before != after {
                        let what: Vec<String> = after.iter().filter(|l| !before.contains(l)).cloned().collect();
                        let gone: Vec<String> = before.iter().filter(|l| !after.contains(l)).cloned().collect();
                        let key = what.first().or(gone.first()).map(|s| s.split(|c| c == '=' || c == ':').next().unwrap_or("?").split(' ').next().unwrap_or("?").to_string()).unwrap_or_default();
                        let key: String = key.chars().filter(|c| !c.is_ascii_digit()).collect();
                        findings.push(Finding {
                            signature: format!("state-changed-by-faulted-request|{}|{}", svc, key),
                            detail: format!(
                                "{} on connection {} with a {} (model: {}) was answered {} but observable state changed: now {:?}, before {:?}",
                                svc, c, tkind, reason, out.short(), what, gone
                            ),
                            at: i,
                        });
                    }
                }
                if reason != "ok" {
                    stats.forbidden += 1;
                    if faulted {
                        stats.forbidden_faulted += 1;
                    } else {
                        findings.push(Finding {
                            signature: format!("gated-service-carried-out|{}|{}", reason, tkind),
                            detail: format!(
                                "{} on connection {} (channel {}) with a {} was answered {} although the reference model forbids it: {}{}",
                                svc,
                                c,
                                conns[c].channel_id,
                                tkind,
                                out.short(),
                                reason,
                                slot_key.and_then(|k| slots.get(&k)).map(|x| format!(" (session slot owner connection {}, bound channel {:?}, activated {}, closed {}, timed out {})", x.owner, x.bound, x.activated, x.closed, x.timed_out)).unwrap_or_default()
                            ),
                            at: i,
                        });
                    }
                } else {
                    stats.permitted += 1;
                    if faulted {
                        stats.permitted_faulted += 1;
                        *stats.reasons.entry(format!("permitted_but_faulted_{}_{}", svc, out.short())).or_insert(0) += 1;
                        let clean = slot_key.and_then(|k| slots.get(&k)).map(|x| x.clean).unwrap_or(false);
                        if clean && ALWAYS_OK.contains(&svc) {
                            stats.clean_denied.push(format!("{} -> {}", svc, out.short()));
                        }
                    } else {
                        stats.permitted_carried_out += 1;
                        if let Outcome::Response(SupportedMessage::CreateSubscriptionResponse(r)) = &out {
                            if let Some(x) = slot_key.and_then(|k| slots.get_mut(&k)) {
                                x.subs.push(r.subscription_id);
                            }
                        }
                    }
                }
            }
            _ => {}
        }
        prev = kind.to_string();
    }
    cenv.cleanup(&mut conns);
    findings
}

// ------------------------------------------------------------------------------------------------
// History generation
// ------------------------------------------------------------------------------------------------

fn svc_op(c: usize, tok: Value, svc: &str, arg: u64) -> Value {
    json!({"op": "svc", "c": c, "tok": tok, "svc": svc, "arg": arg})
}

fn sess_tok(s: u64) -> Value {
    json!({"k": "sess", "s": s})
}

/// The attack shapes worth enumerating for every service kind
fn scripted() -> Vec<Value> {
    let mut v = Vec::new();
    let create = |c: usize, s: u64| json!({"op": "create", "c": c, "s": s, "to": 60000.0});
    let act = |c: usize, s: u64, cred: &str| json!({"op": "activate", "c": c, "s": s, "cred": cred});
    let close = |c: usize, s: u64| json!({"op": "close", "c": c, "s": s, "del": true});
    for (n, svc) in SVC_KINDS.iter().enumerate() {
        let a = n as u64 + 7;
        let mut add = |shape: &str, conns: u64, ops: Vec<Value>| {
            v.push(json!({"class": format!("scripted:{}:{}", shape, svc), "conns": conns, "ops": ops}));
        };
        // a subscription exists wherever one helps the service to do something
        let warm = |c: usize, s: u64| svc_op(c, sess_tok(s), "createsub", 1);
        add("baseline", 1, vec![create(0, 0), act(0, 0, "anon"), warm(0, 0), svc_op(0, sess_tok(0), svc, a)]);
        add("not-activated", 1, vec![create(0, 0), svc_op(0, sess_tok(0), svc, a)]);
        add("bad-activation", 1, vec![create(0, 0), act(0, 0, "badpw"), svc_op(0, sess_tok(0), svc, a)]);
        add("other-connection", 2, vec![create(0, 0), act(0, 0, "anon"), warm(0, 0), svc_op(1, sess_tok(0), svc, a), svc_op(0, sess_tok(0), svc, a)]);
        add(
            "other-connection-own-session",
            2,
            vec![create(0, 0), act(0, 0, "anon"), warm(0, 0), create(1, 1), act(1, 1, "alice"), svc_op(1, sess_tok(0), svc, a), svc_op(0, sess_tok(1), svc, a)],
        );
        add(
            "stale-channel",
            1,
            vec![create(0, 0), act(0, 0, "anon"), warm(0, 0), json!({"op": "open", "c": 0}), svc_op(0, sess_tok(0), svc, a), act(0, 0, "anon"), svc_op(0, sess_tok(0), svc, a)],
        );
        add("renewed-channel", 1, vec![create(0, 0), act(0, 0, "anon"), warm(0, 0), json!({"op": "renew", "c": 0}), svc_op(0, sess_tok(0), svc, a)]);
        add(
            "closed",
            1,
            vec![create(0, 0), act(0, 0, "anon"), warm(0, 0), close(0, 0), svc_op(0, sess_tok(0), svc, a), act(0, 0, "anon"), svc_op(0, sess_tok(0), svc, a), close(0, 0)],
        );
        add(
            "timed-out",
            1,
            vec![create(0, 0), act(0, 0, "anon"), warm(0, 0), json!({"op": "elapse", "s": 0, "how": "beyond"}), svc_op(0, sess_tok(0), svc, a), svc_op(0, sess_tok(0), svc, a + 1), act(0, 0, "anon"), svc_op(0, sess_tok(0), svc, a + 2)],
        );
        add("within-timeout", 1, vec![create(0, 0), act(0, 0, "anon"), warm(0, 0), json!({"op": "elapse", "s": 0, "how": "within"}), svc_op(0, sess_tok(0), svc, a)]);
        add(
            "transferred",
            2,
            vec![create(0, 0), act(0, 0, "anon"), warm(0, 0), act(1, 0, "anon"), svc_op(0, sess_tok(0), svc, a), svc_op(1, sess_tok(0), svc, a + 1)],
        );
        add("first-activation-on-new-channel", 1, vec![create(0, 0), json!({"op": "open", "c": 0}), act(0, 0, "anon"), svc_op(0, sess_tok(0), svc, a)]);
        add("both-reopened", 2, vec![create(0, 0), act(0, 0, "anon"), warm(0, 0), json!({"op": "open", "c": 1}), json!({"op": "open", "c": 0}), svc_op(0, sess_tok(0), svc, a), svc_op(1, sess_tok(0), svc, a)]);
        for how in ["flip", "flipfirst", "trunc", "extend", "ns", "empty", "numeric"] {
            add(&format!("mutated-{}", how), 1, vec![create(0, 0), act(0, 0, "anon"), warm(0, 0), svc_op(0, json!({"k": "mut", "s": 0, "how": how}), svc, a)]);
        }
        add("null-token", 1, vec![create(0, 0), act(0, 0, "anon"), warm(0, 0), svc_op(0, json!({"k": "null"}), svc, a), close(0, 0), svc_op(0, json!({"k": "null"}), svc, a)]);
        add(
            "null-token-session-services",
            1,
            vec![
                create(0, 0),
                act(0, 0, "anon"),
                close(0, 0),
                json!({"op": "activate", "c": 0, "s": 0, "cred": "anon", "tok": {"k": "null"}}),
                svc_op(0, json!({"k": "null"}), svc, a),
                json!({"op": "close", "c": 0, "s": 0, "del": true, "tok": {"k": "null"}}),
                svc_op(0, json!({"k": "null"}), svc, a),
            ],
        );
        add("forged-token", 1, vec![create(0, 0), act(0, 0, "anon"), svc_op(0, json!({"k": "forged", "n": 1}), svc, a)]);
        add("no-session-at-all", 1, vec![svc_op(0, json!({"k": "null"}), svc, a), svc_op(0, json!({"k": "forged", "n": 2}), svc, a)]);
        add(
            "reactivation-refused",
            1,
            vec![create(0, 0), act(0, 0, "anon"), warm(0, 0), act(0, 0, "badpw"), svc_op(0, sess_tok(0), svc, a), act(0, 0, "alice"), svc_op(0, sess_tok(0), svc, a)],
        );
    }
    v
}

fn random_history(rng: &mut Rng, thorough: bool) -> Value {
    let nconn = 1 + rng.usize(3);
    let len = if thorough { 6 + rng.usize(55) } else { 4 + rng.usize(37) };
    let mut ops: Vec<Value> = Vec::new();
    // what the generator believes: (slot id, creating connection, believed activated, believed live)
    let mut created: Vec<(u64, usize, bool, bool)> = Vec::new();
    let mut next_slot = 0u64;
    let timeouts = ["60000", "10000", "1000000000", "30000.5", "12000", "0", "-1", "nan", "1"];
    let creds = ["anon", "anon", "alice", "alice", "badpw", "baduser", "badpolicy"];
    let hows = ["flip", "flipfirst", "trunc", "extend", "ns", "empty", "numeric"];
    // a bias per history so that some histories are dominated by attacks and some by regular use
    let hostile = rng.below(100);
    for n in 0..len {
        let live: Vec<(u64, usize, bool, bool)> = created.iter().filter(|x| x.3).cloned().collect();
        let pick_slot = |rng: &mut Rng, created: &Vec<(u64, usize, bool, bool)>| -> Option<(u64, usize, bool, bool)> {
            if created.is_empty() {
                None
            } else if rng.chance(3, 4) {
                Some(created[created.len() - 1 - rng.usize(created.len().min(2))])
            } else {
                Some(*rng.pick(created))
            }
        };
        let roll = rng.below(100);
        if created.is_empty() || (roll < 8 && live.len() < 4) {
            let c = rng.usize(nconn);
            let to = if rng.chance(3, 4) { "60000" } else { *rng.pick(&timeouts) };
            ops.push(json!({"op": "create", "c": c, "s": next_slot, "to": to}));
            let mut activated = false;
            if rng.chance(3, 4) {
                let cred = if rng.chance(4, 5) { *rng.pick(&["anon", "alice"]) } else { *rng.pick(&creds) };
                ops.push(json!({"op": "activate", "c": c, "s": next_slot, "cred": cred}));
                activated = cred == "anon" || cred == "alice";
            }
            created.push((next_slot, c, activated, true));
            next_slot += 1;
        } else if roll < 20 {
            let s = pick_slot(rng, &created).unwrap();
            let c = if rng.below(100) < 75 { s.1 } else { rng.usize(nconn) };
            let cred = if rng.chance(2, 3) { *rng.pick(&["anon", "alice"]) } else { *rng.pick(&creds) };
            if rng.chance(1, 12) {
                let tok = match rng.below(3) {
                    0 => json!({"k": "null"}),
                    1 => json!({"k": "forged", "n": rng.below(5)}),
                    _ => json!({"k": "mut", "s": s.0, "how": *rng.pick(&hows)}),
                };
                ops.push(json!({"op": "activate", "c": c, "s": s.0, "cred": cred, "tok": tok}));
                continue;
            }
            ops.push(json!({"op": "activate", "c": c, "s": s.0, "cred": cred}));
            if cred == "anon" || cred == "alice" {
                for x in created.iter_mut() {
                    if x.0 == s.0 {
                        x.2 = true;
                        x.1 = c;
                    }
                }
            }
        } else if roll < 25 {
            let s = pick_slot(rng, &created).unwrap();
            let c = if rng.below(100) < 80 { s.1 } else { rng.usize(nconn) };
            if rng.chance(1, 10) {
                let tok = if rng.bool() { json!({"k": "null"}) } else { json!({"k": "mut", "s": s.0, "how": *rng.pick(&hows)}) };
                ops.push(json!({"op": "close", "c": c, "s": s.0, "del": rng.bool(), "tok": tok}));
                continue;
            }
            ops.push(json!({"op": "close", "c": c, "s": s.0, "del": rng.bool()}));
            for x in created.iter_mut() {
                if x.0 == s.0 {
                    x.3 = false;
                }
            }
        } else if roll < 31 {
            ops.push(json!({"op": if rng.chance(3, 4) { "open" } else { "renew" }, "c": rng.usize(nconn)}));
        } else if roll < 36 {
            let s = pick_slot(rng, &created).unwrap();
            ops.push(json!({"op": "elapse", "s": s.0, "how": if rng.chance(3, 4) { "beyond" } else { "within" }}));
        } else if roll < 39 {
            let tok = if rng.bool() { json!({"k": "null"}) } else { json!({"k": "forged", "n": rng.below(5)}) };
            ops.push(json!({"op": "disc", "c": rng.usize(nconn), "tok": tok, "svc": if rng.bool() { "findservers" } else { "getendpoints" }}));
        } else {
            // mostly aim at sessions believed to be usable: that is where a gating mistake has something to lose
            let usable: Vec<(u64, usize, bool, bool)> = created.iter().filter(|x| x.2 && x.3).cloned().collect();
            let s = if !usable.is_empty() && rng.chance(7, 10) { *rng.pick(&usable) } else { pick_slot(rng, &created).unwrap() };
            let c = if rng.below(100) < 100 - hostile / 2 { s.1 } else { rng.usize(nconn) };
            let t = rng.below(100);
            let tok = if t < 100 - hostile / 3 - 5 {
                sess_tok(s.0)
            } else {
                match rng.below(3) {
                    0 => json!({"k": "null"}),
                    1 => json!({"k": "forged", "n": rng.below(5)}),
                    _ => json!({"k": "mut", "s": s.0, "how": *rng.pick(&hows)}),
                }
            };
            let svc = if rng.chance(1, 5) { "createsub" } else { *rng.pick(&SVC_KINDS) };
            ops.push(svc_op(c, tok, svc, n as u64 + 1));
        }
    }
    json!({"class": format!("random:conns{}:len{}", nconn, len / 10 * 10), "conns": nconn, "ops": ops})
}

/// Greedy removal of operations while the same signature is still produced
fn minimise(cenv: &C19Env, case: &Value, signature: &str) -> Value {
    let mut ops: Vec<Value> = case["ops"].as_array().cloned().unwrap_or_default();
    let conns = case["conns"].clone();
    let mut budget = 400;
    let mut changed = true;
    while changed && budget > 0 {
        changed = false;
        let mut i = ops.len();
        while i > 0 && budget > 0 {
            i -= 1;
            let mut cand = ops.clone();
            cand.remove(i);
            let c = json!({"class": case["class"], "conns": conns, "ops": cand});
            let mut st = Stats::default();
            budget -= 1;
            if run_history(cenv, &c, &mut st).iter().any(|f| f.signature == signature) {
                ops = c["ops"].as_array().cloned().unwrap_or_default();
                changed = true;
            }
        }
    }
    json!({"class": case["class"], "conns": conns, "ops": ops, "minimised": true})
}

fn account(rep: &mut Report, st: &Stats) {
    rep.count("gated_requests_judged", st.judged);
    rep.count("model_forbids", st.forbidden);
    rep.count("model_forbids_and_faulted", st.forbidden_faulted);
    rep.count("model_permits", st.permitted);
    rep.count("model_permits_and_carried_out", st.permitted_carried_out);
    rep.count("model_permits_but_faulted", st.permitted_faulted);
    rep.count("faulted_requests_state_compared", st.faulted_state_checks);
    rep.count("session_service_calls", st.session_service_calls);
    rep.count("discovery_calls", st.discovery_calls);
    rep.count("secure_channel_id_changes", st.channel_changes);
    rep.count("session_timeouts_elapsed", st.timeouts_elapsed);
    for (k, v) in &st.reasons {
        rep.count(k, *v);
    }
}

pub fn c19(args: &Args, rep: &mut Report) {
    let cenv = match C19Env::new(&format!("{}_{}", args.seed, args.shard)) {
        Ok(e) => e,
        Err(e) => {
            rep.inconclusive(format!("cannot set the server up: {}", e));
            return;
        }
    };
    let mut cases: Vec<Value> = Vec::new();
    if let Some(path) = &args.replay {
        match read_replay(path) {
            Some(c) => cases.push(c),
            None => {
                rep.inconclusive("cannot read replay file");
                return;
            }
        }
    } else {
        for (i, c) in scripted().into_iter().enumerate() {
            if i % args.shards == args.shard {
                cases.push(c);
            }
        }
        let mut rng = Rng::new(args.seed ^ 0xC19 ^ ((args.shard as u64) << 32));
        let n = args.budget(2400, 40_000);
        for _ in 0..n {
            cases.push(random_history(&mut rng, args.thorough()));
        }
    }
    let mut clean_denied: Vec<String> = Vec::new();
    let mut problems: Vec<String> = Vec::new();
    let mut permitted_panics: Vec<String> = Vec::new();
    let mut minimised_for: Vec<String> = Vec::new();
    for case in cases {
        rep.begin_case(&case);
        let mut st = Stats::default();
        let findings = run_history(&cenv, &case, &mut st);
        rep.count("histories", 1);
        account(rep, &st);
        for cl in &st.classes {
            rep.case(cl);
        }
        if st.classes.is_empty() {
            rep.case_trivial();
        }
        rep.sample(case.clone());
        clean_denied.extend(st.clean_denied.iter().cloned());
        problems.extend(st.harness_problems.iter().cloned());
        permitted_panics.extend(st.permitted_panics.iter().cloned());
        let mut seen: Vec<String> = Vec::new();
        for f in findings {
            if seen.contains(&f.signature) {
                rep.count("violations_total", 1);
                continue;
            }
            seen.push(f.signature.clone());
            // a short witness: minimise the first history per signature, keep the others as they are
            let witness = if !minimised_for.contains(&f.signature) && args.replay.is_none() {
                minimised_for.push(f.signature.clone());
                minimise(&cenv, &case, &f.signature)
            } else {
                case.clone()
            };
            rep.violation(f.signature.clone(), format!("at operation {} of the original history: {}", f.at, f.detail), witness);
        }
    }
    if !clean_denied.is_empty() {
        rep.count("clean_session_denied", clean_denied.len() as u64);
        clean_denied.sort();
        clean_denied.dedup();
        rep.inconclusive(format!(
            "a freshly activated session on its own connection and channel was refused a plain service ({}); the gating cannot be told from a server that refuses everything",
            clean_denied.join("; ")
        ));
    }
    if !permitted_panics.is_empty() {
        rep.count("panics_inside_permitted_services", permitted_panics.len() as u64);
        permitted_panics.sort();
        permitted_panics.dedup();
        rep.note(format!("panics inside services that the session was entitled to call (not this property's concern): {}", permitted_panics.join("; ")));
    }
    if !problems.is_empty() {
        rep.count("harness_problems", problems.len() as u64);
        problems.sort();
        problems.dedup();
        problems.truncate(5);
        rep.inconclusive(format!("harness could not drive the server as intended: {}", problems.join("; ")));
    }
    if args.replay.is_none() && rep.counters.get("model_permits_and_carried_out").cloned().unwrap_or(0) == 0 {
        rep.inconclusive("no permitted request was ever carried out");
    }
}
