//! C20: ActivateSession authenticates the user exactly as the endpoint is configured.
//!
//! One real `Server` hosts a small universe of endpoints (user-token sets x password policies x channel
//! security); a second one is the same server deployed without an application instance certificate and private
//! key (empty PKI directory), which can only offer the None/None endpoints and cannot decrypt anything. Every case creates a session on one endpoint through a real transport whose secure channel
//! was opened with a real OPN, then sends one or more ActivateSession requests whose identity tokens are
//! built field by field (right and wrong policy ids, users, passwords, encryption algorithms, nonces,
//! certificates, signatures). The oracle is `expect()`, a reference function over the universe tables.
#![allow(dead_code)]
use crate::common::*;
use crate::p_sess::*;
use serde_json::{json, Value};
use std::collections::BTreeMap;

use opcua::core::supported_message::SupportedMessage;
use opcua::crypto::{user_identity, KeySize, RsaPadding, SecurityPolicy};
use opcua::server::comms::transport::Transport;
use opcua::server::config::{ServerEndpoint, ServerUserToken, ANONYMOUS_USER_TOKEN_ID};
use opcua::types::*;

// Part 7 algorithm URIs (the repository keeps its copies private)
const ENC_RSA_15: &str = "http://www.w3.org/2001/04/xmlenc#rsa-1_5";
const ENC_RSA_OAEP: &str = "http://www.w3.org/2001/04/xmlenc#rsa-oaep";
const ENC_RSA_OAEP_SHA256: &str = "http://opcfoundation.org/UA/security/rsa-oaep-sha2-256";

// ------------------------------------------------------------------------------------------------
// The universe
// ------------------------------------------------------------------------------------------------

/// (token id, user name, password) of the user/password users known to the server
const USERS: [(&str, &str, &str); 4] = [
    ("u_alice", "alice", "pw-alice"),
    ("u_bob", "bob", ""),
    ("u_carol", "carol", "P\u{e4}ssw\u{f6}rd-\u{20ac}"),
    ("u_dave", "dave", "pw-dave"),
];
/// (token id, user name, identity) of the X.509 users known to the server
const XUSERS: [(&str, &str, &str); 2] = [("u_x1", "xuser1", "x1"), ("u_x2", "xuser2", "x2")];

/// Named sets of user token ids an endpoint may list
const SETS: [(&str, &[&str]); 7] = [
    ("anon", &["ANONYMOUS"]),
    ("users", &["u_alice", "u_bob", "u_carol"]),
    ("anonalice", &["ANONYMOUS", "u_alice"]),
    ("x1", &["u_x1"]),
    ("all", &["ANONYMOUS", "u_alice", "u_bob", "u_carol", "u_x1"]),
    ("empty", &[]),
    ("davex2", &["u_dave", "u_x2"]),
];
/// Password security policy of the endpoint ("unset" = follow the endpoint's own policy)
const PWPOLS: [&str; 3] = ["unset", "Basic128Rsa15", "Basic256Sha256"];
/// Channel security
const SECS: [(&str, &str); 5] = [
    ("None", "None"),
    ("Basic128Rsa15", "Sign"),
    ("Basic256Sha256", "SignAndEncrypt"),
    ("Aes128Sha256RsaOaep", "Sign"),
    ("Aes256Sha256RsaPss", "SignAndEncrypt"),
];

/// The servers of the universe: "main" owns a certificate and private key, "nokey" has an empty PKI directory
const SERVERS: [&str; 2] = ["main", "nokey"];
/// User-token sets the server without a key hosts (on None/None with each password policy)
const NOKEY_SETS: [&str; 5] = ["anon", "users", "anonalice", "all", "empty"];

fn server_hosts(server: &str, set: &str, sec: &str) -> bool {
    server != "nokey" || (sec == "None" && NOKEY_SETS.contains(&set))
}

fn set_ids(set: &str) -> &'static [&'static str] {
    SETS.iter().find(|s| s.0 == set).map(|s| s.1).unwrap_or(&[])
}

fn set_allows_anonymous(set: &str) -> bool {
    set_ids(set).contains(&ANONYMOUS_USER_TOKEN_ID)
}

/// The configured password of `user` on an endpoint listing `set`, if it is a user/password user there
fn set_password_of(set: &str, user: &str) -> Option<&'static str> {
    USERS.iter().find(|u| u.1 == user && set_ids(set).contains(&u.0)).map(|u| u.2)
}

fn set_has_userpass(set: &str) -> bool {
    USERS.iter().any(|u| set_ids(set).contains(&u.0))
}

fn set_has_x509_ident(set: &str, ident: &str) -> bool {
    XUSERS.iter().any(|u| u.2 == ident && set_ids(set).contains(&u.0))
}

fn set_has_x509(set: &str) -> bool {
    XUSERS.iter().any(|u| set_ids(set).contains(&u.0))
}

/// Policy id the server is expected to advertise for user name tokens
fn expected_userpass_policy_id(pwpol: &str, sec_policy: &str) -> &'static str {
    let effective = if pwpol == "unset" { sec_policy } else { pwpol };
    match effective {
        "None" => "userpass_none",
        "Basic128Rsa15" => "userpass_rsa_15",
        _ => "userpass_rsa_oaep",
    }
}

fn path_of(set: &str, pwpol: &str) -> String {
    format!("/{}_{}", set, pwpol.to_lowercase())
}

pub struct C20Env {
    pub env: Env,
    /// the same configuration on a server without certificate and private key (None/None endpoints only);
    /// its `srv` identity is merely a certificate a client may encrypt for, the server does not hold the key
    pub nokey: Env,
    pub x: BTreeMap<String, Ident>,
}

impl C20Env {
    fn env_of(&self, server: &str) -> &Env {
        if server == "nokey" {
            &self.nokey
        } else {
            &self.env
        }
    }
}

impl C20Env {
    pub fn new(tag: &str) -> Result<C20Env, String> {
        let mut x = BTreeMap::new();
        for n in ["x1", "x2", "x3"] {
            x.insert(n.to_string(), load_ident(&format!("sessX{}", &n[1..]), 2048)?);
        }
        // the certificate files the configuration points at
        let cert_dir = crate::pki::scratch_dir(&format!("sess_c20certs_{}", tag));
        let mut user_tokens = BTreeMap::new();
        for (id, user, pass) in USERS.iter() {
            user_tokens.insert(id.to_string(), ServerUserToken::user_pass(*user, *pass));
        }
        for (id, user, ident) in XUSERS.iter() {
            let p = cert_dir.join(format!("{}.der", ident));
            std::fs::write(&p, x[*ident].cert.to_der().map_err(|_| "der")?).map_err(|e| e.to_string())?;
            user_tokens.insert(id.to_string(), ServerUserToken::x509(*user, &p));
        }
        let endpoints_of = |server: &str| {
            let mut endpoints = BTreeMap::new();
            for (set, ids) in SETS.iter() {
                for pwpol in PWPOLS.iter() {
                    for (pol, mode) in SECS.iter() {
                        if !server_hosts(server, set, pol) {
                            continue;
                        }
                        let ids: Vec<String> = ids.iter().map(|s| s.to_string()).collect();
                        let mut e = ServerEndpoint::new(path_of(set, pwpol), policy_from(pol), mode_from(mode), &ids);
                        if *pwpol != "unset" {
                            e.password_security_policy = Some(pwpol.to_string());
                        }
                        endpoints.insert(format!("{}_{}_{}", set, pwpol, pol), e);
                    }
                }
            }
            endpoints
        };
        let env = Env::new(EnvSpec { tag: format!("c20_{}", tag), user_tokens: user_tokens.clone(), endpoints: endpoints_of("main"), clients_can_modify_address_space: false, own_identity: true });
        let nokey = Env::new(EnvSpec { tag: format!("c20nokey_{}", tag), user_tokens, endpoints: endpoints_of("nokey"), clients_can_modify_address_space: false, own_identity: false });
        let _ = std::fs::remove_dir_all(&cert_dir);
        let env = env?;
        let nokey = nokey?;
        // the thumbprints must have been picked up, otherwise no X.509 user can ever be recognised
        {
            let st = env.state.read();
            let cfg = st.config.read();
            for (id, _, _) in XUSERS.iter() {
                if cfg.user_tokens.get(*id).and_then(|t| t.thumbprint.clone()).is_none() {
                    return Err(format!("server did not load the certificate of X.509 user {}", id));
                }
            }
        }
        Ok(C20Env { env, nokey, x })
    }
}

// ------------------------------------------------------------------------------------------------
// Token construction
// ------------------------------------------------------------------------------------------------

#[derive(Clone, Copy, PartialEq, Debug)]
pub enum Verdict {
    Allow,
    Deny,
    Either,
}

/// What is known about a session while a case runs
struct Sess {
    token: NodeId,
    /// every server nonce returned so far (CreateSession, then each successful ActivateSession)
    nonces: Vec<ByteString>,
    policies: Vec<UserTokenPolicy>,
}

impl Sess {
    fn current(&self) -> Vec<u8> {
        self.nonces.last().map(|n| n.as_ref().to_vec()).unwrap_or_default()
    }
    fn previous(&self) -> Option<Vec<u8>> {
        if self.nonces.len() >= 2 {
            Some(self.nonces[self.nonces.len() - 2].as_ref().to_vec())
        } else {
            None
        }
    }
    fn policy(&self, t: UserTokenType) -> Option<&UserTokenPolicy> {
        self.policies.iter().find(|p| p.token_type == t)
    }
}

fn nonce_variant(kind: &str, sess: &Sess, salt: u64) -> Vec<u8> {
    let cur = sess.current();
    match kind {
        "current" => cur,
        "stale" => sess.previous().unwrap_or_else(|| cur.clone()),
        "empty" => vec![],
        "random" => {
            let mut r = Rng::new(0x20AB ^ salt);
            r.bytes(32)
        }
        "flipped" => {
            let mut n = cur;
            if let Some(b) = n.last_mut() {
                *b ^= 1;
            } else {
                n.push(1);
            }
            n
        }
        "flipfirst" => {
            let mut n = cur;
            if let Some(b) = n.first_mut() {
                *b ^= 0x80;
            } else {
                n.push(0x80);
            }
            n
        }
        "truncated" => {
            let mut n = cur;
            n.pop();
            n
        }
        "extended" => {
            let mut n = cur;
            n.push(0);
            n
        }
        _ => cur,
    }
}

fn password_variant(kind: &str, right: Option<&str>) -> String {
    let right = right.unwrap_or("pw-guess");
    match kind {
        "right" => right.to_string(),
        "wrong" => "not-the-password".to_string(),
        "empty" => String::new(),
        "longer" => format!("{}x", right),
        "prefix" => {
            let mut s = right.to_string();
            s.pop();
            s
        }
        "upper" => right.to_uppercase(),
        "space" => format!("{} ", right),
        _ => right.to_string(),
    }
}

fn user_variant(kind: &str) -> UAString {
    match kind {
        "null" => UAString::null(),
        other => UAString::from(other),
    }
}

struct Built {
    token: ExtensionObject,
    signature: SignatureData,
    verdict: Verdict,
    /// the one reason a Deny rests on (stable, goes into the violation signature)
    why: String,
    kind: String,
    /// the nonce an encrypted password was encrypted for
    enc_nonce: Option<Vec<u8>>,
}

fn padding_of(enc: &str) -> Option<(RsaPadding, &'static str)> {
    match enc {
        "rsa15" => Some((RsaPadding::Pkcs1, ENC_RSA_15)),
        "oaep" => Some((RsaPadding::OaepSha1, ENC_RSA_OAEP)),
        "oaep256" => Some((RsaPadding::OaepSha256, ENC_RSA_OAEP_SHA256)),
        _ => None,
    }
}

/// Builds the identity token a case asks for and evaluates the reference function for it
fn build(cenv: &C20Env, server: &str, conn: &Conn, sess: &Sess, set: &str, pwpol: &str, spec: &Value, salt: u64) -> Result<Built, String> {
    let env = cenv.env_of(server);
    // a server without a private key cannot decrypt a password, and without a certificate there is nothing an
    // X.509 user token signature could be made over
    let nokey = server == "nokey";
    let t = spec["t"].as_str().unwrap_or("anon");
    let anon_ok = set_allows_anonymous(set);
    match t {
        "anon" => {
            let pid = spec["policy_id"].as_str().unwrap_or("anonymous");
            let token = match pid {
                "<null-token>" => ExtensionObject::null(),
                p => anonymous_token(p),
            };
            let canonical = pid == "anonymous" || pid == "<null-token>";
            let (verdict, why) = if !anon_ok {
                (Verdict::Deny, "anonymous-not-allowed")
            } else if canonical {
                (Verdict::Allow, "")
            } else {
                (Verdict::Either, "")
            };
            Ok(Built { token, signature: SignatureData::null(), verdict, why: why.into(), kind: "anonymous".into(), enc_nonce: None })
        }
        "invalid" => {
            let how = spec["how"].as_str().unwrap_or("issued");
            let token = match how {
                "issued" => ExtensionObject::from_encodable(
                    ObjectId::IssuedIdentityToken_Encoding_DefaultBinary,
                    &IssuedIdentityToken { policy_id: UAString::from("anonymous"), token_data: ByteString::from(b"token".to_vec()), encryption_algorithm: UAString::null() },
                ),
                "garbage-user" => ExtensionObject {
                    node_id: ObjectId::UserNameIdentityToken_Encoding_DefaultBinary.into(),
                    body: ExtensionObjectEncoding::ByteString(ByteString::from(vec![0xff, 0xff, 0xff, 0x7f, 1, 2, 3])),
                },
                "garbage-anon" => ExtensionObject {
                    node_id: ObjectId::AnonymousIdentityToken_Encoding_DefaultBinary.into(),
                    body: ExtensionObjectEncoding::ByteString(ByteString::from(vec![0xff, 0xff, 0xff, 0x7f])),
                },
                "garbage-x509" => ExtensionObject {
                    node_id: ObjectId::X509IdentityToken_Encoding_DefaultBinary.into(),
                    body: ExtensionObjectEncoding::ByteString(ByteString::from(vec![9, 0, 0, 0, b'a'])),
                },
                _ => ExtensionObject { node_id: NodeId::new(0, 999_999u32), body: ExtensionObjectEncoding::ByteString(ByteString::from(vec![1, 2, 3, 4])) },
            };
            let (verdict, why) = if anon_ok { (Verdict::Either, "") } else { (Verdict::Deny, "unusable-token-where-anonymous-not-allowed") };
            Ok(Built { token, signature: SignatureData::null(), verdict, why: why.into(), kind: format!("invalid-{}", how), enc_nonce: None })
        }
        "user" => {
            let user = spec["user"].as_str().unwrap_or("alice");
            let configured = set_password_of(set, user);
            let pass_kind = spec["pass"].as_str().unwrap_or("right");
            let pass = password_variant(pass_kind, configured.or_else(|| USERS.iter().find(|u| u.1 == user).map(|u| u.2)));
            let enc = spec["enc"].as_str().unwrap_or("canonical");
            let nonce_kind = spec["nonce"].as_str().unwrap_or("current");
            let nonce_used = nonce_variant(nonce_kind, sess, salt);
            let cur = sess.current();
            let adv = sess.policy(UserTokenType::UserName).cloned();
            let expected_id = expected_userpass_policy_id(pwpol, policy_name(conn.policy));
            let pid_kind = spec["policy_id"].as_str().unwrap_or("adv");
            let policy_id: UAString = match pid_kind {
                "adv" => adv.as_ref().map(|p| p.policy_id.clone()).unwrap_or_else(|| UAString::from(expected_id)),
                "null" => UAString::null(),
                "other-userpass" => UAString::from(if expected_id == "userpass_none" { "userpass_rsa_oaep" } else { "userpass_none" }),
                lit => UAString::from(lit),
            };
            let mut rsa_like = false;
            let mut tok = match enc {
                "canonical" => {
                    let pol = adv.clone().unwrap_or(UserTokenPolicy {
                        policy_id: UAString::from(expected_id),
                        token_type: UserTokenType::UserName,
                        issued_token_type: UAString::null(),
                        issuer_endpoint_url: UAString::null(),
                        security_policy_uri: UAString::null(),
                    });
                    let t = user_identity::make_user_name_identity_token(conn.policy, &pol, &nonce_used, &Some(env.srv.cert.clone()), user, &pass)
                        .map_err(|s| format!("make_user_name_identity_token: {}", s))?;
                    rsa_like = !t.encryption_algorithm.is_null();
                    t
                }
                "plain" => UserNameIdentityToken {
                    policy_id: UAString::null(),
                    user_name: UAString::null(),
                    password: ByteString::from(pass.as_bytes()),
                    encryption_algorithm: UAString::null(),
                },
                "nullpw" => UserNameIdentityToken { policy_id: UAString::null(), user_name: UAString::null(), password: ByteString::null(), encryption_algorithm: UAString::null() },
                "emptyalg" => UserNameIdentityToken {
                    policy_id: UAString::null(),
                    user_name: UAString::null(),
                    password: ByteString::from(pass.as_bytes()),
                    encryption_algorithm: UAString::from(""),
                },
                "unknownalg" => UserNameIdentityToken {
                    policy_id: UAString::null(),
                    user_name: UAString::null(),
                    password: ByteString::from(pass.as_bytes()),
                    encryption_algorithm: UAString::from("http://verif.example/unknown-encryption"),
                },
                "algbutplain" => UserNameIdentityToken {
                    policy_id: UAString::null(),
                    user_name: UAString::null(),
                    password: ByteString::from(pass.as_bytes()),
                    encryption_algorithm: UAString::from(ENC_RSA_OAEP),
                },
                e => {
                    let (padding, uri) = padding_of(e).ok_or_else(|| format!("unknown enc {}", e))?;
                    rsa_like = true;
                    let password =
                        user_identity::legacy_password_encrypt(&pass, &nonce_used, &env.srv.cert, padding).map_err(|s| format!("legacy_password_encrypt: {}", s))?;
                    UserNameIdentityToken { policy_id: UAString::null(), user_name: UAString::null(), password, encryption_algorithm: UAString::from(uri) }
                }
            };
            tok.policy_id = policy_id;
            tok.user_name = user_variant(user);
            // the reference function
            let supplied = if enc == "nullpw" { String::new() } else { pass.clone() };
            let pw_matches = configured.map(|p| p == supplied).unwrap_or(false);
            let nonce_is_current = nonce_used == cur;
            let matches = pw_matches && (!rsa_like || nonce_is_current);
            let canonical = enc == "canonical" && pid_kind == "adv" && adv.is_some() && nonce_kind == "current";
            let (verdict, why) = if configured.is_none() {
                (Verdict::Deny, if USERS.iter().any(|u| u.1 == user) || XUSERS.iter().any(|u| u.1 == user) { "user-not-on-endpoint" } else { "unknown-user" })
            } else if !pw_matches {
                (Verdict::Deny, "wrong-password")
            } else if rsa_like && nokey {
                (Verdict::Deny, "encrypted-password-but-server-has-no-private-key")
            } else if rsa_like && nonce_kind == "stale" && sess.previous().is_some() {
                (Verdict::Deny, if nonce_is_current { "encrypted-for-earlier-nonce|nonce-was-not-renewed" } else { "encrypted-for-earlier-nonce" })
            } else if !matches {
                (Verdict::Deny, "encrypted-for-wrong-nonce")
            } else if canonical {
                (Verdict::Allow, "")
            } else {
                (Verdict::Either, "")
            };
            Ok(Built {
                token: user_name_token(&tok),
                signature: SignatureData::null(),
                verdict,
                why: why.into(),
                kind: format!("username-{}", if rsa_like { "encrypted" } else { "plain" }),
                enc_nonce: if rsa_like { Some(nonce_used.clone()) } else { None },
            })
        }
        "x509" => {
            let cert_kind = spec["cert"].as_str().unwrap_or("x1");
            let signer = spec["signer"].as_str().unwrap_or("own");
            let sig_kind = spec["sig"].as_str().unwrap_or("adv");
            let pid_kind = spec["policy_id"].as_str().unwrap_or("adv");
            let adv = sess.policy(UserTokenType::Certificate).cloned();
            let cert_data = match cert_kind {
                "null" => ByteString::null(),
                "garbage" => ByteString::from(vec![0x30, 0x82, 0x01, 0x00, 1, 2, 3, 4, 5, 6, 7, 8]),
                "truncated" => {
                    let mut d = cenv.x["x1"].cert.to_der().map_err(|_| "der")?;
                    d.truncate(d.len() / 2);
                    ByteString::from(d)
                }
                n => cenv.x.get(n).ok_or("unknown identity")?.cert.as_byte_string(),
            };
            let own = match cert_kind {
                "x1" | "x2" | "x3" => cert_kind,
                _ => "x1",
            };
            let key_ident = match signer {
                "own" => own,
                "other" => {
                    if own == "x3" {
                        "x2"
                    } else {
                        "x3"
                    }
                }
                _ => own,
            };
            let key = &cenv.x[key_ident].key;
            let cur = sess.current();
            let adv_policy = adv.as_ref().map(|p| SecurityPolicy::from_uri(p.security_policy_uri.as_ref())).unwrap_or(SecurityPolicy::Basic128Rsa15);
            let adv_policy = if adv_policy == SecurityPolicy::Unknown || adv_policy == SecurityPolicy::None { SecurityPolicy::Basic128Rsa15 } else { adv_policy };
            let (sign_policy, data_cert, data_nonce): (SecurityPolicy, Vec<u8>, Vec<u8>) = match sig_kind {
                "sha256" => (if adv_policy == SecurityPolicy::Basic256Sha256 { SecurityPolicy::Basic128Rsa15 } else { SecurityPolicy::Basic256Sha256 }, env.srv.cert.as_byte_string().as_ref().to_vec(), cur.clone()),
                "pss" => (SecurityPolicy::Aes256Sha256RsaPss, env.srv.cert.as_byte_string().as_ref().to_vec(), cur.clone()),
                "stale" => (adv_policy, env.srv.cert.as_byte_string().as_ref().to_vec(), sess.previous().unwrap_or_else(|| nonce_variant("flipped", sess, salt))),
                "nononce" => (adv_policy, env.srv.cert.as_byte_string().as_ref().to_vec(), vec![]),
                "randomnonce" => (adv_policy, env.srv.cert.as_byte_string().as_ref().to_vec(), nonce_variant("random", sess, salt)),
                "othercert" => (adv_policy, env.cli.cert.as_byte_string().as_ref().to_vec(), cur.clone()),
                _ => (adv_policy, env.srv.cert.as_byte_string().as_ref().to_vec(), cur.clone()),
            };
            let mut data = data_cert.clone();
            data.extend_from_slice(&data_nonce);
            let mut sig = vec![0u8; key.size()];
            sign_policy.asymmetric_sign(key, &data, &mut sig).map_err(|s| format!("asymmetric_sign: {}", s))?;
            let mut signature = SignatureData { algorithm: UAString::from(sign_policy.asymmetric_signature_algorithm()), signature: ByteString::from(sig.clone()) };
            match sig_kind {
                "null" => signature = SignatureData::null(),
                "corrupt" => {
                    let mut s = sig.clone();
                    let n = s.len();
                    s[n / 2] ^= 0x10;
                    signature.signature = ByteString::from(s);
                }
                "truncsig" => {
                    let mut s = sig.clone();
                    s.pop();
                    signature.signature = ByteString::from(s);
                }
                "emptysig" => signature.signature = ByteString::from(Vec::<u8>::new()),
                _ => {}
            }
            let policy_id = match pid_kind {
                "adv" => adv.as_ref().map(|p| p.policy_id.clone()).unwrap_or_else(|| UAString::from("x509")),
                "null" => UAString::null(),
                lit => UAString::from(lit),
            };
            let token = x509_token(&X509IdentityToken { policy_id, certificate_data: cert_data });
            // the reference function
            let cert_is_identity = matches!(cert_kind, "x1" | "x2" | "x3");
            let on_endpoint = cert_is_identity && set_has_x509_ident(set, cert_kind);
            let right_data = data_cert == env.srv.cert.as_byte_string().as_ref().to_vec() && data_nonce == cur;
            let intact = !matches!(sig_kind, "null" | "corrupt" | "truncsig" | "emptysig");
            let verifies_somehow = signer == "own" && right_data && intact;
            let with_advertised_algorithm = sign_policy == adv_policy;
            // with an empty nonce the repository's own client cannot produce a signature at all, so nothing is "canonical" there
            let canonical = verifies_somehow && with_advertised_algorithm && pid_kind == "adv" && adv.is_some() && sig_kind == "adv" && !cur.is_empty();
            let (verdict, why) = if !cert_is_identity {
                (Verdict::Deny, "certificate-unusable")
            } else if !on_endpoint {
                (Verdict::Deny, if cert_kind == "x3" { "certificate-unknown" } else { "certificate-not-on-endpoint" })
            } else if !verifies_somehow {
                (
                    Verdict::Deny,
                    if signer != "own" {
                        "signed-with-another-key"
                    } else if !intact {
                        "signature-damaged-or-missing"
                    } else {
                        "signature-over-wrong-data"
                    },
                )
            } else if canonical && !nokey {
                (Verdict::Allow, "")
            } else {
                (Verdict::Either, "")
            };
            Ok(Built { token, signature, verdict, why: why.into(), kind: "x509".into(), enc_nonce: None })
        }
        other => Err(format!("unknown token kind {}", other)),
    }
}

// ------------------------------------------------------------------------------------------------
// Running a case
// ------------------------------------------------------------------------------------------------

pub struct Finding {
    pub signature: String,
    pub detail: String,
}

#[derive(Default)]
pub struct Stats {
    pub activations: u64,
    pub allow_expected: u64,
    pub deny_expected: u64,
    pub either: u64,
    pub accepted: u64,
    pub rejected: u64,
    pub nonce_repeats: u64,
    /// activations sent to the server without certificate / private key, and those of them whose token names an
    /// encryption algorithm
    pub nokey: u64,
    pub nokey_alg_set: u64,
    pub classes: Vec<String>,
    pub problems: Vec<String>,
    pub statuses: BTreeMap<String, u64>,
}

pub struct Conns {
    conns: BTreeMap<String, Conn>,
}

impl Conns {
    pub fn new() -> Conns {
        Conns { conns: BTreeMap::new() }
    }
    fn get(&mut self, cenv: &C20Env, server: &str, pol: &str, mode: &str) -> Result<&mut Conn, String> {
        let key = format!("{}:{}/{}", server, pol, mode);
        if !self.conns.contains_key(&key) {
            let mut c = Conn::new(cenv.env_of(server), policy_from(pol), mode_from(mode));
            c.hello(&format!("{}{}", base_url(), path_of("anon", "unset")))?;
            c.open(SecurityTokenRequestType::Issue)?;
            self.conns.insert(key.clone(), c);
        }
        Ok(self.conns.get_mut(&key).unwrap())
    }
    fn drop_conn(&mut self, server: &str, pol: &str, mode: &str) {
        if let Some(mut c) = self.conns.remove(&format!("{}:{}/{}", server, pol, mode)) {
            c.finish();
        }
    }
    pub fn finish(&mut self) {
        for (_, c) in self.conns.iter_mut() {
            c.finish();
        }
        self.conns.clear();
    }
}

fn step_tokens(case: &Value) -> Vec<Value> {
    case["steps"].as_array().cloned().unwrap_or_default()
}

/// create a session on the case's endpoint, then run its ActivateSession steps
pub fn run_case(cenv: &C20Env, conns: &mut Conns, case: &Value, stats: &mut Stats) -> Vec<Finding> {
    let mut findings = Vec::new();
    let set = case["set"].as_str().unwrap_or("anon").to_string();
    let pwpol = case["pwpol"].as_str().unwrap_or("unset").to_string();
    let pol = case["sec"].as_str().unwrap_or("None").to_string();
    let mode = case["mode"].as_str().unwrap_or("None").to_string();
    let server = case["server"].as_str().unwrap_or("main").to_string();
    let salt = fnv64(case.to_string().as_bytes());
    let env = cenv.env_of(&server);
    let url = format!("{}{}", base_url(), path_of(&set, &pwpol));
    let conn = match conns.get(cenv, &server, &pol, &mode) {
        Ok(c) => c,
        Err(e) => {
            stats.problems.push(format!("connection {}/{}: {}", pol, mode, e));
            conns.drop_conn(&server, &pol, &mode);
            return findings;
        }
    };
    let req = create_session_request(conn, env, &url, 60_000.0, "c20");
    let created = conn.request(req.into());
    let mut sess = match created {
        Outcome::Response(SupportedMessage::CreateSessionResponse(r)) => {
            let policies = r
                .server_endpoints
                .as_ref()
                .and_then(|es| es.iter().find(|e| e.security_policy_uri.as_ref() == conn.policy.to_uri() && e.security_mode == conn.mode))
                .and_then(|e| e.user_identity_tokens.clone())
                .unwrap_or_default();
            Sess { token: r.authentication_token.clone(), nonces: vec![r.server_nonce.clone()], policies }
        }
        other => {
            stats.problems.push(format!("CreateSession on {} {}/{}: {}", url, pol, mode, other.short()));
            conns.drop_conn(&server, &pol, &mode);
            return findings;
        }
    };
    let ep_class = format!("{}{}|pw={}|{}/{}", if server == "nokey" { "server-without-key:" } else { "" }, set, pwpol, pol, mode);
    // (token, signature, kind, nonce an encrypted password inside was made for)
    type Kept = (ExtensionObject, SignatureData, String, Option<Vec<u8>>);
    let mut first_accepted_token: Option<Kept> = None;
    let mut prev_accepted_token: Option<Kept> = None;
    for (n, step) in step_tokens(case).iter().enumerate() {
        let replay = step["replay"].as_str();
        let built = if let Some(which) = replay {
            // send exactly what was accepted before, byte for byte
            let src = if which == "first" { first_accepted_token.clone() } else { prev_accepted_token.clone() };
            match src {
                None => continue,
                Some((token, signature, kind, enc_nonce)) => {
                    let kind = kind.trim_end_matches("-replayed").to_string();
                    let (verdict, why) = match &enc_nonce {
                        Some(made_for) if kind == "username-encrypted" => (
                            Verdict::Deny,
                            if *made_for != sess.current() { "encrypted-for-earlier-nonce".to_string() } else { "encrypted-for-earlier-nonce|nonce-was-not-renewed".to_string() },
                        ),
                        _ => (Verdict::Either, String::new()),
                    };
                    Built { token, signature, verdict, why, kind: format!("{}-replayed", kind), enc_nonce }
                }
            }
        } else {
            match build(cenv, &server, conn, &sess, &set, &pwpol, step, salt ^ n as u64) {
                Ok(b) => b,
                Err(e) => {
                    stats.problems.push(format!("building a token: {}", e));
                    continue;
                }
            }
        };
        let cur = ByteString::from(sess.current());
        let cur = if sess.nonces.last().map(|n| n.is_null()).unwrap_or(true) { ByteString::null() } else { cur };
        let request = ActivateSessionRequest {
            request_header: conn.next_header(&sess.token),
            client_signature: client_signature(conn, env, &cur),
            client_software_certificates: None,
            locale_ids: None,
            user_identity_token: built.token.clone(),
            user_token_signature: built.signature.clone(),
        };
        let out = conn.request(request.into());
        stats.activations += 1;
        if server == "nokey" {
            stats.nokey += 1;
            if built.kind.starts_with("username-encrypted") || matches!(step["enc"].as_str(), Some("unknownalg") | Some("algbutplain")) {
                stats.nokey_alg_set += 1;
            }
        }
        let step_class = format!(
            "{}|{}|step{}{}|{}",
            built.kind,
            ep_class,
            n.min(3),
            if replay.is_some() { "-replay" } else { "" },
            step.as_object()
                .map(|o| o.iter().filter(|(k, _)| k.as_str() != "t").map(|(k, v)| format!("{}={}", k, v.as_str().unwrap_or("?"))).collect::<Vec<_>>().join(","))
                .unwrap_or_default()
        );
        stats.classes.push(step_class);
        match built.verdict {
            Verdict::Allow => stats.allow_expected += 1,
            Verdict::Deny => stats.deny_expected += 1,
            Verdict::Either => stats.either += 1,
        }
        let accepted = match &out {
            Outcome::Response(SupportedMessage::ActivateSessionResponse(r)) => {
                if sess.nonces.iter().any(|n| !n.is_null() && *n == r.server_nonce) || (r.server_nonce.is_null() && sess.nonces.iter().any(|n| n.is_null())) {
                    stats.nonce_repeats += 1;
                }
                sess.nonces.push(r.server_nonce.clone());
                if first_accepted_token.is_none() {
                    first_accepted_token = Some((built.token.clone(), built.signature.clone(), built.kind.clone(), built.enc_nonce.clone()));
                }
                prev_accepted_token = Some((built.token.clone(), built.signature.clone(), built.kind.clone(), built.enc_nonce.clone()));
                true
            }
            Outcome::Response(SupportedMessage::ServiceFault(f)) => {
                *stats.statuses.entry(format!("{}", f.response_header.service_result)).or_insert(0) += 1;
                false
            }
            Outcome::Panic(p) => {
                findings.push(Finding {
                    signature: format!("{}|{}{}", p.signature(), built.kind, if server == "nokey" { "|server-without-key" } else { "" }),
                    detail: format!("ActivateSession panicked at {}:{}: {} (endpoint {}, step {} = {})", p.file, p.line, p.msg, ep_class, n, step),
                });
                // the transport may hold poisoned state; start over
                conns.drop_conn(&server, &pol, &mode);
                return findings;
            }
            other => {
                stats.problems.push(format!("ActivateSession answered {}", other.short()));
                false
            }
        };
        if accepted {
            stats.accepted += 1;
        } else {
            stats.rejected += 1;
        }
        let chan_class = if pol == "None" { "channel-none" } else { "channel-secured" };
        match (built.verdict, accepted) {
            (Verdict::Deny, true) => findings.push(Finding {
                signature: format!("activation-accepted|{}|{}|{}", built.kind.trim_end_matches("-replayed"), built.why, chan_class),
                detail: format!(
                    "ActivateSession was answered Good although the configuration says deny ({}): endpoint {} lists {:?}, channel {}/{}, step {} token {}, session nonces so far {:?}",
                    built.why,
                    path_of(&set, &pwpol),
                    set_ids(&set),
                    pol,
                    mode,
                    n,
                    step,
                    sess.nonces.iter().map(|n| if n.is_null() { "null".to_string() } else { format!("{}B:{}", n.as_ref().len(), hex(&n.as_ref()[..n.as_ref().len().min(4)])) }).collect::<Vec<_>>()
                ),
            }),
            (Verdict::Allow, false) => findings.push(Finding {
                signature: format!("valid-activation-refused|{}|{}|{}", built.kind, out.fault().map(|s| format!("{}", s)).unwrap_or_else(|| out.short()), chan_class),
                detail: format!(
                    "ActivateSession with a token built exactly as the repository's own client builds it, with the right credentials for this endpoint, was refused with {}: endpoint {} lists {:?}, password policy {}, channel {}/{}, step {} token {}",
                    out.short(),
                    path_of(&set, &pwpol),
                    set_ids(&set),
                    pwpol,
                    pol,
                    mode,
                    n,
                    step
                ),
            }),
            _ => {}
        }
    }
    // leave no session behind: at most five may exist
    let h = conn.next_header(&sess.token);
    let closed = conn.request(CloseSessionRequest { request_header: h, delete_subscriptions: true }.into());
    let left = conn.t.session_manager().read().len();
    if !matches!(closed, Outcome::Response(SupportedMessage::CloseSessionResponse(_))) || left != 0 {
        conns.finish();
    }
    findings
}

// ------------------------------------------------------------------------------------------------
// Case enumeration
// ------------------------------------------------------------------------------------------------

fn case_of(server: &str, set: &str, pwpol: &str, sec: (&str, &str), steps: Vec<Value>, shape: &str) -> Value {
    json!({"class": format!("{}|{}|{}|{}/{}{}", shape, set, pwpol, sec.0, sec.1, if server == "nokey" { "|server-without-key" } else { "" }),
        "server": server, "set": set, "pwpol": pwpol, "sec": sec.0, "mode": sec.1, "steps": steps})
}

fn user(u: &str, pass: &str, enc: &str, nonce: &str, pid: &str) -> Value {
    json!({"t": "user", "user": u, "pass": pass, "enc": enc, "nonce": nonce, "policy_id": pid})
}

fn x509(cert: &str, signer: &str, sig: &str, pid: &str) -> Value {
    json!({"t": "x509", "cert": cert, "signer": signer, "sig": sig, "policy_id": pid})
}

const USER_NAMES: [&str; 11] = ["alice", "bob", "carol", "dave", "xuser1", "xuser2", "mallory", "ALICE", "alice ", "", "null"];
const PASS_KINDS: [&str; 7] = ["right", "wrong", "empty", "longer", "prefix", "upper", "space"];
const ENC_KINDS: [&str; 9] = ["canonical", "plain", "nullpw", "emptyalg", "unknownalg", "algbutplain", "rsa15", "oaep", "oaep256"];
const NONCE_KINDS: [&str; 7] = ["current", "empty", "random", "flipped", "flipfirst", "truncated", "extended"];
const USER_PIDS: [&str; 7] = ["adv", "null", "other-userpass", "anonymous", "x509", "userpass_rsa_15", ""];
const ANON_PIDS: [&str; 7] = ["anonymous", "<null-token>", "userpass_none", "x509", "", "Anonymous", "anonymous "];
const CERTS: [&str; 6] = ["x1", "x2", "x3", "garbage", "truncated", "null"];
const SIGS: [&str; 11] = ["adv", "sha256", "pss", "stale", "nononce", "randomnonce", "othercert", "null", "corrupt", "truncsig", "emptysig"];
const X_PIDS: [&str; 5] = ["adv", "null", "anonymous", "userpass_none", "X509"];
const INVALIDS: [&str; 5] = ["issued", "garbage-user", "garbage-anon", "garbage-x509", "unknown-id"];

/// A token that the endpoint must accept, if it has any (used to put a session into the activated state)
fn good_token_for(set: &str) -> Option<Value> {
    if set_allows_anonymous(set) {
        Some(json!({"t": "anon", "policy_id": "anonymous"}))
    } else if let Some(u) = USERS.iter().find(|u| set_ids(set).contains(&u.0)) {
        Some(user(u.1, "right", "canonical", "current", "adv"))
    } else if let Some(u) = XUSERS.iter().find(|u| set_ids(set).contains(&u.0)) {
        Some(x509(u.2, "own", "adv", "adv"))
    } else {
        None
    }
}

fn grid() -> Vec<Value> {
    let mut v = Vec::new();
    // the server with a key first, so that its cases keep their place in the enumeration
    for server in SERVERS.iter() {
        grid_of(server, &mut v);
    }
    v
}

fn grid_of(server: &str, v: &mut Vec<Value>) {
    let with_x509 = server != "nokey";
    for (set, _) in SETS.iter() {
        for pwpol in PWPOLS.iter() {
            for sec in SECS.iter() {
                if !server_hosts(server, set, sec.0) {
                    continue;
                }
                let mut add = |steps: Vec<Value>, shape: &str| v.push(case_of(server, set, pwpol, *sec, steps, shape));
                // anonymous
                for pid in ANON_PIDS.iter() {
                    add(vec![json!({"t": "anon", "policy_id": pid})], "anon");
                }
                for how in INVALIDS.iter() {
                    add(vec![json!({"t": "invalid", "how": how})], "invalid");
                }
                // user name tokens: everything right, then one field wrong at a time
                for u in USER_NAMES.iter() {
                    add(vec![user(u, "right", "canonical", "current", "adv")], "user-canonical");
                    for p in PASS_KINDS.iter().skip(1) {
                        add(vec![user(u, p, "canonical", "current", "adv")], "user-pass");
                    }
                    if ["alice", "bob", "carol", "dave", "mallory"].contains(u) {
                        for e in ENC_KINDS.iter().skip(1) {
                            add(vec![user(u, "right", e, "current", "adv")], "user-enc");
                            add(vec![user(u, "wrong", e, "current", "adv")], "user-enc-wrongpw");
                        }
                        for pid in USER_PIDS.iter().skip(1) {
                            add(vec![user(u, "right", "canonical", "current", pid)], "user-pid");
                        }
                    }
                    if ["alice", "bob", "carol"].contains(u) {
                        for e in ["canonical", "rsa15", "oaep", "oaep256"] {
                            for nk in NONCE_KINDS.iter().skip(1) {
                                add(vec![user(u, "right", e, nk, "adv")], "user-nonce");
                            }
                        }
                    }
                }
                // X.509 tokens (a server without a certificate only gets the canonical ones: all must be refused or are undecided)
                for c in CERTS.iter() {
                    add(vec![x509(c, "own", "adv", "adv")], "x509-canonical");
                    if with_x509 {
                        add(vec![x509(c, "other", "adv", "adv")], "x509-otherkey");
                    }
                }
                for c in if with_x509 { vec!["x1", "x2"] } else { vec![] } {
                    for s in SIGS.iter().skip(1) {
                        add(vec![x509(c, "own", s, "adv")], "x509-sig");
                    }
                    for pid in X_PIDS.iter().skip(1) {
                        add(vec![x509(c, "own", "adv", pid)], "x509-pid");
                    }
                }
                // histories: the same token kinds against a session that is already activated
                if let Some(good) = good_token_for(set) {
                    add(vec![good.clone(), json!({"t": "anon", "policy_id": "anonymous"})], "re-anon");
                    for u in ["alice", "bob", "dave", "mallory"] {
                        add(vec![good.clone(), user(u, "right", "canonical", "current", "adv")], "re-user");
                        add(vec![good.clone(), user(u, "wrong", "canonical", "current", "adv")], "re-user-wrongpw");
                        for e in ["canonical", "rsa15", "oaep", "oaep256"] {
                            add(vec![good.clone(), user(u, "right", e, "stale", "adv")], "re-user-stale-nonce");
                        }
                    }
                    for c in if with_x509 { vec!["x1", "x2", "x3"] } else { vec![] } {
                        add(vec![good.clone(), x509(c, "own", "adv", "adv")], "re-x509");
                        add(vec![good.clone(), x509(c, "own", "stale", "adv")], "re-x509-stale");
                    }
                    // a refused activation must not spoil the session's nonce for the next, correct, one
                    add(vec![user("alice", "wrong", "canonical", "current", "adv"), good.clone()], "after-refusal");
                }
                // activate twice and replay the first activation's token against the second nonce
                for u in ["alice", "bob", "carol"] {
                    for e in ["canonical", "rsa15", "oaep", "oaep256"] {
                        let first = user(u, "right", e, "current", "adv");
                        let kind = if e == "canonical" && sec.0 == "None" { "username-plain" } else { "username-encrypted" };
                        add(vec![first.clone(), json!({"replay": "first", "kind": kind}), first.clone(), json!({"replay": "first", "kind": kind}), json!({"replay": "previous", "kind": kind})], "replay");
                    }
                }
            }
        }
    }
}

fn random_case(rng: &mut Rng) -> Value {
    let server = if rng.chance(1, 8) { "nokey" } else { "main" };
    let set = if server == "nokey" { *rng.pick(&NOKEY_SETS) } else { rng.pick(&SETS).0 };
    let pwpol = *rng.pick(&PWPOLS);
    let sec = if server == "nokey" { SECS[0] } else { *rng.pick(&SECS) };
    let nsteps = 1 + rng.usize(4);
    let mut steps = Vec::new();
    for i in 0..nsteps {
        let roll = rng.below(100);
        let nonce = if i > 0 && rng.chance(1, 3) { "stale" } else { *rng.pick(&NONCE_KINDS) };
        steps.push(if roll < 8 {
            json!({"t": "anon", "policy_id": *rng.pick(&ANON_PIDS)})
        } else if roll < 12 {
            json!({"t": "invalid", "how": *rng.pick(&INVALIDS)})
        } else if roll < 70 {
            user(
                *rng.pick(&USER_NAMES),
                if rng.chance(3, 5) { "right" } else { *rng.pick(&PASS_KINDS) },
                *rng.pick(&ENC_KINDS),
                if rng.chance(1, 2) { "current" } else { nonce },
                if rng.chance(2, 3) { "adv" } else { *rng.pick(&USER_PIDS) },
            )
        } else if roll < 95 {
            x509(
                *rng.pick(&CERTS),
                if rng.chance(3, 4) { "own" } else { "other" },
                if rng.chance(1, 2) { "adv" } else { *rng.pick(&SIGS) },
                if rng.chance(3, 4) { "adv" } else { *rng.pick(&X_PIDS) },
            )
        } else if i > 0 {
            json!({"replay": if rng.bool() { "first" } else { "previous" }, "kind": "username-encrypted"})
        } else {
            json!({"t": "anon", "policy_id": "anonymous"})
        });
    }
    // a replay step is only meaningful after an encrypted user name token; make that the first step
    if steps.iter().any(|s| s.get("replay").is_some()) {
        let u = *rng.pick(&["alice", "bob", "carol"]);
        steps[0] = user(u, "right", *rng.pick(&["rsa15", "oaep", "oaep256"]), "current", "adv");
        for s in steps.iter_mut().skip(1) {
            if s.get("replay").is_some() {
                s["replay"] = json!("first");
            }
        }
    }
    case_of(server, set, pwpol, sec, steps, "random")
}

pub fn c20(args: &Args, rep: &mut Report) {
    let cenv = match C20Env::new(&format!("{}_{}", args.seed, args.shard)) {
        Ok(e) => e,
        Err(e) => {
            rep.inconclusive(format!("cannot set the server up: {}", e));
            return;
        }
    };
    let mut cases: Vec<Value> = Vec::new();
    if let Some(path) = &args.replay {
        match read_replay(path) {
            Some(c) => cases.push(c),
            None => {
                rep.inconclusive("cannot read replay file");
                return;
            }
        }
    } else {
        // the grid is enumerated in full in both tiers; quick keeps a seeded third of the non-core shapes
        let mut keep = Rng::new(args.seed ^ 0xC20_0001);
        for (i, c) in grid().into_iter().enumerate() {
            let core = {
                let cl = c["class"].as_str().unwrap_or("");
                cl.starts_with("replay") || cl.starts_with("anon") || cl.starts_with("user-canonical") || cl.starts_with("x509-canonical") || cl.starts_with("re-user-stale")
            };
            let kept = core || args.thorough() || keep.chance(1, 4);
            if kept && i % args.shards == args.shard {
                cases.push(c);
            }
        }
        let mut rng = Rng::new(args.seed ^ 0xC20 ^ ((args.shard as u64) << 32));
        let n = args.budget(2_400, 60_000);
        for _ in 0..n {
            cases.push(random_case(&mut rng));
        }
    }
    let mut conns = Conns::new();
    let mut problems: Vec<String> = Vec::new();
    let mut total = Stats::default();
    for case in cases {
        rep.begin_case(&case);
        let mut st = Stats::default();
        let findings = run_case(&cenv, &mut conns, &case, &mut st);
        rep.count("sessions", 1);
        for cl in &st.classes {
            rep.case(cl);
        }
        if st.classes.is_empty() {
            rep.case_trivial();
        }
        rep.sample(case.clone());
        total.activations += st.activations;
        total.allow_expected += st.allow_expected;
        total.deny_expected += st.deny_expected;
        total.either += st.either;
        total.accepted += st.accepted;
        total.rejected += st.rejected;
        total.nonce_repeats += st.nonce_repeats;
        total.nokey += st.nokey;
        total.nokey_alg_set += st.nokey_alg_set;
        for (k, v) in st.statuses {
            *total.statuses.entry(k).or_insert(0) += v;
        }
        problems.extend(st.problems);
        for f in findings {
            rep.violation(f.signature, f.detail, case.clone());
        }
    }
    conns.finish();
    rep.count("activations_judged", total.activations);
    rep.count("reference_says_allow", total.allow_expected);
    rep.count("reference_says_deny", total.deny_expected);
    rep.count("reference_says_either", total.either);
    rep.count("server_accepted", total.accepted);
    rep.count("server_refused", total.rejected);
    rep.count("server_nonce_repeated_within_session", total.nonce_repeats);
    rep.count("activations_on_server_without_key", total.nokey);
    rep.count("activations_on_server_without_key_with_encryption_algorithm_set", total.nokey_alg_set);
    for (k, v) in total.statuses {
        rep.count(&format!("refused_with_{}", k), v);
    }
    if !problems.is_empty() {
        rep.count("harness_problems", problems.len() as u64);
        problems.sort();
        problems.dedup();
        problems.truncate(5);
        rep.inconclusive(format!("harness could not drive the server as intended: {}", problems.join("; ")));
    }
    if args.replay.is_none() && total.accepted == 0 {
        rep.inconclusive("no activation was ever accepted");
    }
}
