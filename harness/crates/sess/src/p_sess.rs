//! C19 (session gating) and C20 (user authentication at ActivateSession).
//!
//! Both drive real `TcpTransport`s obtained from `Server::new_transport()`: HEL and OPN go through
//! `verif_process_hello` / `verif_process_chunk` as real frames (so that the secure channel ids and the
//! channel security policy are the ones the real `SecureChannelService` hands out), MSG requests go
//! through `verif_handle_message`, i.e. `TcpTransport::process_message` -> `MessageHandler::handle_message`.
#![allow(dead_code)]
use crate::common::*;
use crate::pki;
use serde_json::Value;
use std::collections::BTreeMap;
use std::path::PathBuf;
use std::str::FromStr;
use std::sync::Arc;

use opcua::core::comms::prelude::*;
use opcua::core::supported_message::SupportedMessage;
use opcua::crypto::{self, CertificateStore, KeySize, PrivateKey, SecurityPolicy, X509};
use opcua::server::address_space::AddressSpace;
use opcua::server::comms::tcp_transport::{TcpTransport, VerifOut, VerifOutbox};
use opcua::server::comms::transport::Transport;
use opcua::server::config::{ServerConfig, ServerEndpoint, ServerUserToken};
use opcua::server::prelude::Server;
use opcua::server::session::Session;
use opcua::server::state::ServerState;
use opcua::sync::RwLock;
use opcua::types::*;

pub fn dispatch(args: &Args, rep: &mut Report) -> bool {
    match args.prop.as_str() {
        "C19" => c19(args, rep),
        "C20" => c20(args, rep),
        _ => return false,
    }
    true
}

/// C19 session gating (workload and model in p_c19.rs)
pub fn c19(args: &Args, rep: &mut Report) {
    crate::p_c19::c19(args, rep)
}

/// C20 user authentication at ActivateSession (workload and reference function in p_c20.rs)
pub fn c20(args: &Args, rep: &mut Report) {
    crate::p_c20::c20(args, rep)
}

pub fn read_replay(path: &str) -> Option<Value> {
    let s = std::fs::read_to_string(path).ok()?;
    let v: Value = serde_json::from_str(&s).ok()?;
    if v.get("case").is_some() {
        Some(v["case"].clone())
    } else {
        Some(v)
    }
}

pub const HOST: &str = "127.0.0.1";
pub const PORT: u16 = 4855;

pub fn base_url() -> String {
    format!("opc.tcp://{}:{}", HOST, PORT)
}

/// An RSA identity whose certificate and key were checked to belong together
pub struct Ident {
    pub cert: X509,
    pub key: PrivateKey,
}

pub fn load_ident(name: &str, bits: u32) -> Result<Ident, String> {
    let mut last = String::new();
    for _ in 0..20 {
        let (cert, key) = pki::identity(name, bits);
        // a signature made with the key must verify with the certificate
        let data = b"verif-sess-ident-check";
        let mut sig = vec![0u8; key.size()];
        let ok = key
            .sign_sha256(data, &mut sig)
            .ok()
            .and_then(|_| cert.public_key().ok())
            .and_then(|pk| pk.verify_sha256(data, &sig).ok())
            .unwrap_or(false);
        if ok {
            return Ok(Ident { cert, key });
        }
        last = format!("cached identity {} {}: certificate and private key do not belong together", name, bits);
        std::thread::sleep(std::time::Duration::from_millis(150));
    }
    Err(last)
}

/// A certificate store rooted at `dir` whose own certificate and key are the given identity
pub fn make_store(dir: &std::path::Path, own: &Ident) -> Result<CertificateStore, String> {
    let store = CertificateStore::new(dir);
    store.ensure_pki_path().map_err(|e| format!("pki path: {}", e))?;
    for p in [store.own_certificate_path(), store.own_private_key_path()] {
        if let Some(parent) = p.parent() {
            std::fs::create_dir_all(parent).map_err(|e| e.to_string())?;
        }
    }
    std::fs::write(store.own_certificate_path(), own.cert.to_der().map_err(|_| "cert der")?).map_err(|e| e.to_string())?;
    std::fs::write(store.own_private_key_path(), own.key.private_key_to_pem().map_err(|_| "key pem")?).map_err(|e| e.to_string())?;
    Ok(store)
}

/// One server under test plus everything a client needs to talk to it
pub struct Env {
    pub server: Server,
    pub state: Arc<RwLock<ServerState>>,
    pub aspace: Arc<RwLock<AddressSpace>>,
    pub srv: Ident,
    pub cli: Ident,
    pub cli_store: Arc<RwLock<CertificateStore>>,
    pub dir: PathBuf,
}

pub struct EnvSpec {
    pub tag: String,
    pub user_tokens: BTreeMap<String, ServerUserToken>,
    pub endpoints: BTreeMap<String, ServerEndpoint>,
    pub clients_can_modify_address_space: bool,
    /// false: the server's PKI directory stays empty, i.e. it runs without an application instance certificate
    /// and private key (ServerState::server_certificate / server_pkey are None); only None endpoints can work
    pub own_identity: bool,
}

impl Env {
    pub fn new(spec: EnvSpec) -> Result<Env, String> {
        let srv = load_ident("sessSrv", 2048)?;
        let cli = load_ident("sessCli", 2048)?;
        let dir = pki::scratch_dir(&format!("sess_{}", spec.tag));
        let srv_dir = dir.join("server_pki");
        let cli_dir = dir.join("client_pki");
        if spec.own_identity {
            let _ = make_store(&srv_dir, &srv)?;
        } else {
            std::fs::create_dir_all(&srv_dir).map_err(|e| e.to_string())?;
        }
        let cli_store = make_store(&cli_dir, &cli)?;
        let mut config = ServerConfig::new("verif-sess", spec.user_tokens, spec.endpoints);
        config.pki_dir = srv_dir;
        config.create_sample_keypair = false;
        config.certificate_validation.trust_client_certs = true;
        config.certificate_validation.check_time = true;
        config.discovery_server_url = None;
        config.tcp_config.host = HOST.into();
        config.tcp_config.port = PORT;
        config.discovery_urls = vec![format!("{}/", base_url())];
        config.limits.clients_can_modify_address_space = spec.clients_can_modify_address_space;
        use opcua::core::config::Config;
        if !config.is_valid() {
            return Err("generated server configuration is not valid".into());
        }
        let server = catch(|| Server::new(config)).map_err(|p| format!("Server::new panicked: {}", p.msg))?;
        let state = server.server_state();
        let aspace = server.address_space();
        {
            let st = state.read();
            if spec.own_identity && (st.server_certificate.is_none() || st.server_pkey.is_none()) {
                return Err("server did not load its certificate / private key".into());
            }
            if !spec.own_identity && (st.server_certificate.is_some() || st.server_pkey.is_some()) {
                return Err("server meant to run without certificate / private key has one".into());
            }
        }
        Ok(Env {
            server,
            state,
            aspace,
            srv,
            cli,
            cli_store: Arc::new(RwLock::new(cli_store)),
            dir,
        })
    }
}

impl Drop for Env {
    fn drop(&mut self) {
        let _ = std::fs::remove_dir_all(&self.dir);
    }
}

/// What came back for one request
#[derive(Debug)]
pub enum Outcome {
    /// A response message for the request id
    Response(SupportedMessage),
    /// handle_message returned Ok but queued nothing for this request id (asynchronous publish)
    NoResponse,
    /// handle_message / process_chunk returned an error (the connection would be dropped)
    TransportError(StatusCode),
    Panic(PanicInfo),
}

impl Outcome {
    pub fn fault(&self) -> Option<StatusCode> {
        match self {
            Outcome::Response(SupportedMessage::ServiceFault(f)) => Some(f.response_header.service_result),
            _ => None,
        }
    }
    pub fn is_fault(&self) -> bool {
        self.fault().is_some()
    }
    pub fn short(&self) -> String {
        match self {
            Outcome::Response(SupportedMessage::ServiceFault(f)) => format!("ServiceFault({})", f.response_header.service_result),
            Outcome::Response(m) => {
                let s = format!("{:?}", m);
                s.split(|c: char| c == '(' || c == ' ' || c == '{').next().unwrap_or("?").to_string()
            }
            Outcome::NoResponse => "NoResponse".into(),
            Outcome::TransportError(s) => format!("TransportError({})", s),
            Outcome::Panic(p) => format!("Panic({}:{} {})", p.file, p.line, p.msg),
        }
    }
}

/// One connection: a real server-side transport and the client half of its secure channel
pub struct Conn {
    pub t: TcpTransport,
    pub out: VerifOutbox,
    pub chan: SecureChannel,
    pub policy: SecurityPolicy,
    pub mode: MessageSecurityMode,
    pub seq: u32,
    pub req_id: u32,
    pub handle: u32,
    /// channel id of the last successful OpenSecureChannel(Issue)
    pub channel_id: u32,
    pub opens: u32,
}

impl Conn {
    pub fn new(env: &Env, policy: SecurityPolicy, mode: MessageSecurityMode) -> Conn {
        let mut chan = SecureChannel::new(env.cli_store.clone(), Role::Client, DecodingOptions::default());
        chan.set_security_policy(policy);
        chan.set_security_mode(mode);
        chan.set_remote_cert(Some(env.srv.cert.clone()));
        Conn {
            t: env.server.new_transport(),
            out: VerifOutbox::new(),
            chan,
            policy,
            mode,
            seq: 0,
            req_id: 0,
            handle: 0,
            channel_id: 0,
            opens: 0,
        }
    }

    fn drain_for(&mut self, request_id: u32) -> Option<SupportedMessage> {
        let mut found = None;
        for m in self.out.drain() {
            if let VerifOut::Message(id, m) = m {
                if id == request_id && found.is_none() {
                    found = Some(m);
                }
            }
        }
        found
    }

    /// HEL through the real process_hello
    pub fn hello(&mut self, endpoint_url: &str) -> Result<(), String> {
        let hello = HelloMessage::new(endpoint_url, 65535, 65535, 0, 0);
        let r = catch(|| self.t.verif_process_hello(hello, &self.out, 65535, 65535));
        match r {
            Err(p) => Err(format!("process_hello panicked: {}", p.msg)),
            Ok(Err(s)) => Err(format!("process_hello: {}", s)),
            Ok(Ok(())) => match self.drain_for(0) {
                Some(SupportedMessage::AcknowledgeMessage(_)) => Ok(()),
                other => Err(format!("no ACK after HEL: {:?}", other.map(|m| format!("{:?}", m)))),
            },
        }
    }

    /// OPN(Issue or Renew) as a real (asymmetrically secured when the policy asks for it) chunk
    pub fn open(&mut self, request_type: SecurityTokenRequestType) -> Result<u32, String> {
        let client_nonce = self.policy.random_nonce();
        self.chan.set_local_nonce(client_nonce.as_ref());
        self.handle += 1;
        self.req_id += 1;
        let request_id = self.req_id;
        let request = OpenSecureChannelRequest {
            request_header: RequestHeader::new(&NodeId::null(), &DateTime::now(), self.handle),
            client_protocol_version: 0,
            request_type,
            security_mode: self.mode,
            client_nonce,
            requested_lifetime: 60_000,
        };
        let msg: SupportedMessage = request.into();
        self.seq += 1;
        let chunks = Chunker::encode(self.seq, request_id, 0, 0, &self.chan, &msg).map_err(|s| format!("encode OPN: {}", s))?;
        if chunks.len() != 1 {
            return Err("OPN did not fit one chunk".into());
        }
        let mut buf = vec![0u8; chunks[0].data.len() + 4096];
        let n = self.chan.apply_security(&chunks[0], &mut buf).map_err(|s| format!("apply_security OPN: {}", s))?;
        buf.truncate(n);
        let chunk = MessageChunk { data: buf };
        let r = catch(|| self.t.verif_process_chunk(chunk, &self.out));
        match r {
            Err(p) => Err(format!("process_chunk(OPN) panicked: {} at {}:{}", p.msg, p.file, p.line)),
            Ok(Err(s)) => Err(format!("process_chunk(OPN): {}", s)),
            Ok(Ok(())) => match self.drain_for(request_id) {
                Some(SupportedMessage::OpenSecureChannelResponse(r)) => {
                    self.channel_id = r.security_token.channel_id;
                    self.chan.set_security_token(r.security_token.clone());
                    let _ = self.chan.set_remote_nonce_from_byte_string(&r.server_nonce);
                    self.opens += 1;
                    // the server side of the channel must agree
                    let sc = self.t.verif_secure_channel();
                    let sc = sc.read();
                    if sc.secure_channel_id() != self.channel_id || sc.security_policy() != self.policy || sc.security_mode() != self.mode {
                        return Err(format!(
                            "server channel state after OPN disagrees: id {} vs {}, {:?}/{:?}",
                            sc.secure_channel_id(),
                            self.channel_id,
                            sc.security_policy(),
                            sc.security_mode()
                        ));
                    }
                    Ok(self.channel_id)
                }
                Some(other) => Err(format!("OPN answered with {}", Outcome::Response(other).short())),
                None => Err("OPN got no response".into()),
            },
        }
    }

    pub fn next_header(&mut self, token: &NodeId) -> RequestHeader {
        self.handle += 1;
        RequestHeader::new(token, &DateTime::now(), self.handle)
    }

    /// A MSG request through the real TcpTransport::process_message -> MessageHandler::handle_message
    pub fn request(&mut self, msg: SupportedMessage) -> Outcome {
        self.req_id += 1;
        let request_id = self.req_id;
        let r = catch(|| self.t.verif_handle_message(request_id, &msg, &self.out));
        match r {
            Err(p) => {
                let _ = self.out.drain();
                Outcome::Panic(p)
            }
            Ok(Err(s)) => {
                let _ = self.out.drain();
                Outcome::TransportError(s)
            }
            Ok(Ok(())) => match self.drain_for(request_id) {
                Some(m) => Outcome::Response(m),
                None => Outcome::NoResponse,
            },
        }
    }

    pub fn finish(&mut self) {
        let _ = catch(|| self.t.finish(StatusCode::Good));
    }
}

/// Looks a session up by authentication token in the session managers of all given connections
pub fn find_session(conns: &[Conn], token: &NodeId) -> Option<Arc<RwLock<Session>>> {
    for c in conns {
        let sm = c.t.session_manager();
        let sm = sm.read();
        if let Some(s) = sm.find_session_by_token(token) {
            return Some(s);
        }
    }
    None
}

pub fn policy_name(p: SecurityPolicy) -> &'static str {
    match p {
        SecurityPolicy::None => "None",
        SecurityPolicy::Basic128Rsa15 => "Basic128Rsa15",
        SecurityPolicy::Basic256 => "Basic256",
        SecurityPolicy::Basic256Sha256 => "Basic256Sha256",
        SecurityPolicy::Aes128Sha256RsaOaep => "Aes128Sha256RsaOaep",
        SecurityPolicy::Aes256Sha256RsaPss => "Aes256Sha256RsaPss",
        _ => "Unknown",
    }
}

pub fn policy_from(name: &str) -> SecurityPolicy {
    match name {
        "None" => SecurityPolicy::None,
        "Basic128Rsa15" => SecurityPolicy::Basic128Rsa15,
        "Basic256" => SecurityPolicy::Basic256,
        "Basic256Sha256" => SecurityPolicy::Basic256Sha256,
        "Aes128Sha256RsaOaep" => SecurityPolicy::Aes128Sha256RsaOaep,
        "Aes256Sha256RsaPss" => SecurityPolicy::Aes256Sha256RsaPss,
        other => SecurityPolicy::from_str(other).unwrap_or(SecurityPolicy::Unknown),
    }
}

pub fn mode_name(m: MessageSecurityMode) -> &'static str {
    match m {
        MessageSecurityMode::None => "None",
        MessageSecurityMode::Sign => "Sign",
        MessageSecurityMode::SignAndEncrypt => "SignAndEncrypt",
        _ => "Invalid",
    }
}

pub fn mode_from(name: &str) -> MessageSecurityMode {
    match name {
        "None" => MessageSecurityMode::None,
        "Sign" => MessageSecurityMode::Sign,
        "SignAndEncrypt" => MessageSecurityMode::SignAndEncrypt,
        _ => MessageSecurityMode::Invalid,
    }
}

pub fn anonymous_token(policy_id: &str) -> ExtensionObject {
    ExtensionObject::from_encodable(
        ObjectId::AnonymousIdentityToken_Encoding_DefaultBinary,
        &AnonymousIdentityToken { policy_id: UAString::from(policy_id) },
    )
}

pub fn user_name_token(t: &UserNameIdentityToken) -> ExtensionObject {
    ExtensionObject::from_encodable(ObjectId::UserNameIdentityToken_Encoding_DefaultBinary, t)
}

pub fn x509_token(t: &X509IdentityToken) -> ExtensionObject {
    ExtensionObject::from_encodable(ObjectId::X509IdentityToken_Encoding_DefaultBinary, t)
}

pub fn create_session_request(conn: &mut Conn, env: &Env, endpoint_url: &str, timeout_ms: f64, name: &str) -> CreateSessionRequest {
    let client_certificate = if conn.policy != SecurityPolicy::None { env.cli.cert.as_byte_string() } else { ByteString::null() };
    CreateSessionRequest {
        request_header: conn.next_header(&NodeId::null()),
        client_description: ApplicationDescription {
            application_uri: UAString::from("urn:verif:sessCli"),
            product_uri: UAString::from("urn:verif:sessCli"),
            application_name: LocalizedText::new("", "verif"),
            application_type: ApplicationType::Client,
            gateway_server_uri: UAString::null(),
            discovery_profile_uri: UAString::null(),
            discovery_urls: None,
        },
        server_uri: UAString::null(),
        endpoint_url: UAString::from(endpoint_url),
        session_name: UAString::from(name),
        client_nonce: if conn.policy != SecurityPolicy::None { conn.policy.random_nonce() } else { ByteString::null() },
        client_certificate,
        requested_session_timeout: timeout_ms,
        max_response_message_size: 0,
    }
}

/// The client signature a well behaved client sends with ActivateSession on this channel
pub fn client_signature(conn: &Conn, env: &Env, server_nonce: &ByteString) -> SignatureData {
    if conn.policy == SecurityPolicy::None {
        SignatureData::null()
    } else {
        crypto::create_signature_data(&env.cli.key, conn.policy, &env.srv.cert.as_byte_string(), server_nonce).unwrap_or_else(|_| SignatureData::null())
    }
}
