//! C21: publish responses pair with requests (oldest first) and every sampled data change of a reporting
//! item is delivered exactly once, in order, with strictly increasing sequence numbers per subscription.
//!
//! A history is a list of small ops (JSON arrays) that refer to subscriptions / items by slot, so any
//! sub-list of a history is again a history: violating histories are shrunk by deleting ops while the
//! same signature keeps firing, and the shrunk list is the witness. Every engine step moves the virtual
//! clock by >= 100 ms, the (minimum) sampling interval of the "strong" items, so each subscription tick
//! samples each of them; the value of a variable at a timer tick is therefore a sampled value change.
//!
//! Oracle bookkeeping per monitored item: the list of values it had at successive ticks ("owed"), each
//! entry mandatory or optional. Mandatory: sampled at a timer tick, item reporting, queue large, explicit
//! sampling interval, subscription alive and publishing enabled, not the initial value. Everything else
//! (initial value, values only seen by the tick a publish request triggers, small-queue or
//! publishing-interval-sampled items, anything pending when the item / subscription is deleted, disabled
//! or changes monitoring mode) is optional: it may be delivered, in order, or not. A delivered value must
//! be the next owed one after skipping optional entries only. Items are created with every
//! timestamps-to-return value and, besides unfiltered ones, with a data change filter without deadband
//! (trigger StatusValue or StatusValueTimestamp): every write of these histories stores a new value with
//! new timestamps and nothing else touches a variable, so such a filter selects exactly the writes and
//! the same bookkeeping applies (a value re-delivered in a later cycle is a duplicate). After the history a drain phase supplies
//! publish requests and interval ticks until nothing but keep-alives comes back; mandatory entries left
//! over then are lost values.
use crate::common::*;
use crate::eng::*;
use opcua::server::prelude::*;
use serde_json::{json, Value};
use std::collections::{BTreeMap, VecDeque};

type Op = Vec<i64>;

// op codes
const CS: i64 = 1; // create subscription: [CS, interval_idx, keepalive, priority, enabled]
const DS: i64 = 2; // delete subscription: [DS, slot]
const CI: i64 = 3; // create item: [CI, sub_slot, var, kind, ts]   kind 0 strong, 1 interval-sampled, 2 small queue discard oldest, 3 small queue discard newest,
                   //   4 strong with a DataChangeFilter {trigger StatusValue, no deadband}, 5 strong with {trigger StatusValueTimestamp}
                   //   ts = timestamps to return of the create request: 0 Neither, 1 Source, 2 Server, 3 Both
const DI: i64 = 4; // delete item: [DI, sub_slot, item_slot]
const WR: i64 = 5; // write next value: [WR, var]
const TK: i64 = 6; // advance dt ms (>=100), timer: [TK, dt]
const PB: i64 = 7; // advance 100 ms, publish: [PB, ackmode]  0 none, 1 ack everything seen, 2 bogus ack
const PF: i64 = 8; // publish until two requests per subscription are queued: [PF]
const PM: i64 = 9; // set publishing mode: [PM, sub_slot, enabled]
const MM: i64 = 10; // set monitoring mode: [MM, sub_slot, item_slot, mode] 0 disabled 1 sampling 2 reporting

const INTERVALS: [i64; 4] = [100, 200, 300, 500];
const LIFETIME: u32 = 3000; // far beyond any history here: expiry belongs to C22

#[derive(Clone, Debug)]
struct Owed {
    v: i64,
    mandatory: bool,
    /// first value the item saw (the initial value is not a value change)
    initial: bool,
    /// so far only a publish-triggered tick has seen this value; a timer tick that still finds it
    /// current makes it mandatory
    publish_tick_only: bool,
    /// seen by a timer tick while the item was reporting and publishing enabled, and nothing relaxed it since
    /// (the final check for small-queue / interval-sampled items)
    latest_ok: bool,
    /// index of the timer tick that sampled it (for the signature: what the later ticks found queued)
    tick: usize,
}

struct Item {
    id: u32,
    handle: u32,
    var: usize,
    strong: bool,
    /// item shape for signatures (empty for an item without filter)
    shape: String,
    reporting: bool,
    mode_code: i64,
    alive: bool,
    last_seen: Option<i64>,
    owed: VecDeque<Owed>,
    last_delivered: Option<i64>,
    delivered: u64,
}

struct Sub {
    id: u32,
    alive: bool,
    enabled: bool,
    items: Vec<Item>,
    last_data_seq: Option<u32>,
    last_ka_seq: Option<u32>,
    unacked: Vec<u32>,
}

#[derive(Default)]
pub struct Obs {
    pub ops: u64,
    pub ticks: u64,
    pub publishes: u64,
    pub responses: u64,
    pub data_values: u64,
    pub keepalives: u64,
    pub mandatory: u64,
    pub optional_skipped: u64,
    pub faults: u64,
    pub late_ticks: u64,
    pub drain_rounds: u64,
    pub shrink_runs: u64,
}

struct Finding {
    sig: String,
    detail: String,
}

struct Run {
    e: Eng,
    t: i64,
    subs: Vec<Sub>,
    next_handle: u32,
    next_val: i64,
    outstanding: VecDeque<(u32, u32)>, // (request id, handle) in arrival order
    answered: BTreeMap<u32, ()>,
    /// (publish requests queued after the expiry pass, live subscriptions) at every timer tick
    tick_log: Vec<(usize, usize)>,
    findings: Vec<Finding>,
}

impl Run {
    fn live(&self) -> usize {
        self.subs.iter().filter(|s| s.alive).count()
    }

    fn add(&mut self, sig: &str, detail: String) {
        if !self.findings.iter().any(|f| f.sig == sig) {
            self.findings.push(Finding { sig: sig.to_string(), detail });
        }
    }

    /// A subscription tick happened (timer or publish arrival): note what every live item can have sampled
    fn note_samples(&mut self, timer: bool, q: usize, obs: &mut Obs) {
        let nsubs = self.live();
        if timer {
            self.tick_log.push((q, nsubs));
        }
        let tick_index = self.tick_log.len().saturating_sub(1);
        let vals: Vec<i64> = (0..NVARS).map(|v| self.e.get_value(v)).collect();
        for s in self.subs.iter_mut().filter(|s| s.alive) {
            for it in s.items.iter_mut().filter(|i| i.alive) {
                let v = vals[it.var];
                let promised = it.strong && it.reporting && s.enabled;
                if it.last_seen == Some(v) {
                    if timer {
                        if let Some(o) = it.owed.back_mut() {
                            if o.v == v && o.publish_tick_only {
                                o.publish_tick_only = false;
                                o.latest_ok = it.reporting && s.enabled && !o.initial;
                                if promised && !o.initial {
                                    o.mandatory = true;
                                    o.tick = tick_index;
                                    obs.mandatory += 1;
                                }
                            }
                        }
                    }
                    continue;
                }
                let initial = it.last_seen.is_none();
                it.last_seen = Some(v);
                let mandatory = timer && promised && !initial;
                if mandatory {
                    obs.mandatory += 1;
                }
                let latest_ok = timer && it.reporting && s.enabled && !initial;
                it.owed.push_back(Owed { v, mandatory, initial, publish_tick_only: !timer, latest_ok, tick: tick_index });
            }
        }
    }

    fn relax_item(it: &mut Item) {
        for o in it.owed.iter_mut() {
            o.mandatory = false;
            o.publish_tick_only = false;
            o.latest_ok = false;
        }
    }

    fn handle_responses(&mut self, rs: Vec<Resp>, obs: &mut Obs) -> usize {
        let mut data_msgs = 0;
        for r in rs {
            obs.responses += 1;
            // pairing
            let pos = self.outstanding.iter().position(|(id, _)| *id == r.request_id);
            match pos {
                None => {
                    let kind = if self.answered.contains_key(&r.request_id) { "request-answered-twice" } else { "response-for-unknown-request" };
                    self.add(&format!("pairing|{}", kind), format!("response with request id {} (handle {:#x})", r.request_id, r.handle));
                }
                Some(p) => {
                    let (id, h) = self.outstanding[p];
                    if h != r.handle {
                        self.add("pairing|request-handle-mismatch", format!("request id {} was sent with handle {:#x}, answered with {:#x}", id, h, r.handle));
                    }
                    if p != 0 && r.fault.is_none() {
                        self.add(
                            "pairing|not-oldest-first",
                            format!("response used request id {} while {} older request(s) were still queued (oldest id {})", id, p, self.outstanding[0].0),
                        );
                    }
                    self.outstanding.remove(p);
                    self.answered.insert(id, ());
                }
            }
            if r.fault.is_some() {
                // a fault (timeout, no subscription left ...) answers its request like any response does
                obs.faults += 1;
                continue;
            }
            let si = match self.subs.iter().position(|s| s.id == r.sub) {
                Some(i) => i,
                None => {
                    self.add("delivery|response-for-unknown-subscription", format!("subscription id {}", r.sub));
                    continue;
                }
            };
            // sequence numbers
            {
                let s = &mut self.subs[si];
                match r.body {
                    Body::KeepAlive => {
                        obs.keepalives += 1;
                        let bad = s.last_data_seq.map(|d| r.seq <= d).unwrap_or(false) || s.last_ka_seq.map(|k| r.seq < k).unwrap_or(false);
                        if bad {
                            let d = format!("keep-alive with sequence number {} after data {:?} / keep-alive {:?}", r.seq, s.last_data_seq, s.last_ka_seq);
                            self.add("sequence|keepalive-number-went-back", d);
                        }
                        self.subs[si].last_ka_seq = Some(r.seq);
                    }
                    _ => {
                        let bad = s.last_data_seq.map(|d| r.seq <= d).unwrap_or(false) || s.last_ka_seq.map(|k| r.seq < k).unwrap_or(false);
                        if bad {
                            let d = format!("notification with sequence number {} after data {:?} / keep-alive {:?}", r.seq, s.last_data_seq, s.last_ka_seq);
                            self.add("sequence|not-strictly-increasing", d);
                        }
                        let s = &mut self.subs[si];
                        s.last_data_seq = Some(r.seq);
                        s.unacked.push(r.seq);
                    }
                }
            }
            match r.body {
                Body::Data(ref items) => {
                    data_msgs += 1;
                    for (handle, v) in items {
                        obs.data_values += 1;
                        let v = match v {
                            Some(v) => *v,
                            None => {
                                self.add("delivery|payload-not-int64", format!("client handle {}", handle));
                                continue;
                            }
                        };
                        let subid = self.subs[si].id;
                        let it = match self.subs[si].items.iter_mut().find(|i| i.handle == *handle) {
                            Some(i) => i,
                            None => {
                                self.add("delivery|value-for-item-of-other-subscription", format!("client handle {} in subscription {}", handle, subid));
                                continue;
                            }
                        };
                        match it.owed.iter().position(|o| o.v == v) {
                            None => {
                                let kind = if it.last_delivered.map(|l| v <= l).unwrap_or(false) { "duplicate-or-reordered" } else { "never-sampled-value" };
                                let d = format!("item handle {} got {} after {:?}; owed next: {:?}", handle, v, it.last_delivered, it.owed.iter().take(4).map(|o| o.v).collect::<Vec<_>>());
                                let shape = it.shape.clone();
                                self.add(&format!("delivery|{}{}", kind, shape), d);
                            }
                            Some(p) => {
                                let skipped: Vec<Owed> = it.owed.drain(..p).collect();
                                it.owed.pop_front();
                                it.last_delivered = Some(v);
                                it.delivered += 1;
                                obs.optional_skipped += skipped.iter().filter(|o| !o.mandatory).count() as u64;
                                if let Some(m) = skipped.iter().find(|o| o.mandatory) {
                                    let sig = lost_sig(m, &self.tick_log);
                                    let d = format!(
                                        "item handle {} (subscription {}): value {} was sampled at a timer tick but value {} was delivered next; {} sampled value(s) skipped",
                                        handle, subid, m.v, v, skipped.iter().filter(|o| o.mandatory).count()
                                    );
                                    self.add(&sig, d);
                                }
                            }
                        }
                    }
                }
                Body::Status(s) => {
                    // the subscription is gone (only BadTimeout is issued by this server)
                    let sub = &mut self.subs[si];
                    sub.alive = false;
                    for it in sub.items.iter_mut() {
                        Run::relax_item(it);
                        it.alive = false;
                    }
                    self.add("delivery|unexpected-status-change", format!("status change {} for subscription {} (lifetime count {})", sc(s), r.sub, LIFETIME));
                }
                _ => {}
            }
        }
        data_msgs
    }

    fn publish(&mut self, acks: Option<Vec<SubscriptionAcknowledgement>>, obs: &mut Obs) -> usize {
        let had_subs = self.live() > 0;
        let q = self.e.lens().0;
        let (id, fault) = self.e.publish(self.t, acks);
        obs.publishes += 1;
        match fault {
            None => self.outstanding.push_back((id, handle_of(id))),
            Some(_) => {
                // answered at once (too many requests, no subscription): never queued
                obs.faults += 1;
            }
        }
        if had_subs {
            // both paths of enqueue_publish_request tick the subscriptions
            self.note_samples(false, q, obs);
        }
        let rs = self.e.take();
        self.handle_responses(rs, obs)
    }

    fn fill(&mut self, obs: &mut Obs) -> usize {
        let mut n = 0;
        for _ in 0..(2 * self.live() + 2) {
            let (q, _, _, subs) = self.e.lens();
            if subs == 0 || q >= 2 * subs {
                break;
            }
            self.t += 100;
            n += self.publish(None, obs);
        }
        n
    }

    fn timer(&mut self, dt: i64, obs: &mut Obs) -> usize {
        self.t += dt.max(100);
        // what the server's timer task does: expiry pass, then the tick; the number of requests that
        // survive the expiry pass is what the tick finds
        let now = at(self.t);
        self.e.expire_at(&now);
        let q = self.e.lens().0;
        if q < self.live() {
            obs.late_ticks += 1;
        }
        let _ = self.e.tick_at(&now, true);
        obs.ticks += 1;
        self.note_samples(true, q, obs);
        let rs = self.e.take();
        self.handle_responses(rs, obs)
    }

    fn apply(&mut self, op: &Op, obs: &mut Obs) {
        obs.ops += 1;
        let a = |i: usize| op.get(i).cloned().unwrap_or(0);
        match a(0) {
            CS => {
                if self.live() >= 4 {
                    return;
                }
                let iv = INTERVALS[(a(1).unsigned_abs() as usize) % INTERVALS.len()];
                let ka = a(2).clamp(1, 10) as u32;
                match self.e.create_sub(iv as f64, LIFETIME, ka, a(3).clamp(0, 255) as u8, a(4) != 0) {
                    Ok(s) => self.subs.push(Sub {
                        id: s.id,
                        alive: true,
                        enabled: a(4) != 0,
                        items: Vec::new(),
                        last_data_seq: None,
                        last_ka_seq: None,
                        unacked: Vec::new(),
                    }),
                    Err(s) => self.add("harness|create-subscription-failed", sc(s)),
                }
            }
            DS => {
                let live: Vec<usize> = (0..self.subs.len()).filter(|i| self.subs[*i].alive).collect();
                if live.is_empty() {
                    return;
                }
                let si = live[(a(1).unsigned_abs() as usize) % live.len()];
                let st = self.e.delete_sub(self.subs[si].id);
                if !st.is_good() {
                    self.add("harness|delete-subscription-failed", sc(st));
                }
                let s = &mut self.subs[si];
                s.alive = false;
                for it in s.items.iter_mut() {
                    Run::relax_item(it);
                    it.alive = false;
                }
            }
            CI => {
                let live: Vec<usize> = (0..self.subs.len()).filter(|i| self.subs[*i].alive).collect();
                if live.is_empty() {
                    return;
                }
                let si = live[(a(1).unsigned_abs() as usize) % live.len()];
                if self.subs[si].items.iter().filter(|i| i.alive).count() >= 5 {
                    return;
                }
                let var = (a(2).unsigned_abs() as usize) % NVARS;
                let kind = a(3).rem_euclid(6);
                let (sampling, queue, discard_oldest) = match kind {
                    0 | 4 | 5 => (100.0, BIG_QUEUE as u32, true),
                    1 => (-1.0, BIG_QUEUE as u32, true),
                    2 => (100.0, 2, true),
                    _ => (100.0, 3, false),
                };
                let trigger = match kind {
                    4 => Some(DataChangeTrigger::StatusValue),
                    5 => Some(DataChangeTrigger::StatusValueTimestamp),
                    _ => None,
                };
                let (ts, ts_name) = match a(4).rem_euclid(4) {
                    0 => (TimestampsToReturn::Neither, "Neither"),
                    1 => (TimestampsToReturn::Source, "Source"),
                    2 => (TimestampsToReturn::Server, "Server"),
                    _ => (TimestampsToReturn::Both, "Both"),
                };
                let strong = matches!(kind, 0 | 4 | 5);
                let shape = match kind {
                    4 => format!("|item-with-data-change-filter-trigger-StatusValue-timestamps-{}", ts_name),
                    5 => format!("|item-with-data-change-filter-trigger-StatusValueTimestamp-timestamps-{}", ts_name),
                    _ => String::new(),
                };
                let handle = self.next_handle;
                self.next_handle += 1;
                let subid = self.subs[si].id;
                match self.e.create_item_ext(subid, var, handle, sampling, queue, discard_oldest, MonitoringMode::Reporting, ts, trigger) {
                    Ok((id, rs, rq)) => {
                        if strong && (rs != 100.0 || rq as usize != BIG_QUEUE) {
                            self.add("harness|item-parameters-revised", format!("sampling {} queue {}", rs, rq));
                        }
                        self.subs[si].items.push(Item {
                            id,
                            handle,
                            var,
                            strong,
                            shape,
                            reporting: true,
                            mode_code: 2,
                            alive: true,
                            last_seen: None,
                            owed: VecDeque::new(),
                            last_delivered: None,
                            delivered: 0,
                        });
                    }
                    Err(s) => self.add("harness|create-item-failed", sc(s)),
                }
            }
            DI | MM => {
                let live: Vec<usize> = (0..self.subs.len()).filter(|i| self.subs[*i].alive).collect();
                if live.is_empty() {
                    return;
                }
                let si = live[(a(1).unsigned_abs() as usize) % live.len()];
                let alive: Vec<usize> = (0..self.subs[si].items.len()).filter(|i| self.subs[si].items[*i].alive).collect();
                if alive.is_empty() {
                    return;
                }
                let ii = alive[(a(2).unsigned_abs() as usize) % alive.len()];
                let (subid, itemid) = (self.subs[si].id, self.subs[si].items[ii].id);
                if a(0) == DI {
                    let st = self.e.delete_item(subid, itemid);
                    if !st.is_good() {
                        self.add("harness|delete-item-failed", sc(st));
                    }
                    let it = &mut self.subs[si].items[ii];
                    Run::relax_item(it);
                    it.alive = false;
                } else {
                    let code = a(3).rem_euclid(3);
                    let mode = match code {
                        0 => MonitoringMode::Disabled,
                        1 => MonitoringMode::Sampling,
                        _ => MonitoringMode::Reporting,
                    };
                    let st = self.e.set_monitoring_mode(subid, itemid, mode);
                    if !st.is_good() {
                        self.add("harness|set-monitoring-mode-failed", sc(st));
                    }
                    let it = &mut self.subs[si].items[ii];
                    if it.mode_code != code {
                        // whatever is pending across a mode change is not promised
                        Run::relax_item(it);
                    }
                    it.mode_code = code;
                    it.reporting = code == 2;
                }
            }
            WR => {
                let var = (a(1).unsigned_abs() as usize) % NVARS;
                let v = self.next_val;
                self.next_val += 1;
                self.e.set_value(var, v, self.t);
            }
            TK => {
                self.timer(a(1), obs);
            }
            PB => {
                self.t += 100;
                let acks = match a(1) {
                    1 => {
                        let mut v = Vec::new();
                        for s in self.subs.iter_mut().filter(|s| s.alive) {
                            for seq in s.unacked.drain(..) {
                                v.push(SubscriptionAcknowledgement { subscription_id: s.id, sequence_number: seq });
                            }
                        }
                        Some(v)
                    }
                    2 => Some(vec![SubscriptionAcknowledgement { subscription_id: 0xFFFF_0000, sequence_number: 77 }]),
                    _ => None,
                };
                self.publish(acks, obs);
            }
            PF => {
                self.fill(obs);
            }
            PM => {
                let live: Vec<usize> = (0..self.subs.len()).filter(|i| self.subs[*i].alive).collect();
                if live.is_empty() {
                    return;
                }
                let si = live[(a(1).unsigned_abs() as usize) % live.len()];
                let en = a(2) != 0;
                let st = self.e.set_publishing(self.subs[si].id, en);
                if !st.is_good() {
                    self.add("harness|set-publishing-mode-failed", sc(st));
                }
                let s = &mut self.subs[si];
                if s.enabled != en {
                    for it in s.items.iter_mut() {
                        Run::relax_item(it);
                    }
                }
                s.enabled = en;
            }
            _ => {}
        }
    }

    fn drain(&mut self, obs: &mut Obs) {
        let mut quiet = 0;
        for _ in 0..600 {
            obs.drain_rounds += 1;
            let mut n = self.fill(obs);
            n += self.timer(1000, obs);
            if n == 0 {
                quiet += 1;
                if quiet >= 3 {
                    break;
                }
            } else {
                quiet = 0;
            }
        }
        if quiet < 3 {
            self.add("harness|drain-did-not-settle", "data kept coming for 600 rounds".into());
        }
        // what is still owed now is lost
        let mut lost: Vec<(String, String)> = Vec::new();
        for s in self.subs.iter().filter(|s| s.alive && s.enabled) {
            for it in s.items.iter().filter(|i| i.alive && i.reporting) {
                if let Some(m) = it.owed.iter().find(|o| o.mandatory) {
                    lost.push((
                        lost_sig(m, &self.tick_log),
                        format!(
                            "item handle {} (subscription {}): value {} was sampled at a timer tick and never delivered ({} such values; {} delivered; last delivered {:?})",
                            it.handle, s.id, m.v, it.owed.iter().filter(|o| o.mandatory).count(), it.delivered, it.last_delivered
                        ),
                    ));
                } else if !it.strong {
                    // weak items: the most recent sampled value always survives any queue policy
                    if let Some(last) = it.owed.back() {
                        if Some(last.v) == it.last_seen && last.latest_ok {
                            lost.push((
                                "lost|latest-value-of-small-queue-or-interval-sampled-item".into(),
                                format!("item handle {} (subscription {}): latest value {} never delivered", it.handle, s.id, last.v),
                            ));
                        }
                    }
                }
            }
        }
        for (s, d) in lost {
            self.add(&s, d);
        }
    }
}

/// The loss is named after what the interval ticks from the sampling one onwards found in the publish
/// request queue: the value is collected by the first of them at which the publishing interval elapses
fn lost_sig(m: &Owed, ticks: &[(usize, usize)]) -> String {
    let later = &ticks[m.tick.min(ticks.len())..];
    let shape = if later.iter().any(|(q, _)| *q == 0) {
        "an-interval-tick-found-no-publish-request-queued"
    } else if later.iter().any(|(q, subs)| q < subs) {
        "an-interval-tick-found-fewer-publish-requests-than-subscriptions"
    } else {
        "publish-requests-were-queued-at-every-tick"
    };
    format!("lost|sampled-value-never-delivered|{}", shape)
}

fn run_ops(ops: &[Op], obs: &mut Obs) -> Vec<(String, String)> {
    let mut r = Run {
        e: Eng::new(),
        t: 0,
        subs: Vec::new(),
        next_handle: 1,
        next_val: 0,
        outstanding: VecDeque::new(),
        answered: BTreeMap::new(),
        tick_log: Vec::new(),
        findings: Vec::new(),
    };
    // payloads continue above whatever earlier cases left in the shared variables
    r.next_val = (0..NVARS).map(|v| r.e.get_value(v)).max().unwrap_or(0).max(0) + 1;
    for op in ops {
        r.apply(op, obs);
    }
    r.drain(obs);
    r.findings.into_iter().map(|f| (f.sig, f.detail)).collect()
}

fn ops_to_json(ops: &[Op]) -> Value {
    Value::Array(ops.iter().map(|o| json!(o)).collect())
}

fn ops_from_json(v: &Value) -> Vec<Op> {
    v.as_array()
        .map(|a| {
            a.iter()
                .map(|o| o.as_array().map(|x| x.iter().map(|n| n.as_i64().unwrap_or(0)).collect()).unwrap_or_default())
                .collect()
        })
        .unwrap_or_default()
}

pub fn describe(ops: &[Op]) -> String {
    ops.iter()
        .map(|o| {
            let a = |i: usize| o.get(i).cloned().unwrap_or(0);
            match a(0) {
                CS => format!("create-sub(iv={}ms,ka={},prio={},enabled={})", INTERVALS[(a(1).unsigned_abs() as usize) % 4], a(2).clamp(1, 10), a(3), a(4) != 0),
                DS => format!("delete-sub({})", a(1)),
                CI => format!("create-item(sub={},var={},kind={},ts={})", a(1), a(2), a(3).rem_euclid(6), ["Neither", "Source", "Server", "Both"][a(4).rem_euclid(4) as usize]),
                DI => format!("delete-item(sub={},item={})", a(1), a(2)),
                WR => format!("write(var={})", a(1)),
                TK => format!("timer(+{}ms)", a(1).max(100)),
                PB => format!("publish(ack={})", a(1)),
                PF => "publish-until-full".to_string(),
                PM => format!("set-publishing(sub={},{})", a(1), a(2) != 0),
                MM => format!("set-monitoring-mode(sub={},item={},mode={})", a(1), a(2), a(3).rem_euclid(3)),
                _ => "?".to_string(),
            }
        })
        .collect::<Vec<_>>()
        .join("; ")
}

/// (kind, timestamps to return) of a new item: two in three are "strong" (every sampled change promised), of
/// these one in three carries a data change filter; the plain histories use unfiltered items, timestamps Neither
fn item_shape(rng: &mut Rng, simple: bool) -> (i64, i64) {
    if simple {
        return (0, 0);
    }
    let kind = if rng.chance(2, 3) {
        if rng.chance(1, 3) { 4 + rng.below(2) as i64 } else { 0 }
    } else {
        1 + rng.below(3) as i64
    };
    (kind, rng.below(4) as i64)
}

/// Random history. feed: 0 random, 1 a full set of publish requests before every timer tick (no tick
/// finds the queue short, so the verdict does not depend on what happens in the late state), 2 bursts
fn gen_ops(rng: &mut Rng, feed: u64, len: usize, simple: bool) -> Vec<Op> {
    let mut ops: Vec<Op> = Vec::new();
    let nsubs = 1 + rng.below(3) as i64;
    for _ in 0..nsubs {
        ops.push(vec![CS, rng.below(4) as i64, 1 + rng.below(5) as i64, rng.below(4) as i64 * 50, if simple { 1 } else { rng.chance(9, 10) as i64 }]);
    }
    for s in 0..nsubs {
        for _ in 0..(1 + rng.below(3)) {
            let (kind, ts) = item_shape(rng, simple);
            ops.push(vec![CI, s, rng.below(NVARS as u64) as i64, kind, ts]);
        }
    }
    let mut burst_fed = true;
    while ops.len() < len {
        let x = rng.below(100);
        if feed == 2 && rng.chance(1, 12) {
            burst_fed = !burst_fed;
        }
        match x {
            0..=34 => {
                ops.push(vec![WR, rng.below(NVARS as u64) as i64]);
            }
            35..=59 => {
                if feed == 1 || (feed == 2 && burst_fed) {
                    ops.push(vec![PF]);
                }
                // now and then the clock moves past the 30 s publish request timeout (not in the always-fed mode)
                let dt = if feed != 1 && rng.chance(1, 40) { 31_000 } else { *rng.pick(&[100i64, 100, 200, 300, 500, 1000]) };
                ops.push(vec![TK, dt]);
            }
            60..=79 => {
                if feed != 1 && !(feed == 2 && !burst_fed) {
                    ops.push(vec![PB, if rng.chance(1, 3) { 1 } else if rng.chance(1, 10) { 2 } else { 0 }]);
                } else if feed == 1 {
                    ops.push(vec![PB, rng.below(2) as i64]);
                } else {
                    ops.push(vec![WR, rng.below(NVARS as u64) as i64]);
                }
            }
            80..=84 if !simple => {
                let (kind, ts) = item_shape(rng, false);
                ops.push(vec![CI, rng.below(4) as i64, rng.below(NVARS as u64) as i64, kind, ts]);
            }
            85..=87 if !simple => ops.push(vec![DI, rng.below(4) as i64, rng.below(5) as i64]),
            88..=89 if !simple => ops.push(vec![CS, rng.below(4) as i64, 1 + rng.below(5) as i64, rng.below(4) as i64 * 50, rng.chance(9, 10) as i64]),
            90..=91 if !simple => ops.push(vec![DS, rng.below(4) as i64]),
            92..=94 if !simple => ops.push(vec![PM, rng.below(4) as i64, rng.chance(2, 3) as i64]),
            95..=96 if !simple => ops.push(vec![MM, rng.below(4) as i64, rng.below(5) as i64, rng.below(3) as i64]),
            _ => ops.push(vec![WR, rng.below(NVARS as u64) as i64]),
        }
    }
    ops
}

/// Delete ops while `sig` keeps firing. Bounded: at most `budget` re-executions.
fn shrink(ops: &[Op], sig: &str, budget: usize, obs: &mut Obs) -> Vec<Op> {
    let mut cur: Vec<Op> = ops.to_vec();
    let mut runs = 0usize;
    let mut chunk = (cur.len() / 2).max(1);
    while chunk >= 1 && runs < budget {
        let mut i = 0;
        let mut progressed = false;
        while i < cur.len() && runs < budget {
            let end = (i + chunk).min(cur.len());
            let mut cand = cur.clone();
            cand.drain(i..end);
            runs += 1;
            let mut scratch = Obs::default();
            let fires = match catch(|| run_ops(&cand, &mut scratch)) {
                Ok(fs) => fs.iter().any(|(s, _)| s == sig),
                Err(p) => p.signature() == sig,
            };
            if fires {
                cur = cand;
                progressed = true;
            } else {
                i = end;
            }
        }
        if chunk == 1 && !progressed {
            break;
        }
        if !progressed || chunk > 1 {
            chunk = if chunk == 1 { 1 } else { chunk / 2 };
        }
    }
    obs.shrink_runs += runs as u64;
    cur
}

fn class_of(ops: &[Op], feed: u64, simple: bool) -> String {
    let cnt = |c: i64| ops.iter().filter(|o| o.first() == Some(&c)).count();
    let bucket = |n: usize| match n {
        0 => "0",
        1 => "1",
        2..=3 => "2-3",
        4..=9 => "4-9",
        _ => "10+",
    };
    let filtered = ops.iter().filter(|o| o.first() == Some(&CI) && o.get(3).cloned().unwrap_or(0).rem_euclid(6) >= 4).count();
    let mut ts: Vec<i64> = ops.iter().filter(|o| o.first() == Some(&CI)).map(|o| o.get(4).cloned().unwrap_or(0).rem_euclid(4)).collect();
    ts.sort();
    ts.dedup();
    format!(
        "feed{} simple{} subs{} items{} filtered{} ts{} del{}/{} pm{} mm{} len{}",
        feed,
        simple as u8,
        bucket(cnt(CS)),
        bucket(cnt(CI)),
        bucket(filtered),
        ts.iter().map(|t| t.to_string()).collect::<Vec<_>>().join(""),
        bucket(cnt(DS)),
        bucket(cnt(DI)),
        bucket(cnt(PM)),
        bucket(cnt(MM)),
        ops.len() / 40
    )
}

fn exec(ops: &[Op], class: &str, label: &str, do_shrink: bool, shrunk_sigs: &mut Vec<String>, rep: &mut Report, obs: &mut Obs) {
    let case = json!({"prop": "C21", "class": class, "label": label, "ops": ops_to_json(ops)});
    rep.begin_case(&case);
    let out = catch(|| run_ops(ops, obs));
    rep.case(class);
    rep.sample(json!({"class": class, "label": label, "history": describe(&ops[..ops.len().min(40)])}));
    let found: Vec<(String, String)> = match out {
        Ok(fs) => fs,
        Err(p) => vec![(p.signature(), format!("panic in repository code: {} at {}:{}", p.msg, p.file, p.line))],
    };
    for (sig, detail) in found {
        if sig.starts_with("harness|") {
            rep.inconclusive(format!("{}: {}", sig, detail));
            continue;
        }
        // shrink the first witness of every signature
        let (w_ops, w_detail) = if do_shrink && !shrunk_sigs.contains(&sig) && ops.len() > 6 {
            shrunk_sigs.push(sig.clone());
            let small = shrink(ops, &sig, 400, obs);
            let mut scratch = Obs::default();
            let d = match catch(|| run_ops(&small, &mut scratch)) {
                Ok(fs) => fs.into_iter().find(|(s, _)| *s == sig).map(|(_, d)| d).unwrap_or(detail.clone()),
                Err(p) => format!("panic in repository code: {} at {}:{}", p.msg, p.file, p.line),
            };
            (small, d)
        } else {
            (ops.to_vec(), detail)
        };
        let wcase = json!({"prop": "C21", "class": class, "label": label, "ops": ops_to_json(&w_ops), "history": describe(&w_ops)});
        rep.violation(sig, format!("{} | history ({} ops): {}", w_detail, w_ops.len(), describe(&w_ops[..w_ops.len().min(30)])), wcase);
    }
}

/// Fixed minimal histories for the shapes named in the property record
fn scripted() -> Vec<(&'static str, Vec<Op>)> {
    vec![
        (
            "interval-elapses-with-no-request-then-request",
            vec![vec![CS, 0, 2, 0, 1], vec![CI, 0, 0, 0], vec![TK, 100], vec![PB, 0], vec![TK, 100], vec![WR, 0], vec![TK, 100], vec![PB, 0], vec![TK, 100]],
        ),
        (
            "request-always-queued",
            vec![vec![CS, 0, 2, 0, 1], vec![CI, 0, 0, 0], vec![TK, 100], vec![PF], vec![TK, 100], vec![WR, 0], vec![PF], vec![TK, 100], vec![WR, 0], vec![PF], vec![TK, 100]],
        ),
        (
            "two-subscriptions-one-request",
            vec![
                vec![CS, 0, 2, 10, 1], vec![CS, 0, 2, 20, 1], vec![CI, 0, 0, 0], vec![CI, 1, 1, 0], vec![TK, 100], vec![PF], vec![TK, 100], vec![PF], vec![TK, 100],
                vec![WR, 0], vec![WR, 1], vec![TK, 100], vec![WR, 0], vec![WR, 1], vec![PB, 0], vec![TK, 100],
            ],
        ),
        (
            // every filter trigger x timestamps-to-return on one variable: written twice, then many cycles without a write
            "filtered-items-unchanged-value-over-many-cycles",
            {
                let mut ops: Vec<Op> = vec![vec![CS, 0, 2, 0, 1], vec![CS, 0, 2, 0, 1], vec![CS, 0, 2, 0, 1]];
                let mut n = 0;
                for kind in [0i64, 4, 5] {
                    for ts in 0..4i64 {
                        ops.push(vec![CI, n / 4, 3, kind, ts]);
                        n += 1;
                    }
                }
                ops.extend([vec![PF], vec![TK, 100], vec![WR, 3], vec![PF], vec![TK, 100], vec![WR, 3]]);
                for _ in 0..6 {
                    ops.push(vec![PF]);
                    ops.push(vec![TK, 100]);
                }
                ops
            },
        ),
        (
            "several-writes-between-ticks",
            vec![vec![CS, 1, 3, 0, 1], vec![CI, 0, 2, 0], vec![PF], vec![TK, 200], vec![WR, 2], vec![WR, 2], vec![PF], vec![TK, 100], vec![WR, 2], vec![TK, 100], vec![WR, 2], vec![PF], vec![TK, 200]],
        ),
    ]
}

pub fn run(args: &Args, rep: &mut Report) {
    let mut obs = Obs::default();
    let mut shrunk: Vec<String> = Vec::new();
    if let Some(path) = &args.replay {
        let v: Value = serde_json::from_slice(&std::fs::read(path).unwrap_or_default()).unwrap_or(Value::Null);
        let ops = ops_from_json(&v["case"]["ops"]);
        let class = v["case"]["class"].as_str().unwrap_or("replay").to_string();
        exec(&ops, &class, "replay", false, &mut shrunk, rep, &mut obs);
        rep.distinct.insert(1);
        return;
    }
    if args.shard == 0 {
        for (label, ops) in scripted() {
            exec(&ops, &format!("scripted {}", label), label, false, &mut shrunk, rep, &mut obs);
        }
    }
    let mut rng = Rng::new(args.seed ^ 0xC21 ^ ((args.shard as u64) << 32));
    let n = args.budget(1600, 160_000);
    for i in 0..n {
        let feed = match i % 4 {
            0 | 1 => 1, // always fed: independent of the late-state behaviour
            2 => 0,
            _ => 2,
        };
        let simple = i % 8 < 2;
        let len = *rng.pick(&[30usize, 60, 120, 200]);
        let ops = gen_ops(&mut rng, feed, len, simple);
        let class = class_of(&ops, feed, simple);
        exec(&ops, &class, "random", true, &mut shrunk, rep, &mut obs);
    }
    rep.count("histories", n);
    rep.count("ops_executed", obs.ops);
    rep.count("timer_ticks", obs.ticks);
    rep.count("timer_ticks_with_fewer_requests_than_subscriptions", obs.late_ticks);
    rep.count("publish_requests_sent", obs.publishes);
    rep.count("publish_responses_paired", obs.responses);
    rep.count("faults_observed", obs.faults);
    rep.count("keepalive_messages", obs.keepalives);
    rep.count("data_values_delivered", obs.data_values);
    rep.count("mandatory_samples_tracked", obs.mandatory);
    rep.count("optional_samples_skipped", obs.optional_skipped);
    rep.count("drain_rounds", obs.drain_rounds);
    rep.count("shrink_reexecutions", obs.shrink_runs);
}
