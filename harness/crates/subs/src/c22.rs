//! C22: keep-alives keep flowing and idle subscriptions expire on time (bounded form, virtual time).
//!
//! One subscription per session so that "a publish request is available" is observable from outside
//! (no other subscription can take it). Three families:
//!   fed     publish requests always available, no data changes: first message after the first interval,
//!           then a message at least every (K+1) intervals, never a BadTimeout status change
//!   starve  no publish request for N intervals after creation, then requests: BadTimeout status change
//!           iff N is past the lifetime (N <= L-2: must not, N >= L+1: must; L-1 and L are free)
//!   mixed   random fed / starved stretches: expiry only if some run of at least L-2 consecutive interval
//!           ticks found no publish request, and certainly after a run of L+2; keep-alive gaps judged
//!           inside long fed stretches
//!   paced   the client sends publish requests at a steady or jittered pace: one request every P intervals
//!           (gaps P, alternating P / P-1, or random in 1..=P), the first one `offset` intervals after
//!           creation, each sent just after a timer tick. With offset >= 1 the subscription is already Late
//!           when the requests come, so every request is consumed on arrival and no timer tick ever finds
//!           one queued; with offset 0 they wait for the timer. Same verdicts as mixed: an interval counts
//!           as request-less only if no request was queued at its tick AND none arrived (and was answered)
//!           during it, so with P <= L-2 the subscription must never expire however long the history is,
//!           and with P >= L+3 it must.
use crate::common::*;
use crate::eng::*;
use opcua::server::prelude::*;
use serde_json::{json, Value};

#[derive(Clone, Debug)]
struct Case {
    mode: String, // fed | starve | mixed
    k: u32,
    l: u32,
    interval: i64,
    div: i64,
    enabled: bool,
    items: u8, // 0 none, 1 item on a variable that never changes, 2 item whose variable changes every tick
    n: i64,    // starve: intervals without requests
    seed: u64, // mixed, paced with jitter 2
    period: i64, // paced: P
    offset: i64, // paced: intervals between creation and the first request
    jitter: u8,  // paced: 0 every gap P, 1 gaps alternate P and P-1, 2 gaps random in 1..=P
}

impl Case {
    fn to_json(&self) -> Value {
        json!({"prop": "C22", "class": self.class(), "mode": self.mode, "k": self.k, "l": self.l,
               "interval": self.interval, "div": self.div, "enabled": self.enabled, "items": self.items,
               "n": self.n, "seed": self.seed, "period": self.period, "offset": self.offset, "jitter": self.jitter})
    }
    fn from_json(v: &Value) -> Case {
        Case {
            mode: v["mode"].as_str().unwrap_or("fed").to_string(),
            k: v["k"].as_u64().unwrap_or(1) as u32,
            l: v["l"].as_u64().unwrap_or(3) as u32,
            interval: v["interval"].as_i64().unwrap_or(100),
            div: v["div"].as_i64().unwrap_or(1).max(1),
            enabled: v["enabled"].as_bool().unwrap_or(true),
            items: v["items"].as_u64().unwrap_or(0) as u8,
            n: v["n"].as_i64().unwrap_or(0),
            seed: v["seed"].as_u64().unwrap_or(0),
            period: v["period"].as_i64().unwrap_or(1).max(1),
            offset: v["offset"].as_i64().unwrap_or(0).max(0),
            jitter: v["jitter"].as_u64().unwrap_or(0) as u8,
        }
    }
    fn class(&self) -> String {
        let lrel = if self.l <= 3 * self.k { "L=3K" } else if self.l <= 3 * self.k + 2 { "L~3K" } else { "L>3K" };
        let extra = match self.mode.as_str() {
            "starve" => {
                let l = self.l.max(3 * self.k) as i64;
                format!(" n-l={}", (self.n - l).clamp(-4, 6))
            }
            "paced" => {
                let l = self.l.max(3 * self.k) as i64;
                let prel = if self.period <= l - 2 { format!("P{}", self.period.min(13)) } else { format!("P-l={}", (self.period - l).clamp(-1, 6)) };
                format!(" {} {} jitter{}", prel, if self.offset == 0 { "first-request-at-creation" } else { "first-request-when-late" }, self.jitter)
            }
            _ => String::new(),
        };
        format!(
            "{} k{} {} iv{} div{} en{} items{}{}",
            self.mode, self.k, lrel, self.interval, self.div, self.enabled as u8, self.items, extra
        )
    }
}

#[derive(Default)]
struct Obs {
    keepalives: u64,
    data: u64,
    status: u64,
    ticks: u64,
    publishes: u64,
    max_gap_x10: i64,
}

struct Finding {
    sig: String,
    detail: String,
}

/// Feed publish requests at time `t` until at least `want` are queued; responses produced by the
/// arrival itself are returned
fn top_up(e: &mut Eng, t: i64, want: usize, obs: &mut Obs) -> Vec<Resp> {
    let mut out = Vec::new();
    for _ in 0..4 {
        if e.lens().0 >= want {
            break;
        }
        let (_id, fault) = e.publish(t, None);
        obs.publishes += 1;
        out.extend(e.take());
        if fault.is_some() {
            break;
        }
    }
    out
}

fn run_case(c: &Case, obs: &mut Obs) -> Vec<Finding> {
    let mut f = Vec::new();
    let mut e = Eng::new();
    let sub = match e.create_sub(c.interval as f64, c.l, c.k, 0, c.enabled) {
        Ok(s) => s,
        Err(s) => {
            f.push(Finding { sig: "harness|create-subscription-failed".into(), detail: sc(s) });
            return f;
        }
    };
    let iv = sub.interval_ms as i64;
    let k = sub.keep_alive as i64;
    let l = sub.lifetime as i64;
    if iv != c.interval {
        f.push(Finding { sig: "harness|interval-revised".into(), detail: format!("{} -> {}", c.interval, iv) });
        return f;
    }
    let var = 0usize;
    if c.items > 0 {
        if let Err(s) = e.create_item(sub.id, var, 1, -1.0, 1, true, MonitoringMode::Reporting) {
            f.push(Finding { sig: "harness|create-item-failed".into(), detail: sc(s) });
            return f;
        }
    }
    let step = iv / c.div;
    let mut t: i64 = 0;
    let mut next_value: i64 = e.get_value(var).max(0) + 1;
    // tick 0: the subscription leaves the creating state
    e.timer(t);
    obs.ticks += 1;
    let _ = e.take();
    // messages for the subscription: (time, body)
    let mut msgs: Vec<(i64, Body)> = Vec::new();
    // signatures name the failing behaviour and the publishing mode; the item kind goes into the detail
    let tag = format!("publishing-{}", if c.enabled { "enabled" } else { "disabled" });
    let item_kind = match c.items {
        0 => "no monitored item",
        1 => "one item whose value never changes",
        _ => "one item whose value changes every interval",
    };
    let record = |rs: Vec<Resp>, t: i64, msgs: &mut Vec<(i64, Body)>, obs: &mut Obs| {
        for r in rs {
            if r.fault.is_some() {
                continue;
            }
            match r.body {
                Body::KeepAlive => obs.keepalives += 1,
                Body::Data(_) => obs.data += 1,
                Body::Status(_) => obs.status += 1,
                _ => {}
            }
            msgs.push((t, r.body));
        }
    };

    match c.mode.as_str() {
        "fed" => {
            let total_intervals = 10 * (k + 1) + 3;
            let steps = total_intervals * c.div;
            for _ in 0..steps {
                let rs = top_up(&mut e, t, 2, obs);
                record(rs, t, &mut msgs, obs);
                t += step;
                if c.items == 2 {
                    e.set_value(var, next_value, t);
                    next_value += 1;
                }
                e.timer(t);
                obs.ticks += 1;
                let rs = e.take();
                record(rs, t, &mut msgs, obs);
            }
            // verdicts
            if let Some((tm, _)) = msgs.iter().find(|(_, b)| matches!(b, Body::Status(_))) {
                f.push(Finding {
                    sig: format!("expired-with-requests-available|{}", tag),
                    detail: format!(
                        "K={} L={} interval={}ms: status change at t={}ms ({} intervals) although a publish request was queued at every tick",
                        k, l, iv, tm, tm / iv
                    ),
                });
            }
            if c.enabled && c.items < 2 {
                match msgs.first() {
                    None => f.push(Finding {
                        sig: format!("no-first-message|{}", tag),
                        detail: format!("K={} L={} interval={}ms: no message at all in {} intervals", k, l, iv, total_intervals),
                    }),
                    Some((tm, _)) if *tm > 2 * iv => f.push(Finding {
                        sig: format!("first-message-late|{}", tag),
                        detail: format!("K={} L={} interval={}ms: first message at {}ms", k, l, iv, tm),
                    }),
                    _ => {}
                }
                let mut prev: Option<i64> = None;
                let mut worst = 0i64;
                let mut worst_at = 0i64;
                let mut count_before = 0usize;
                for (i, (tm, _)) in msgs.iter().enumerate() {
                    if let Some(p) = prev {
                        if tm - p > worst {
                            worst = tm - p;
                            worst_at = p;
                            count_before = i;
                        }
                    }
                    prev = Some(*tm);
                }
                if let Some(p) = prev {
                    if t - p > worst {
                        worst = t - p;
                        worst_at = p;
                        count_before = msgs.len();
                    }
                }
                obs.max_gap_x10 = obs.max_gap_x10.max(worst * 10 / iv);
                if worst > (k + 1) * iv && !msgs.iter().any(|(_, b)| matches!(b, Body::Status(_))) {
                    f.push(Finding {
                        sig: format!("keepalive-gap|{}|requests-always-available", tag),
                        detail: format!(
                            "K={} L={} interval={}ms tick-step={}ms: {} message(s) arrived, the last before the gap at t={}ms, then nothing for {}ms = {} intervals (limit K+1 = {}) while a publish request was queued at every tick",
                            k, l, iv, step, count_before, worst_at, worst, worst / iv, k + 1
                        ),
                    });
                }
            }
        }
        "starve" => {
            for _ in 0..(c.n * c.div) {
                t += step;
                if c.items == 2 {
                    e.set_value(var, next_value, t);
                    next_value += 1;
                }
                e.timer(t);
                obs.ticks += 1;
                let rs = e.take();
                record(rs, t, &mut msgs, obs);
            }
            if !msgs.is_empty() {
                f.push(Finding {
                    sig: "response-without-request".into(),
                    detail: format!("{} publish responses although no publish request was ever sent", msgs.len()),
                });
            }
            // now the client shows up; notifications queued before the status change come first
            let mut expired = false;
            let mut gone = false;
            for _ in 0..(c.n + 6) {
                let (_id, fault) = e.publish(t, None);
                obs.publishes += 1;
                let rs = e.take();
                let before = msgs.len();
                record(rs, t, &mut msgs, obs);
                if msgs[before..]
                    .iter()
                    .any(|(_, b)| matches!(b, Body::Status(s) if *s == StatusCode::BadTimeout))
                {
                    expired = true;
                    break;
                }
                if fault == Some(StatusCode::BadNoSubscription) {
                    gone = true;
                    break;
                }
                if msgs.len() == before {
                    break; // request stays queued: nothing more to come without the timer
                }
            }
            if gone && !expired {
                f.push(Finding {
                    sig: format!("subscription-vanished-without-status-change|{}", tag),
                    detail: format!("K={} L={} N={}: BadNoSubscription but no BadTimeout status change was delivered", k, l, c.n),
                });
            }
            if expired && c.n <= l - 2 {
                f.push(Finding {
                    sig: format!("expiry-early|no-requests-since-creation|{}", tag),
                    detail: format!("K={} L={}: BadTimeout status change after only {} intervals without publish requests", k, l, c.n),
                });
            }
            if !expired && !gone && c.n >= l + 1 {
                f.push(Finding {
                    sig: format!("expiry-overdue|no-requests-since-creation|{}", tag),
                    detail: format!("K={} L={}: still no BadTimeout status change after {} intervals without publish requests", k, l, c.n),
                });
            }
        }
        _ => {
            // mixed: random fed / starved stretches, whole-interval steps.
            // starved_run: consecutive interval ticks (up to now) that found no publish request queued.
            // A subscription can only expire through a run of about L such ticks, and notifications queued
            // before the expiry are delivered ahead of the status change, so "premature" is judged against
            // the longest run seen so far and "overdue" against the current run.
            let paced = c.mode == "paced";
            let mut sched: Vec<bool> = Vec::new();
            if paced {
                let mut rng = Rng::new(c.seed);
                let total = 3 * l + 2 * c.period + 4;
                let mut next = c.offset;
                let mut i = 0i64;
                while (sched.len() as i64) < total {
                    let at = sched.len() as i64;
                    if at == next {
                        sched.push(true);
                        let gap = match c.jitter {
                            0 => c.period,
                            1 => if i % 2 == 0 { c.period } else { (c.period - 1).max(1) },
                            _ => rng.range(1, c.period),
                        };
                        i += 1;
                        next = at + gap.max(1);
                    } else {
                        sched.push(false);
                    }
                }
            } else {
                let mut rng = Rng::new(c.seed);
                let phases = 6 + rng.below(6);
                for ph in 0..phases {
                    let fed = if ph == 0 { rng.bool() } else { ph % 2 == (c.seed % 2) as u64 };
                    let len = if fed {
                        1 + rng.below((3 * k + 4) as u64) as i64
                    } else {
                        match rng.below(4) {
                            0 => rng.range(1, 3),
                            1 => rng.range(l - 4, l - 3).max(1),
                            2 => rng.range(l + 2, l + 4),
                            _ => rng.range(1, l + 4),
                        }
                    };
                    for _ in 0..len {
                        sched.push(fed);
                    }
                }
            }
            // what the history looked like, for signatures (paced) and details
            let how = if paced {
                format!(
                    "one publish request every {} intervals ({}), the first {} interval(s) after creation",
                    c.period,
                    match c.jitter { 0 => "steady", 1 => "gaps alternate P and P-1", _ => "gaps random in 1..=P" },
                    c.offset
                )
            } else {
                format!("seed {}", c.seed)
            };
            let mut waited_for_timer = false; // some timer tick found a request queued
            let mut starved_run: i64 = 0;
            let mut max_starved_run: i64 = 0;
            let mut fed_run: i64 = 0;
            let mut last_msg_t: i64 = 0;
            let is_timeout = |b: &Body| matches!(b, Body::Status(s) if *s == StatusCode::BadTimeout);
            let premature_sig = |waited: bool| {
                if paced {
                    format!("expiry-premature|paced-publish-requests|{}|{}", if waited { "some-request-waited-for-the-timer" } else { "every-request-consumed-on-arrival" }, tag)
                } else {
                    format!("expiry-premature|{}", tag)
                }
            };
            {
                'outer: for fed in sched {
                    let mut got: Vec<(i64, Body)> = Vec::new();
                    if fed && paced {
                        // exactly one request per arrival (top_up would send a second one when the first is answered at once)
                        if e.lens().0 < 2 {
                            let _ = e.publish(t, None);
                            obs.publishes += 1;
                            record(e.take(), t, &mut got, obs);
                        }
                    } else if fed {
                        let rs = top_up(&mut e, t, 1, obs);
                        record(rs, t, &mut got, obs);
                    }
                    // a request counts as available in this cycle if it is queued now or was answered on arrival
                    let queued_now = e.lens().0 > 0;
                    let avail = queued_now || !got.is_empty();
                    waited_for_timer |= queued_now;
                    if !got.is_empty() {
                        // responses produced by the arrival of a request
                        let mut expired_now = got.iter().any(|(_, b)| is_timeout(b));
                        if !expired_now && starved_run >= l + 2 {
                            // the subscription must be gone; whatever was queued before comes first
                            for _ in 0..2000 {
                                let _ = e.publish(t, None);
                                obs.publishes += 1;
                                let mut more: Vec<(i64, Body)> = Vec::new();
                                record(e.take(), t, &mut more, obs);
                                if more.iter().any(|(_, b)| is_timeout(b)) {
                                    expired_now = true;
                                    break;
                                }
                                if more.is_empty() {
                                    break;
                                }
                            }
                            if !expired_now {
                                f.push(Finding {
                                    sig: if paced { format!("expiry-overdue|paced-publish-requests|{}", tag) } else { format!("expiry-overdue|{}", tag) },
                                    detail: format!("K={} L={}: no BadTimeout status change although the last {} interval ticks found no publish request queued ({})", k, l, starved_run, how),
                                });
                                break 'outer;
                            }
                        }
                        if expired_now {
                            if max_starved_run <= l - 3 {
                                f.push(Finding {
                                    sig: premature_sig(waited_for_timer),
                                    detail: format!("K={} L={}: BadTimeout status change at t={}ms ({} intervals after creation) in answer to an arriving publish request, although there never were more than {} consecutive intervals in which no publish request arrived or was queued ({})", k, l, t, t / iv, max_starved_run, how),
                                });
                            }
                            break 'outer;
                        }
                        last_msg_t = t;
                        msgs.extend(got);
                    }
                    t += iv;
                    if c.items == 2 {
                        e.set_value(var, next_value, t);
                        next_value += 1;
                    }
                    e.timer(t);
                    obs.ticks += 1;
                    if avail {
                        starved_run = 0;
                        fed_run += 1;
                    } else {
                        starved_run += 1;
                        max_starved_run = max_starved_run.max(starved_run);
                        fed_run = 0;
                    }
                    let mut got: Vec<(i64, Body)> = Vec::new();
                    record(e.take(), t, &mut got, obs);
                    if !got.is_empty() {
                        if got.iter().any(|(_, b)| is_timeout(b)) {
                            if max_starved_run <= l - 3 {
                                f.push(Finding {
                                    sig: premature_sig(waited_for_timer),
                                    detail: format!("K={} L={}: BadTimeout status change at the timer tick t={}ms ({} intervals after creation), although there never were more than {} consecutive intervals in which no publish request arrived or was queued ({})", k, l, t, t / iv, max_starved_run, how),
                                });
                            }
                            break 'outer;
                        }
                        last_msg_t = t;
                        msgs.extend(got);
                    } else if c.enabled && c.items < 2 && fed_run > k + 1 && t - last_msg_t > (k + 1) * iv {
                        f.push(Finding {
                            sig: format!("keepalive-gap|{}|requests-available-for-whole-gap", tag),
                            detail: format!("K={} L={}: nothing for {} intervals although a request was queued at each of the last {} ticks ({})", k, l, (t - last_msg_t) / iv, fed_run, how),
                        });
                        break 'outer;
                    }
                }
            }
        }
    }
    for x in f.iter_mut() {
        x.detail = format!("{} [{}]", x.detail, item_kind);
    }
    f
}

fn exec(c: &Case, rep: &mut Report, obs: &mut Obs) {
    let case = c.to_json();
    rep.begin_case(&case);
    let out = catch(|| run_case(c, obs));
    rep.case(&c.class());
    rep.sample(case.clone());
    match out {
        Err(p) => panic_violation(
            rep,
            &p,
            match c.items {
                0 => "no-items",
                1 => "static-item",
                _ => "item-changing-every-interval",
            },
            case,
        ),
        Ok(fs) => {
            for f in fs {
                if f.sig.starts_with("harness|") {
                    rep.inconclusive(format!("{}: {}", f.sig, f.detail));
                } else {
                    rep.violation(f.sig, f.detail, case.clone());
                }
            }
        }
    }
}

pub fn run(args: &Args, rep: &mut Report) {
    let mut obs = Obs::default();
    if let Some(path) = &args.replay {
        let v: Value = serde_json::from_slice(&std::fs::read(path).unwrap_or_default()).unwrap_or(Value::Null);
        let c = Case::from_json(&v["case"]);
        exec(&c, rep, &mut obs);
        rep.distinct.insert(1); // a replay is a single case
        return;
    }
    // deterministic grid, split across shards
    let mut grid: Vec<Case> = Vec::new();
    let thorough = args.thorough();
    for k in 1..=8u32 {
        let mut ls: Vec<u32> = vec![3, 3 * k, 3 * k + 1, 3 * k + 2, 30];
        if thorough {
            ls.extend((3 * k..=30).step_by(3));
        }
        ls.sort();
        ls.dedup();
        for &l in &ls {
            if l < 3 * k && l != 3 {
                continue;
            }
            let le = l.max(3 * k) as i64;
            for &enabled in &[true, false] {
                for items in 0..=2u8 {
                    for &(interval, div) in &[(100i64, 1i64), (200, 2), (1000, 1)] {
                        if !thorough && interval == 1000 && items == 2 {
                            continue;
                        }
                        grid.push(Case { mode: "fed".into(), k, l, interval, div, enabled, items, n: 0, seed: 0, period: 1, offset: 0, jitter: 0 });
                        let mut ns = vec![le - 3, le - 2, le - 1, le, le + 1, le + 2, le + 5];
                        if thorough {
                            ns.extend([1, le / 2, le + 9]);
                        }
                        for n in ns {
                            if n < 1 || (!thorough && div > 1 && items == 1) {
                                continue;
                            }
                            grid.push(Case { mode: "starve".into(), k, l, interval, div, enabled, items, n, seed: 0, period: 1, offset: 0, jitter: 0 });
                        }
                    }
                }
            }
        }
    }
    // paced: one request every P intervals, first request at creation or once the subscription is late
    for k in 1..=8u32 {
        let mut ls: Vec<u32> = vec![3 * k, 3 * k + 2, 30];
        if thorough {
            ls.extend([3, 3 * k + 1]);
            ls.extend((3 * k..=30).step_by(3));
        }
        ls.sort();
        ls.dedup();
        for &l in &ls {
            let le = l.max(3 * k) as i64;
            let mut ps: Vec<i64> = vec![1, 2, 3, k as i64 + 1, le / 2, le - 2, le + 3];
            if thorough {
                ps.extend([k as i64, 2 * k as i64 + 1, le - 3, le + 5]);
            }
            ps.retain(|p| *p >= 1);
            ps.sort();
            ps.dedup();
            for &period in &ps {
                for &enabled in &[true, false] {
                    for items in 0..=2u8 {
                        if !thorough && !enabled && items == 1 {
                            continue;
                        }
                        let mut offs = vec![0i64, 1, period];
                        if thorough {
                            offs.extend([2, period / 2]);
                        }
                        offs.retain(|o| *o <= period);
                        offs.sort();
                        offs.dedup();
                        for &offset in &offs {
                            for jitter in 0..=(if thorough { 1u8 } else { 0 }) {
                                grid.push(Case { mode: "paced".into(), k, l, interval: 100, div: 1, enabled, items, n: 0, seed: 0, period, offset, jitter });
                            }
                        }
                    }
                }
            }
        }
    }
    let mut n_grid = 0u64;
    for (i, c) in grid.iter().enumerate() {
        if i % args.shards == args.shard {
            exec(c, rep, &mut obs);
            n_grid += 1;
        }
    }
    // seeded random mixed histories
    let mut rng = Rng::new(args.seed ^ 0xC22 ^ ((args.shard as u64) << 32));
    let n = args.budget(1500, 300_000);
    for _ in 0..n {
        let k = 1 + rng.below(8) as u32;
        let l = match rng.below(3) {
            0 => 3 * k,
            1 => 3 * k + rng.below(3) as u32,
            _ => rng.range(3, 30) as u32,
        };
        let c = Case {
            mode: "mixed".into(),
            k,
            l,
            interval: *rng.pick(&[100i64, 200, 500]),
            div: 1,
            enabled: rng.chance(3, 4),
            items: rng.below(3) as u8,
            n: 0,
            seed: rng.next_u64() >> 12,
            period: 1,
            offset: 0,
            jitter: 0,
        };
        exec(&c, rep, &mut obs);
    }
    // seeded random paced histories
    let n_paced = args.budget(600, 100_000);
    for _ in 0..n_paced {
        let k = 1 + rng.below(8) as u32;
        let l = match rng.below(3) {
            0 => 3 * k,
            1 => 3 * k + rng.below(3) as u32,
            _ => rng.range(3, 30) as u32,
        };
        let le = l.max(3 * k) as i64;
        let period = match rng.below(4) {
            0 => rng.range(1, 3),
            1 => rng.range(1, (le - 2).max(1)),
            2 => rng.range((le - 4).max(1), le + 4),
            _ => rng.range(1, le + 4),
        };
        let c = Case {
            mode: "paced".into(),
            k,
            l,
            interval: *rng.pick(&[100i64, 200, 500]),
            div: 1,
            enabled: rng.chance(3, 4),
            items: rng.below(3) as u8,
            n: 0,
            seed: rng.next_u64() >> 12,
            period,
            offset: if rng.chance(1, 4) { 0 } else { rng.range(1, period.max(1)) },
            jitter: rng.below(3) as u8,
        };
        exec(&c, rep, &mut obs);
    }
    rep.count("grid_cases", n_grid);
    rep.count("mixed_cases", n);
    rep.count("paced_random_cases", n_paced);
    rep.count("timer_ticks", obs.ticks);
    rep.count("publish_requests_sent", obs.publishes);
    rep.count("keepalive_messages_observed", obs.keepalives);
    rep.count("data_messages_observed", obs.data);
    rep.count("status_change_messages_observed", obs.status);
}
