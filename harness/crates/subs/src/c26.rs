//! C26: hostile request-header timestamps and a non-monotonic server clock cannot crash subscription
//! processing; BadTimeout for a queued publish request only after its timeout elapsed since its timestamp.
//!
//! Every engine call gets its `now` from the case, so the "server clock" can jump either way. Families
//! (each reaches one of the three elapsed-time computations without going through the other two, so a
//! panic at one site cannot hide the others):
//!   expire   publish requests with hostile timestamps / timeout hints, then the expiry pass at chosen
//!            times; server clock monotonic, no monitored items
//!   ticks    timer ticks at non-monotonic times, subscriptions without monitored items
//!   arrival  monotonic timer ticks, then a publish request arrives at an earlier server time with
//!            monitored items present (the arrival ticks the items but not the publishing timer)
//!   mixed    everything, random
//! Timeout oracle: a ServiceFault BadTimeout for request R produced by an expiry pass at time T is a
//! violation if T - R.timestamp < timeout(R), timeout(R) = R.timeoutHint if 0 < hint < 30000 else the
//! session's publish request timeout 30000 ms.
use crate::common::*;
use crate::eng::*;
use chrono::Duration as CDuration;
use opcua::server::prelude::*;
use serde_json::{json, Value};
use std::collections::BTreeMap;

const SERVER_TIMEOUT_MS: i64 = 30_000;

type Op = Vec<i64>;
const SUB: i64 = 1; // [SUB, interval_idx, with_item(0 none,1 sampling 100,2 sampling 500,3 sampling -1)]
const PUB: i64 = 2; // [PUB, now_ms, ts_kind, ts_offset_ms, hint]
const EXP: i64 = 3; // [EXP, now_ms]
const TIM: i64 = 4; // [TIM, now_ms]      expiry pass + timer tick, like the server's timer task
const WRV: i64 = 5; // [WRV, var]
const TCK: i64 = 6; // [TCK, now_ms]      timer tick only

const TS_KINDS: [&str; 6] = ["now+offset", "null", "unix-epoch", "year-1700", "end-of-time", "year-2200"];

fn timestamp(kind: i64, now_ms: i64, off: i64) -> DateTime {
    match kind.rem_euclid(6) {
        0 => DateTime::from(at(now_ms) + CDuration::milliseconds(off)),
        1 => DateTime::null(),
        2 => DateTime::from(chrono::TimeZone::timestamp_millis_opt(&chrono::Utc, 0).unwrap()),
        3 => DateTime::ymd(1700, 1, 1),
        4 => DateTime::endtimes(),
        _ => DateTime::ymd(2200, 6, 1),
    }
}

#[derive(Default)]
struct Obs {
    ops: u64,
    publishes: u64,
    expiry_passes: u64,
    ticks: u64,
    backward_steps: u64,
    timeouts: u64,
    timeouts_checked: u64,
    kept: u64,
    hint_above_cap_timed_out_before_hint: u64,
    responses: u64,
}

struct Pending {
    ts: DateTimeUtc,
    hint: u32,
    kind: i64,
}

fn note_now(last_now: &mut Option<i64>, now: i64, obs: &mut Obs) {
    if let Some(l) = *last_now {
        if now < l {
            obs.backward_steps += 1;
        }
    }
    *last_now = Some(now);
}

fn run_ops(ops: &[Op], obs: &mut Obs) -> Vec<(String, String)> {
    let mut f: Vec<(String, String)> = Vec::new();
    let mut e = Eng::new();
    let mut subs: Vec<u32> = Vec::new();
    let mut pending: BTreeMap<u32, Pending> = BTreeMap::new();
    let mut last_now: Option<i64> = None;
    let mut next_val = (0..NVARS).map(|v| e.get_value(v)).max().unwrap_or(0).max(0) + 1;
    let mut handle = 1u32;
    let add = |f: &mut Vec<(String, String)>, s: String, d: String| {
        if !f.iter().any(|x| x.0 == s) {
            f.push((s, d));
        }
    };
    for op in ops {
        obs.ops += 1;
        let a = |i: usize| op.get(i).cloned().unwrap_or(0);
        // the time of an expiry pass, if this op runs one
        let mut expiry_at: Option<i64> = None;
        match a(0) {
            SUB => {
                if subs.len() >= 3 {
                    continue;
                }
                let iv = [100.0, 250.0, 1000.0][(a(1).rem_euclid(3)) as usize];
                match e.create_sub(iv, 3000, 3, 0, true) {
                    Ok(s) => {
                        let kind = a(2).rem_euclid(4);
                        if kind > 0 {
                            let samp = [100.0, 500.0, -1.0][(kind - 1) as usize];
                            if let Err(st) = e.create_item(s.id, subs.len(), handle, samp, 10, true, MonitoringMode::Reporting) {
                                add(&mut f, "harness|create-item-failed".into(), sc(st));
                            }
                            handle += 1;
                        }
                        subs.push(s.id);
                    }
                    Err(st) => add(&mut f, "harness|create-subscription-failed".into(), sc(st)),
                }
            }
            PUB => {
                let now = a(1);
                note_now(&mut last_now, now, obs);
                let ts = timestamp(a(2), now, a(3));
                let hint = a(4).clamp(0, u32::MAX as i64) as u32;
                let (id, fault) = e.publish_at(&at(now), ts.clone(), hint, None);
                obs.publishes += 1;
                if fault.is_none() {
                    pending.insert(id, Pending { ts: ts.into(), hint, kind: a(2).rem_euclid(6) });
                }
            }
            EXP => {
                let now = a(1);
                note_now(&mut last_now, now, obs);
                e.expire_at(&at(now));
                obs.expiry_passes += 1;
                expiry_at = Some(now);
            }
            TIM => {
                let now = a(1);
                note_now(&mut last_now, now, obs);
                e.expire_at(&at(now));
                obs.expiry_passes += 1;
                expiry_at = Some(now);
                let _ = e.tick_at(&at(now), true);
                obs.ticks += 1;
            }
            TCK => {
                let now = a(1);
                note_now(&mut last_now, now, obs);
                let _ = e.tick_at(&at(now), true);
                obs.ticks += 1;
            }
            WRV => {
                let var = (a(1).unsigned_abs() as usize) % NVARS;
                e.set_value(var, next_val, last_now.unwrap_or(0));
                next_val += 1;
            }
            _ => {}
        }
        for r in e.take() {
            obs.responses += 1;
            let p = pending.remove(&r.request_id);
            if r.fault == Some(StatusCode::BadTimeout) {
                obs.timeouts += 1;
                match (p, expiry_at) {
                    (Some(p), Some(now)) => {
                        obs.timeouts_checked += 1;
                        let timeout = if p.hint > 0 && (p.hint as i64) < SERVER_TIMEOUT_MS { p.hint as i64 } else { SERVER_TIMEOUT_MS };
                        let elapsed = at(now).signed_duration_since(p.ts);
                        if elapsed < CDuration::milliseconds(timeout) {
                            let shape = if elapsed < CDuration::zero() { "timestamp-ahead-of-server-clock" } else { "timeout-not-yet-elapsed" };
                            add(
                                &mut f,
                                format!("premature-BadTimeout|{}", shape),
                                format!(
                                    "publish request (timestamp kind {}, timeout hint {} ms, effective timeout {} ms) answered BadTimeout by the expiry pass at server time base{:+} ms: elapsed since its timestamp = {} ms",
                                    TS_KINDS[p.kind as usize], p.hint, timeout, now, elapsed.num_milliseconds()
                                ),
                            );
                        } else if p.hint as i64 > SERVER_TIMEOUT_MS && elapsed < CDuration::milliseconds(p.hint as i64) {
                            obs.hint_above_cap_timed_out_before_hint += 1;
                        }
                    }
                    (Some(_), None) => add(&mut f, "BadTimeout-without-expiry-pass".into(), format!("request {} answered BadTimeout by an op that does not run the expiry pass", r.request_id)),
                    (None, _) => add(&mut f, "BadTimeout-for-unknown-request".into(), format!("request id {}", r.request_id)),
                }
            }
        }
        if expiry_at.is_some() {
            obs.kept += pending.len() as u64;
        }
    }
    f
}

fn op_name(o: &Op) -> String {
    let a = |i: usize| o.get(i).cloned().unwrap_or(0);
    match a(0) {
        SUB => format!("create-sub(iv#{},item#{})", a(1).rem_euclid(3), a(2).rem_euclid(4)),
        PUB => format!("publish(now=base{:+}ms,timestamp={}{},hint={})", a(1), TS_KINDS[a(2).rem_euclid(6) as usize], if a(2).rem_euclid(6) == 0 { format!("{:+}ms", a(3)) } else { String::new() }, a(4)),
        EXP => format!("expire(now=base{:+}ms)", a(1)),
        TIM => format!("expire+timer(now=base{:+}ms)", a(1)),
        TCK => format!("timer(now=base{:+}ms)", a(1)),
        WRV => format!("write(var={})", a(1)),
        _ => "?".into(),
    }
}

fn describe(ops: &[Op]) -> String {
    ops.iter().map(op_name).collect::<Vec<_>>().join("; ")
}

const HOUR: i64 = 3_600_000;
const YEAR: i64 = 365 * 24 * HOUR;

fn hostile_offset(rng: &mut Rng) -> i64 {
    match rng.below(10) {
        0 => 0,
        1 => 1,
        2 => -1,
        3 => HOUR,
        4 => -HOUR,
        5 => -(SERVER_TIMEOUT_MS - 1),
        6 => -(SERVER_TIMEOUT_MS + 1),
        7 => rng.range(-40_000, 40_000),
        8 => 50 * YEAR,
        _ => -50 * YEAR,
    }
}

fn hostile_hint(rng: &mut Rng) -> i64 {
    *rng.pick(&[0i64, 0, 1, 100, 5000, 29_999, 30_000, 30_001, 60_000, u32::MAX as i64])
}

fn clock_step(rng: &mut Rng, backward: bool) -> i64 {
    let fwd = match rng.below(6) {
        0 => 0,
        1 => 100,
        2 => rng.range(1, 2000),
        3 => 31_000,
        4 => HOUR,
        _ => rng.range(1, 3) * YEAR,
    };
    if backward && rng.chance(1, 3) {
        -match rng.below(5) {
            0 => 1,
            1 => 100,
            2 => rng.range(1, 5000),
            3 => HOUR,
            _ => 20 * YEAR,
        }
    } else {
        fwd
    }
}

fn gen_ops(rng: &mut Rng, family: &str, len: usize) -> Vec<Op> {
    let mut ops: Vec<Op> = Vec::new();
    let mut now: i64 = 0;
    match family {
        "expire" => {
            ops.push(vec![SUB, rng.below(3) as i64, 0]);
            if rng.bool() {
                ops.push(vec![SUB, rng.below(3) as i64, 0]);
            }
            while ops.len() < len {
                if rng.chance(3, 5) {
                    ops.push(vec![PUB, now, if rng.chance(2, 3) { 0 } else { rng.below(6) as i64 }, hostile_offset(rng), hostile_hint(rng)]);
                } else {
                    now += match rng.below(5) {
                        0 => 0,
                        1 => rng.range(1, 1000),
                        2 => 29_999,
                        3 => 2,
                        _ => rng.range(1000, 40_000),
                    };
                    ops.push(vec![EXP, now]);
                }
            }
        }
        "ticks" => {
            for _ in 0..(1 + rng.below(2)) {
                ops.push(vec![SUB, rng.below(3) as i64, 0]);
            }
            while ops.len() < len {
                now += clock_step(rng, true);
                ops.push(vec![TCK, now]);
            }
        }
        "arrival" => {
            for _ in 0..(1 + rng.below(2)) {
                ops.push(vec![SUB, rng.below(3) as i64, 1 + rng.below(3) as i64]);
            }
            while ops.len() < len {
                match rng.below(4) {
                    0 => ops.push(vec![WRV, rng.below(3) as i64]),
                    1 | 2 => {
                        now += clock_step(rng, false).max(100);
                        ops.push(vec![TCK, now]);
                    }
                    _ => {
                        // the request's own timestamp is harmless; the server time of arrival is not
                        let arrive = now + clock_step(rng, true).min(0) + if rng.bool() { -rng.range(1, 5000) } else { 0 };
                        ops.push(vec![PUB, arrive, 0, 0, 0]);
                    }
                }
            }
        }
        _ => {
            for _ in 0..(1 + rng.below(3)) {
                ops.push(vec![SUB, rng.below(3) as i64, rng.below(4) as i64]);
            }
            while ops.len() < len {
                now += clock_step(rng, true);
                match rng.below(10) {
                    0 | 1 => ops.push(vec![WRV, rng.below(3) as i64]),
                    2 | 3 | 4 => ops.push(vec![TIM, now]),
                    5 => ops.push(vec![TCK, now]),
                    6 => ops.push(vec![EXP, now]),
                    _ => ops.push(vec![PUB, now, if rng.bool() { 0 } else { rng.below(6) as i64 }, hostile_offset(rng), hostile_hint(rng)]),
                }
            }
        }
    }
    ops
}

fn shrink(ops: &[Op], sig: &str, budget: usize) -> Vec<Op> {
    let mut cur: Vec<Op> = ops.to_vec();
    let mut runs = 0usize;
    let mut chunk = (cur.len() / 2).max(1);
    loop {
        let mut i = 0;
        let mut progressed = false;
        while i < cur.len() && runs < budget {
            let end = (i + chunk).min(cur.len());
            let mut cand = cur.clone();
            cand.drain(i..end);
            runs += 1;
            let mut scratch = Obs::default();
            let fires = match catch(|| run_ops(&cand, &mut scratch)) {
                Ok(fs) => fs.iter().any(|(s, _)| s == sig),
                Err(p) => p.signature() == sig,
            };
            if fires {
                cur = cand;
                progressed = true;
            } else {
                i = end;
            }
        }
        if runs >= budget || (chunk == 1 && !progressed) {
            break;
        }
        if chunk > 1 {
            chunk /= 2;
        }
    }
    cur
}

fn exec(ops: &[Op], family: &str, class: &str, do_shrink: bool, shrunk: &mut Vec<String>, rep: &mut Report, obs: &mut Obs) {
    let case = json!({"prop": "C26", "class": class, "family": family, "ops": ops});
    rep.begin_case(&case);
    let out = catch(|| run_ops(ops, obs));
    rep.case(class);
    rep.sample(json!({"class": class, "history": describe(&ops[..ops.len().min(12)])}));
    let found = match out {
        Ok(f) => f,
        Err(p) => vec![(p.signature(), format!("panic in repository code: {} at {}:{}", p.msg, p.file, p.line))],
    };
    for (sig, detail) in found {
        if sig.starts_with("harness|") {
            rep.inconclusive(format!("{}: {}", sig, detail));
            continue;
        }
        let key = format!("{}|{}", sig, family);
        let w = if do_shrink && !shrunk.contains(&key) && ops.len() > 3 {
            shrunk.push(key);
            shrink(ops, &sig, 300)
        } else {
            ops.to_vec()
        };
        let mut scratch = Obs::default();
        let d = match catch(|| run_ops(&w, &mut scratch)) {
            Ok(fs) => fs.into_iter().find(|(s, _)| *s == sig).map(|x| x.1).unwrap_or(detail.clone()),
            Err(p) => format!("panic in repository code: {} at {}:{}", p.msg, p.file, p.line),
        };
        rep.violation(
            sig,
            format!("{} | history ({} ops): {}", d, w.len(), describe(&w[..w.len().min(25)])),
            json!({"prop": "C26", "class": class, "family": family, "ops": w}),
        );
    }
}

fn class_of(family: &str, ops: &[Op]) -> String {
    let mut back = 0;
    let mut last: Option<i64> = None;
    let mut kinds = std::collections::BTreeSet::new();
    let mut hints = std::collections::BTreeSet::new();
    let mut items = std::collections::BTreeSet::new();
    for o in ops {
        match o[0] {
            PUB | EXP | TIM | TCK => {
                if let Some(l) = last {
                    if o[1] < l {
                        back += 1;
                    }
                }
                last = Some(o[1]);
                if o[0] == PUB {
                    kinds.insert(if o[2].rem_euclid(6) == 0 { if o[3] > 0 { 6 } else if o[3] < 0 { 7 } else { 0 } } else { o[2].rem_euclid(6) });
                    hints.insert(match o[4] {
                        0 => 0,
                        1..=29_999 => 1,
                        30_000 => 2,
                        _ => 3,
                    });
                }
            }
            SUB => {
                items.insert(o[2].rem_euclid(4));
            }
            _ => {}
        }
    }
    format!(
        "{} back{} ts{} hints{} items{}",
        family,
        match back { 0 => "0", 1 => "1", 2..=4 => "2-4", _ => "5+" },
        kinds.iter().map(|k| k.to_string()).collect::<String>(),
        hints.iter().map(|k| k.to_string()).collect::<String>(),
        items.iter().map(|k| k.to_string()).collect::<String>()
    )
}

pub fn run(args: &Args, rep: &mut Report) {
    let mut obs = Obs::default();
    let mut shrunk = Vec::new();
    if let Some(path) = &args.replay {
        let v: Value = serde_json::from_slice(&std::fs::read(path).unwrap_or_default()).unwrap_or(Value::Null);
        let ops: Vec<Op> = v["case"]["ops"]
            .as_array()
            .map(|a| a.iter().map(|o| o.as_array().map(|x| x.iter().map(|n| n.as_i64().unwrap_or(0)).collect()).unwrap_or_default()).collect())
            .unwrap_or_default();
        let fam = v["case"]["family"].as_str().unwrap_or("replay").to_string();
        exec(&ops, &fam, "replay", false, &mut shrunk, rep, &mut obs);
        rep.distinct.insert(1);
        return;
    }
    if args.shard == 0 {
        // the exact boundary of the timeout, and each timestamp kind once, in isolation
        for kind in 0..6i64 {
            for &hint in &[0i64, 1, 29_999, 30_000, 30_001, u32::MAX as i64] {
                let ops: Vec<Op> = vec![vec![SUB, 0, 0], vec![PUB, 0, kind, 0, hint], vec![EXP, 0], vec![EXP, 1], vec![EXP, 2], vec![EXP, 29_999], vec![EXP, 30_000], vec![EXP, 30_001], vec![EXP, 60_000]];
                exec(&ops, "expire", &format!("scripted expire ts{} hint{}", kind, hint), false, &mut shrunk, rep, &mut obs);
            }
        }
        for &off in &[1i64, -1, HOUR, -HOUR, -29_999, -30_000, -30_001] {
            let ops: Vec<Op> = vec![vec![SUB, 0, 0], vec![PUB, 0, 0, off, 0], vec![EXP, 0], vec![EXP, 1], vec![EXP, 30_000]];
            exec(&ops, "expire", &format!("scripted expire offset{}", off), false, &mut shrunk, rep, &mut obs);
        }
        exec(&vec![vec![SUB, 0, 0], vec![TCK, 0], vec![TCK, 1000], vec![TCK, 999]], "ticks", "scripted ticks one-ms-back", false, &mut shrunk, rep, &mut obs);
        exec(&vec![vec![SUB, 0, 1], vec![TCK, 0], vec![TCK, 1000], vec![PUB, 999, 0, 0, 0]], "arrival", "scripted arrival one-ms-back", false, &mut shrunk, rep, &mut obs);
    }
    let mut rng = Rng::new(args.seed ^ 0xC26 ^ ((args.shard as u64) << 32));
    let n = args.budget(4000, 600_000);
    for i in 0..n {
        let family = ["expire", "ticks", "arrival", "mixed"][(i % 4) as usize];
        let len = *rng.pick(&[8usize, 20, 50]);
        let ops = gen_ops(&mut rng, family, len);
        let class = class_of(family, &ops);
        exec(&ops, family, &class, true, &mut shrunk, rep, &mut obs);
    }
    rep.count("histories", n);
    rep.count("ops_executed", obs.ops);
    rep.count("publish_requests_sent", obs.publishes);
    rep.count("expiry_passes", obs.expiry_passes);
    rep.count("timer_ticks", obs.ticks);
    rep.count("backward_clock_steps", obs.backward_steps);
    rep.count("responses_seen", obs.responses);
    rep.count("badtimeout_faults_seen", obs.timeouts);
    rep.count("badtimeout_faults_checked_against_timeout", obs.timeouts_checked);
    rep.count("request_passes_survived", obs.kept);
    rep.count("timed_out_at_server_cap_before_larger_hint", obs.hint_above_cap_timed_out_before_hint);
}
