//! C27: with fewer publish requests than subscriptions holding notifications, higher priority goes first.
//!
//! One fresh session per case and ONE deciding timer tick, so that the verdict does not depend on what
//! the server does with the notifications of the subscriptions that were not served (C21's concern):
//!   1. n subscriptions, distinct priorities, same publishing interval, created in random order; one
//!      reporting item each on its own variable
//!   2. warm-up with enough publish requests: every subscription delivers its initial value and is in
//!      the normal state with nothing pending and no request left over
//!   3. write to the variables of a subset R (|R| >= 2), queue k < |R| publish requests
//!   4. the interval elapses: the tick produces k responses. They must be for the k highest priorities
//!      of R, highest first.
//! Stage 2 (judged only on responses that carry data, so it is inert while starved subscriptions lose
//! their notifications): the remaining requests then arrive one at a time; each data response must be
//! for the highest-priority subscription of R that has not been served yet.
use crate::common::*;
use crate::eng::*;
use opcua::server::prelude::*;
use serde_json::{json, Value};

#[derive(Default)]
struct Obs {
    deciding_ticks: u64,
    responses_at_deciding_tick: u64,
    stage2_data_responses: u64,
    stage2_keepalives: u64,
    inversions: u64,
}

struct Case {
    prios: Vec<u8>,     // in creation order
    ready: Vec<bool>,   // member of R, by creation index
    k: usize,           // publish requests queued before the deciding tick
    interval: i64,
    label: String,
}

impl Case {
    fn to_json(&self) -> Value {
        json!({"prop": "C27", "class": self.class(), "prios": self.prios, "ready": self.ready, "k": self.k,
               "interval": self.interval, "label": self.label})
    }
    fn from_json(v: &Value) -> Case {
        Case {
            prios: v["prios"].as_array().map(|a| a.iter().map(|x| x.as_u64().unwrap_or(0) as u8).collect()).unwrap_or_default(),
            ready: v["ready"].as_array().map(|a| a.iter().map(|x| x.as_bool().unwrap_or(false)).collect()).unwrap_or_default(),
            k: v["k"].as_u64().unwrap_or(1) as usize,
            interval: v["interval"].as_i64().unwrap_or(100),
            label: v["label"].as_str().unwrap_or("replay").to_string(),
        }
    }
    fn class(&self) -> String {
        let n = self.prios.len();
        let r = self.ready.iter().filter(|b| **b).count();
        // is creation order ascending / descending / mixed in priority among R?
        let pr: Vec<u8> = (0..n).filter(|i| self.ready[*i]).map(|i| self.prios[i]).collect();
        let asc = pr.windows(2).all(|w| w[0] < w[1]);
        let desc = pr.windows(2).all(|w| w[0] > w[1]);
        let edge = pr.iter().any(|p| *p == 0) as u8 + 2 * pr.iter().any(|p| *p == 255) as u8;
        format!("n{} r{} k{} order{} edge{} iv{}", n, r, self.k, if asc { "asc" } else if desc { "desc" } else { "mixed" }, edge, self.interval)
    }
}

fn run_case(c: &Case, obs: &mut Obs) -> Vec<(String, String)> {
    let mut out = Vec::new();
    let mut e = Eng::new();
    let n = c.prios.len();
    let mut ids = Vec::new();
    for (i, p) in c.prios.iter().enumerate() {
        match e.create_sub(c.interval as f64, 3000, 10, *p, true) {
            Ok(s) => {
                if let Err(st) = e.create_item(s.id, i, i as u32 + 1, 100.0, BIG_QUEUE as u32, true, MonitoringMode::Reporting) {
                    out.push(("harness|create-item-failed".into(), sc(st)));
                    return out;
                }
                ids.push(s.id);
            }
            Err(st) => {
                out.push(("harness|create-subscription-failed".into(), sc(st)));
                return out;
            }
        }
    }
    let prio_of = |sub: u32| -> Option<u8> { ids.iter().position(|x| *x == sub).map(|i| c.prios[i]) };
    let mut t = 0i64;
    let mut next_val = (0..NVARS).map(|v| e.get_value(v)).max().unwrap_or(0).max(0) + 1;
    e.timer(t);
    let _ = e.take();
    // warm-up: everybody delivers the initial value
    let mut served = vec![false; n];
    for _round in 0..4 {
        for _ in 0..n {
            if e.lens().0 >= n {
                break;
            }
            t += 100;
            let _ = e.publish(t, None);
        }
        t += c.interval.max(100);
        e.timer(t);
        for r in e.take() {
            if let (None, Body::Data(_)) = (r.fault, &r.body) {
                if let Some(i) = ids.iter().position(|x| *x == r.sub) {
                    served[i] = true;
                }
            }
        }
        if served.iter().all(|b| *b) {
            break;
        }
    }
    if !served.iter().all(|b| *b) {
        out.push(("harness|warm-up-incomplete".into(), format!("served {:?}", served)));
        return out;
    }
    // consume whatever requests are left with keep-alive-free ticks: simply let them be answered or expire
    // is not possible without side effects, so rather account for them: the deciding tick then has
    // left-over + k requests
    let leftover = e.lens().0;
    // new data for R
    t += 100;
    for i in 0..n {
        if c.ready[i] {
            e.set_value(i, next_val, t);
            next_val += 1;
        }
    }
    let r_count = c.ready.iter().filter(|b| **b).count();
    let want = c.k.min(r_count.saturating_sub(1)).max(1);
    // queue requests up to `want` in total; their arrival ticks the subscriptions (no interval elapses,
    // nothing is collected, nothing can be sent)
    let mut early: Vec<Resp> = Vec::new();
    let mut guard = 0;
    while e.lens().0 < want && guard < 20 {
        guard += 1;
        let _ = e.publish(t, None);
        early.extend(e.take());
    }
    if e.lens().0 != want || leftover > want {
        // cannot set the stage (left-over requests from the warm-up exceed k): skip, not a verdict
        out.push(("skip|stage".into(), format!("leftover {} want {}", leftover, want)));
        return out;
    }
    if early.iter().any(|r| matches!(r.body, Body::Data(_))) {
        out.push(("harness|data-before-deciding-tick".into(), format!("{} responses", early.len())));
        return out;
    }
    // the deciding tick
    t += c.interval.max(100);
    e.timer(t);
    obs.deciding_ticks += 1;
    let rs: Vec<Resp> = e.take().into_iter().filter(|r| r.fault.is_none()).collect();
    obs.responses_at_deciding_tick += rs.len() as u64;
    let mut r_prios: Vec<u8> = (0..n).filter(|i| c.ready[*i]).map(|i| c.prios[i]).collect();
    r_prios.sort_by(|a, b| b.cmp(a));
    let got: Vec<(u32, Option<u8>, bool)> = rs.iter().map(|r| (r.sub, prio_of(r.sub), matches!(r.body, Body::Data(_)))).collect();
    let got_prios: Vec<u8> = got.iter().filter(|g| g.2).filter_map(|g| g.1).collect();
    let describe = format!(
        "priorities by creation order {:?}, with new data {:?}, {} publish request(s) queued; responses at the tick (subscription priority): {:?}; expected {:?}",
        c.prios,
        (0..n).filter(|i| c.ready[*i]).map(|i| c.prios[i]).collect::<Vec<_>>(),
        want,
        got_prios,
        &r_prios[..want.min(r_prios.len())]
    );
    if got_prios.len() != want {
        out.push((
            "deciding-tick|response-count".into(),
            format!("{} data responses for {} queued requests and {} subscriptions with data; {}", got_prios.len(), want, r_count, describe),
        ));
    } else if got_prios != r_prios[..want] {
        obs.inversions += 1;
        let mut sorted = got_prios.clone();
        sorted.sort_by(|a, b| b.cmp(a));
        let kind = if sorted == r_prios[..want] {
            "right-subscriptions-wrong-order"
        } else if {
            let mut low = r_prios.clone();
            low.reverse();
            got_prios == low[..want]
        } {
            "lowest-priority-served-first"
        } else {
            "lower-priority-served-while-higher-waits"
        };
        out.push((format!("priority-inversion|timer-tick|{}", kind), describe.clone()));
    }
    // stage 2: the rest of the requests arrive one by one
    let mut pending: Vec<u8> = r_prios.iter().filter(|p| !got_prios.contains(p)).cloned().collect();
    for _ in 0..(pending.len() + 2) {
        if pending.is_empty() {
            break;
        }
        t += 10; // no interval elapses
        let _ = e.publish(t, None);
        for r in e.take() {
            if r.fault.is_some() {
                continue;
            }
            match r.body {
                Body::Data(_) => {
                    obs.stage2_data_responses += 1;
                    if let Some(p) = prio_of(r.sub) {
                        if let Some(pos) = pending.iter().position(|x| *x == p) {
                            if pos != 0 {
                                out.push((
                                    "priority-inversion|publish-arrival|lower-priority-served-while-higher-waits".into(),
                                    format!("request arrival served priority {} while priority {} still held its notification; {}", p, pending[0], describe),
                                ));
                            }
                            pending.remove(pos);
                        }
                    }
                }
                Body::KeepAlive => obs.stage2_keepalives += 1,
                _ => {}
            }
        }
    }
    out
}

fn exec(c: &Case, rep: &mut Report, obs: &mut Obs) {
    let case = c.to_json();
    rep.begin_case(&case);
    let out = catch(|| run_case(c, obs));
    match out {
        Err(p) => {
            rep.case(&c.class());
            panic_violation(rep, &p, "priority-case", case);
        }
        Ok(fs) => {
            if fs.iter().any(|(s, _)| s.starts_with("skip|")) {
                rep.case_trivial();
                rep.count("cases_skipped_stage_not_reachable", 1);
                return;
            }
            rep.case(&c.class());
            rep.sample(case.clone());
            for (sig, detail) in fs {
                if sig.starts_with("harness|") {
                    rep.inconclusive(format!("{}: {}", sig, detail));
                } else {
                    rep.violation(sig, detail, case.clone());
                }
            }
        }
    }
}

pub fn run(args: &Args, rep: &mut Report) {
    let mut obs = Obs::default();
    if let Some(path) = &args.replay {
        let v: Value = serde_json::from_slice(&std::fs::read(path).unwrap_or_default()).unwrap_or(Value::Null);
        let c = Case::from_json(&v["case"]);
        exec(&c, rep, &mut obs);
        rep.distinct.insert(1);
        return;
    }
    // minimal scripted cases on shard 0
    if args.shard == 0 {
        for (label, prios, k) in [
            ("two-subscriptions-one-request-low-created-first", vec![1u8, 2], 1usize),
            ("two-subscriptions-one-request-high-created-first", vec![2u8, 1], 1),
            ("extremes-0-and-255", vec![0u8, 255], 1),
            ("three-subscriptions-two-requests", vec![10u8, 30, 20], 2),
        ] {
            let n = prios.len();
            exec(&Case { prios, ready: vec![true; n], k, interval: 100, label: label.into() }, rep, &mut obs);
        }
    }
    let mut rng = Rng::new(args.seed ^ 0xC27 ^ ((args.shard as u64) << 32));
    let total = args.budget(4000, 300_000);
    for _ in 0..total {
        let n = 2 + rng.usize(7);
        // distinct priorities, boundary-heavy
        let mut pool: Vec<u8> = match rng.below(3) {
            0 => (0..=255u16).map(|x| x as u8).collect(),
            1 => vec![0, 1, 2, 126, 127, 128, 129, 253, 254, 255],
            _ => (0..16u8).map(|x| x * 16 + rng.below(16) as u8).collect(),
        };
        pool.sort();
        pool.dedup();
        rng.shuffle(&mut pool);
        let mut prios: Vec<u8> = pool.into_iter().take(n).collect();
        match rng.below(4) {
            0 => prios.sort(),
            1 => {
                prios.sort();
                prios.reverse()
            }
            _ => {}
        }
        let n = prios.len();
        let mut ready = vec![false; n];
        let r = 2 + rng.usize(n - 1);
        let mut idx: Vec<usize> = (0..n).collect();
        rng.shuffle(&mut idx);
        for i in idx.into_iter().take(r) {
            ready[i] = true;
        }
        let k = 1 + rng.usize(r - 1);
        let c = Case { prios, ready, k, interval: *rng.pick(&[100i64, 200, 500]), label: "random".into() };
        exec(&c, rep, &mut obs);
    }
    rep.count("deciding_ticks", obs.deciding_ticks);
    rep.count("responses_at_deciding_ticks", obs.responses_at_deciding_tick);
    rep.count("priority_inversions_seen", obs.inversions);
    rep.count("stage2_data_responses_judged", obs.stage2_data_responses);
    rep.count("stage2_keepalives_ignored", obs.stage2_keepalives);
}
