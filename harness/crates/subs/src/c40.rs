//! C40: republish and acknowledgement see the same retained notifications.
//!
//! Shadow of the retransmission queue: every notification message handed out in a publish response is
//! remembered by (subscription, sequence number) with its full content. After every op all members are
//! re-requested with Republish:
//!   * a retained member must come back identical to the original
//!   * a member acknowledged with result Good must answer BadMessageNotAvailable from then on
//!   * acknowledging a number that is not retained (never sent, already acknowledged, twice in one
//!     request) must report BadSequenceNumberUnknown and must not disturb any other member
//!   * a member may only disappear un-acknowledged (eviction) when the number of retained messages
//!     exceeded the server's ceiling (two times the publish request limit = four per subscription)
//!     since it was last seen
//!   * a publish request the server REJECTS (publish request queue full -> service fault
//!     BadTooManyPublishRequests) reports no acknowledgement result at all, so none of the numbers it
//!     names counts as acknowledged: every one of them stays a member (Republish identical) and a later
//!     acknowledgement in an admitted request must answer Good. The FILL op queues requests up to the
//!     server's limit so that acknowledgement requests of every kind also meet a full queue.
//! Publish requests are kept available at every interval so that notifications flow; the histories do
//! not enter the late state, so the verdicts do not depend on C21/C22 behaviour.
use crate::common::*;
use crate::eng::*;
use opcua::server::prelude::*;
use serde_json::{json, Value};
use std::collections::{BTreeMap, BTreeSet};

type Op = Vec<i64>;
const WRITE: i64 = 1; // [WRITE, mask]      new values for the variables of the subscriptions in mask
const TICK: i64 = 2; // [TICK]             make sure requests are queued, advance one interval, timer
const ACK: i64 = 3; // [ACK, kind, pick]  publish request with acknowledgements
const REPUB: i64 = 4; // [REPUB, kind, pick] republish probe of an acked / unknown number
const NEWSUB: i64 = 5; // [NEWSUB]
const DELSUB: i64 = 6; // [DELSUB, slot]
const FILL: i64 = 7; // [FILL]             publish requests without acknowledgements until the server's limit is reached

#[derive(Clone, Copy, PartialEq, Debug)]
enum Expect {
    Good,
    Unknown,
    NoSub,
}

struct Member {
    msg: NotificationMessage,
    keepalive: bool,
}

#[derive(Default)]
struct Obs {
    ops: u64,
    republish_ok: u64,
    republish_refused: u64,
    acks_good: u64,
    acks_unknown: u64,
    acks_nosub: u64,
    ack_requests_rejected: u64,
    acks_in_rejected_requests: u64,
    acks_good_after_rejection: u64,
    fill_requests: u64,
    evictions: u64,
    retained_peak: u64,
    messages: u64,
    shrink_runs: u64,
}

struct Run {
    e: Eng,
    t: i64,
    subs: Vec<(u32, bool)>, // id, alive
    next_val: i64,
    shadow: BTreeMap<(u32, u32), Member>,
    /// acknowledged, result not seen yet: republish may answer either way
    pending: BTreeMap<(u32, u32), u32>,
    /// acknowledged with Good
    acked: BTreeSet<(u32, u32)>,
    /// members named by an acknowledgement in a request that was answered with a service fault (no result
    /// reported): still members; only used to describe the history shape in signatures
    in_rejected: BTreeSet<(u32, u32)>,
    /// expectations per request id
    expect: BTreeMap<u32, Vec<((u32, u32), Expect)>>,
    over_ceiling: bool,
    findings: Vec<(String, String)>,
}

impl Run {
    fn add(&mut self, sig: &str, detail: String) {
        if !self.findings.iter().any(|f| f.0 == sig) {
            self.findings.push((sig.to_string(), detail));
        }
    }
    fn live(&self) -> Vec<u32> {
        self.subs.iter().filter(|s| s.1).map(|s| s.0).collect()
    }
    fn ceiling(&self) -> usize {
        4 * self.live().len()
    }

    fn note_ceiling(&mut self, obs: &mut Obs) {
        let n = self.shadow.len() + self.pending.len();
        obs.retained_peak = obs.retained_peak.max(n as u64);
        if n > self.ceiling() {
            self.over_ceiling = true;
        }
    }

    fn responses(&mut self, rs: Vec<Resp>, obs: &mut Obs) {
        for r in rs {
            if r.fault.is_some() {
                self.expect.remove(&r.request_id);
                continue;
            }
            // acknowledgement results of the request this response answers
            if let Some(exp) = self.expect.remove(&r.request_id) {
                let res = r.results.clone().unwrap_or_default();
                if res.len() != exp.len() {
                    self.add("ack-results|wrong-count", format!("{} acknowledgements sent, {} results", exp.len(), res.len()));
                }
                for (i, (key, want)) in exp.iter().enumerate() {
                    let got = res.get(i).cloned().unwrap_or(StatusCode::BadUnexpectedError);
                    match want {
                        Expect::Good => {
                            self.pending.remove(key);
                            let after_rejection = self.in_rejected.remove(key);
                            if got.is_good() {
                                obs.acks_good += 1;
                                if after_rejection {
                                    obs.acks_good_after_rejection += 1;
                                }
                                // the subscription may have been deleted since the request was sent
                                if self.subs.iter().any(|s| s.0 == key.0 && s.1) {
                                    self.acked.insert(*key);
                                }
                            } else if after_rejection {
                                self.add(
                                    &format!("ack-of-retained-message|named-before-in-rejected-publish-request|answered-{}", sc(got)),
                                    format!("subscription {} sequence number {} was named before only in a publish request answered with a service fault (no result Good reported), had just been republished successfully, its acknowledgement was answered {}", key.0, key.1, sc(got)),
                                );
                            } else {
                                self.add(
                                    &format!("ack-of-retained-message|answered-{}", sc(got)),
                                    format!("subscription {} sequence number {} had just been republished successfully, its acknowledgement was answered {}", key.0, key.1, sc(got)),
                                );
                            }
                        }
                        Expect::Unknown => {
                            if got == StatusCode::BadSequenceNumberUnknown {
                                obs.acks_unknown += 1;
                            } else {
                                self.add(
                                    &format!("ack-of-unknown-sequence-number|answered-{}", sc(got)),
                                    format!("subscription {} sequence number {} is not retained (never sent or already acknowledged), acknowledgement answered {}", key.0, key.1, sc(got)),
                                );
                            }
                        }
                        Expect::NoSub => {
                            obs.acks_nosub += 1;
                            if got.is_good() {
                                self.add("ack-for-unknown-subscription|answered-Good", format!("subscription {} does not exist", key.0));
                            }
                        }
                    }
                }
            } else if r.results.as_ref().map(|v| !v.is_empty()).unwrap_or(false) {
                self.add("ack-results|results-without-acknowledgements", format!("request {} carried no acknowledgements", r.request_id));
            }
            if let Some(msg) = r.msg {
                obs.messages += 1;
                let keepalive = matches!(r.body, Body::KeepAlive);
                if let Body::Status(_) = r.body {
                    // subscription closed by the server
                    for s in self.subs.iter_mut() {
                        if s.0 == r.sub {
                            s.1 = false;
                        }
                    }
                    self.drop_sub(r.sub);
                    continue;
                }
                if !keepalive && self.shadow.get(&(r.sub, r.seq)).map(|m| !m.keepalive).unwrap_or(false) {
                    self.add("sequence-number-reused", format!("subscription {} sequence number {} sent twice", r.sub, r.seq));
                }
                self.shadow.insert((r.sub, r.seq), Member { msg, keepalive });
            }
        }
        self.note_ceiling(obs);
    }

    fn drop_sub(&mut self, sub: u32) {
        self.shadow.retain(|k, _| k.0 != sub);
        self.pending.retain(|k, _| k.0 != sub);
        self.acked.retain(|k| k.0 != sub);
        self.in_rejected.retain(|k| k.0 != sub);
    }

    /// Republish every member and every acknowledged number; reconcile evictions
    fn verify(&mut self, after: &str, obs: &mut Obs) {
        let keys: Vec<(u32, u32)> = self.shadow.keys().cloned().collect();
        let allowed = self.over_ceiling;
        let mut gone: Vec<(u32, u32)> = Vec::new();
        for k in keys {
            let m = &self.shadow[&k];
            match self.e.republish(k.0, k.1) {
                Ok(msg) => {
                    obs.republish_ok += 1;
                    if msg != m.msg {
                        let d = format!("subscription {} sequence number {}: republished message differs from the one sent in the publish response (after {})", k.0, k.1, after);
                        self.add("republish|message-differs-from-original", d);
                    }
                }
                Err(st) => {
                    obs.republish_refused += 1;
                    if m.keepalive {
                        gone.push(k); // keep-alives need not be retained
                    } else if st == StatusCode::BadMessageNotAvailable && allowed {
                        obs.evictions += 1;
                        gone.push(k);
                    } else if self.in_rejected.contains(&k) {
                        let d = format!(
                            "subscription {} sequence number {} was sent, its only acknowledgement travelled in a publish request the server rejected with a service fault (no result Good was ever reported), retained count never exceeded the ceiling {} since it was last available, but Republish answers {} (after {})",
                            k.0, k.1, self.ceiling(), sc(st), after
                        );
                        self.add(&format!("republish|message-acknowledged-only-in-rejected-publish-request-unavailable|{}", sc(st)), d);
                        gone.push(k);
                    } else {
                        let d = format!(
                            "subscription {} sequence number {} was sent, never acknowledged, retained count never exceeded the ceiling {} since it was last available, but Republish answers {} (after {})",
                            k.0, k.1, self.ceiling(), sc(st), after
                        );
                        self.add(&format!("republish|retained-message-unavailable|{}", sc(st)), d);
                        gone.push(k);
                    }
                }
            }
        }
        for k in gone {
            self.shadow.remove(&k);
            self.in_rejected.remove(&k);
        }
        let acked: Vec<(u32, u32)> = self.acked.iter().cloned().collect();
        for k in acked {
            match self.e.republish(k.0, k.1) {
                Ok(_) => {
                    let d = format!("subscription {} sequence number {} was acknowledged with result Good and is still republished (after {})", k.0, k.1, after);
                    self.add("republish|acknowledged-message-still-available", d);
                }
                Err(st) => {
                    obs.republish_refused += 1;
                    if st != StatusCode::BadMessageNotAvailable {
                        self.add(&format!("republish|acknowledged-message-answered-{}", sc(st)), format!("subscription {} sequence number {}", k.0, k.1));
                    }
                }
            }
        }
        // everything that is left has just been seen: the eviction allowance starts over
        self.over_ceiling = self.shadow.len() + self.pending.len() > self.ceiling();
    }

    fn feed(&mut self, obs: &mut Obs) {
        for _ in 0..8 {
            let (q, _, _, subs) = self.e.lens();
            if subs == 0 || q >= subs {
                break;
            }
            let (_id, _f) = self.e.publish(self.t, None);
            let rs = self.e.take();
            self.responses(rs, obs);
        }
    }

    fn apply(&mut self, op: &Op, obs: &mut Obs) {
        obs.ops += 1;
        let a = |i: usize| op.get(i).cloned().unwrap_or(0);
        match a(0) {
            NEWSUB => {
                if self.live().len() >= 3 {
                    return;
                }
                match self.e.create_sub(100.0, 3000, 2 + (self.subs.len() as u32 % 3), 0, true) {
                    Ok(s) => {
                        let var = self.subs.len() % NVARS;
                        if let Err(st) = self.e.create_item(s.id, var, var as u32 + 1, 100.0, BIG_QUEUE as u32, true, MonitoringMode::Reporting) {
                            self.add("harness|create-item-failed", sc(st));
                        }
                        self.subs.push((s.id, true));
                    }
                    Err(st) => self.add("harness|create-subscription-failed", sc(st)),
                }
            }
            DELSUB => {
                let live = self.live();
                if live.len() < 2 {
                    return;
                }
                let id = live[(a(1).unsigned_abs() as usize) % live.len()];
                let st = self.e.delete_sub(id);
                if !st.is_good() {
                    self.add("harness|delete-subscription-failed", sc(st));
                }
                for s in self.subs.iter_mut() {
                    if s.0 == id {
                        s.1 = false;
                    }
                }
                self.drop_sub(id);
                // a smaller ceiling applies from the next tick on
                self.note_ceiling(obs);
            }
            WRITE => {
                for (i, s) in self.subs.clone().iter().enumerate() {
                    if s.1 && (a(1) >> (i % 8)) & 1 == 1 {
                        let v = self.next_val;
                        self.next_val += 1;
                        self.e.set_value(i % NVARS, v, self.t);
                    }
                }
            }
            TICK => {
                self.feed(obs);
                self.t += 100;
                self.e.timer(self.t);
                let rs = self.e.take();
                self.responses(rs, obs);
            }
            ACK => {
                let live = self.live();
                if live.is_empty() {
                    return;
                }
                let kind = a(1).rem_euclid(7);
                let pick = a(2).unsigned_abs() as usize;
                let data_members: Vec<(u32, u32)> = self.shadow.iter().filter(|(_, m)| !m.keepalive).map(|(k, _)| *k).collect();
                let mut acks: Vec<((u32, u32), Expect)> = Vec::new();
                let take_member = |n: usize| -> Option<(u32, u32)> { if data_members.is_empty() { None } else { Some(data_members[n % data_members.len()]) } };
                match kind {
                    0 => {
                        if let Some(k) = take_member(pick) {
                            acks.push((k, Expect::Good));
                        }
                    }
                    1 => {
                        // several members at once
                        for j in 0..(1 + pick % 3) {
                            if let Some(k) = take_member(pick / 3 + j * 7) {
                                if !acks.iter().any(|x| x.0 == k) {
                                    acks.push((k, Expect::Good));
                                }
                            }
                        }
                    }
                    2 => {
                        // already acknowledged
                        if let Some(k) = self.acked.iter().nth(pick % self.acked.len().max(1)).cloned() {
                            acks.push((k, Expect::Unknown));
                        }
                    }
                    3 => {
                        // never sent
                        let sub = live[pick % live.len()];
                        let seq = match pick % 3 {
                            0 => 0,
                            1 => 1_000_000 + pick as u32,
                            _ => u32::MAX,
                        };
                        acks.push(((sub, seq), Expect::Unknown));
                    }
                    4 => {
                        acks.push(((0xFFF0_0000 + pick as u32 % 16, 1), Expect::NoSub));
                    }
                    5 => {
                        // the same member twice in one request, surrounded by an unknown one
                        if let Some(k) = take_member(pick) {
                            acks.push((k, Expect::Good));
                            acks.push(((k.0, 2_000_000), Expect::Unknown));
                            acks.push((k, Expect::Unknown));
                        }
                    }
                    _ => {
                        // unknown first, then a member: the unknown one must not spoil the rest
                        if let Some(k) = take_member(pick) {
                            acks.push(((k.0, 3_000_000), Expect::Unknown));
                            acks.push((k, Expect::Good));
                        }
                    }
                }
                if acks.is_empty() {
                    return;
                }
                // members about to be acknowledged are checked to be available right now
                for (k, w) in &acks {
                    if *w == Expect::Good {
                        if let Err(st) = self.e.republish(k.0, k.1) {
                            if !(self.over_ceiling && st == StatusCode::BadMessageNotAvailable) {
                                let shape = if self.in_rejected.contains(k) { "message-acknowledged-only-in-rejected-publish-request-unavailable" } else { "retained-message-unavailable" };
                                self.add(
                                    &format!("republish|{}|{}", shape, sc(st)),
                                    format!("subscription {} sequence number {} unavailable before its acknowledgement", k.0, k.1),
                                );
                            }
                            self.shadow.remove(k);
                            self.in_rejected.remove(k);
                            return;
                        }
                    }
                }
                let req_acks: Vec<SubscriptionAcknowledgement> = acks
                    .iter()
                    .map(|(k, _)| SubscriptionAcknowledgement { subscription_id: k.0, sequence_number: k.1 })
                    .collect();
                let (q_before, _, _, subs_before) = self.e.lens();
                let (id, fault) = self.e.publish(self.t, Some(req_acks));
                if let Some(f) = fault {
                    // the service answered with a fault: no acknowledgement result was reported, so nothing
                    // counts as acknowledged. Whatever the server sent while trying to make room is taken.
                    if f == StatusCode::BadTooManyPublishRequests && q_before >= 2 * subs_before {
                        obs.ack_requests_rejected += 1;
                        for (k, w) in &acks {
                            obs.acks_in_rejected_requests += 1;
                            if *w == Expect::Good {
                                self.in_rejected.insert(*k);
                            }
                        }
                    } else {
                        self.add("harness|publish-with-acks-rejected", format!("{} with {} of {} requests queued", sc(f), q_before, 2 * subs_before));
                    }
                    let rs = self.e.take();
                    self.responses(rs, obs);
                    return;
                }
                for (k, w) in &acks {
                    if *w == Expect::Good {
                        self.shadow.remove(k);
                        self.pending.insert(*k, id);
                    }
                }
                self.expect.insert(id, acks);
                let rs = self.e.take();
                self.responses(rs, obs);
            }
            FILL => {
                for _ in 0..8 {
                    let (q, _, _, subs) = self.e.lens();
                    if subs == 0 || q >= 2 * subs {
                        break;
                    }
                    obs.fill_requests += 1;
                    let (_id, f) = self.e.publish(self.t, None);
                    let rs = self.e.take();
                    self.responses(rs, obs);
                    if f.is_some() {
                        break;
                    }
                }
            }
            REPUB => {
                let live = self.live();
                if live.is_empty() {
                    return;
                }
                let pick = a(2).unsigned_abs() as usize;
                let sub = live[pick % live.len()];
                let (subid, seq, label) = match a(1).rem_euclid(3) {
                    0 => (sub, 5_000_000 + pick as u32, "never-sent"),
                    1 => (sub, 0, "zero"),
                    _ => (0xFFF1_0000, 1, "unknown-subscription"),
                };
                match self.e.republish(subid, seq) {
                    Ok(_) => self.add(&format!("republish|message-for-{}-sequence-number", label), format!("subscription {} sequence number {}", subid, seq)),
                    Err(_) => obs.republish_refused += 1,
                }
            }
            _ => {}
        }
    }
}

fn run_ops(ops: &[Op], obs: &mut Obs) -> Vec<(String, String)> {
    let mut r = Run {
        e: Eng::new(),
        t: 0,
        subs: Vec::new(),
        next_val: 0,
        shadow: BTreeMap::new(),
        pending: BTreeMap::new(),
        acked: BTreeSet::new(),
        in_rejected: BTreeSet::new(),
        expect: BTreeMap::new(),
        over_ceiling: false,
        findings: Vec::new(),
    };
    r.next_val = (0..NVARS).map(|v| r.e.get_value(v)).max().unwrap_or(0).max(0) + 1;
    r.apply(&vec![NEWSUB], obs);
    for op in ops {
        r.apply(op, obs);
        let name = op_name(op);
        r.verify(&name, obs);
    }
    r.findings
}

fn op_name(o: &Op) -> String {
    let a = |i: usize| o.get(i).cloned().unwrap_or(0);
    match a(0) {
        WRITE => format!("write({:#b})", a(1) & 7),
        TICK => "feed+interval-tick".into(),
        ACK => format!(
            "publish-ack({},{})",
            ["one-member", "several-members", "already-acknowledged", "never-sent", "unknown-subscription", "member-twice-and-unknown", "unknown-then-member"][a(1).rem_euclid(7) as usize],
            a(2)
        ),
        REPUB => format!("republish-probe({})", a(1).rem_euclid(3)),
        NEWSUB => "create-subscription".into(),
        DELSUB => format!("delete-subscription({})", a(1)),
        FILL => "fill-publish-request-queue".into(),
        _ => "?".into(),
    }
}

fn describe(ops: &[Op]) -> String {
    ops.iter().map(op_name).collect::<Vec<_>>().join("; ")
}

fn gen_ops(rng: &mut Rng, len: usize, ack_rate: u64) -> Vec<Op> {
    let mut ops = Vec::new();
    if rng.bool() {
        ops.push(vec![NEWSUB]);
    }
    while ops.len() < len {
        match rng.below(100) {
            0..=24 => {
                ops.push(vec![WRITE, 1 + rng.below(7) as i64]);
                ops.push(vec![TICK]);
            }
            25..=34 => ops.push(vec![TICK]),
            35..=74 => {
                if rng.below(100) < ack_rate {
                    // one acknowledgement request in six meets a full publish request queue
                    if rng.below(6) == 0 {
                        ops.push(vec![FILL]);
                    }
                    ops.push(vec![ACK, rng.below(7) as i64, rng.below(1000) as i64]);
                } else {
                    ops.push(vec![WRITE, 1 + rng.below(7) as i64]);
                    ops.push(vec![TICK]);
                }
            }
            75..=84 => ops.push(vec![REPUB, rng.below(3) as i64, rng.below(1000) as i64]),
            85..=91 => ops.push(vec![NEWSUB]),
            92..=95 => ops.push(vec![DELSUB, rng.below(3) as i64]),
            _ => ops.push(vec![ACK, 2 + rng.below(3) as i64, rng.below(1000) as i64]),
        }
    }
    ops
}

fn shrink(ops: &[Op], sig: &str, budget: usize, obs: &mut Obs) -> Vec<Op> {
    let mut cur: Vec<Op> = ops.to_vec();
    let mut runs = 0usize;
    let mut chunk = (cur.len() / 2).max(1);
    loop {
        let mut i = 0;
        let mut progressed = false;
        while i < cur.len() && runs < budget {
            let end = (i + chunk).min(cur.len());
            let mut cand = cur.clone();
            cand.drain(i..end);
            runs += 1;
            let mut scratch = Obs::default();
            let fires = match catch(|| run_ops(&cand, &mut scratch)) {
                Ok(fs) => fs.iter().any(|(s, _)| s == sig),
                Err(p) => p.signature() == sig,
            };
            if fires {
                cur = cand;
                progressed = true;
            } else {
                i = end;
            }
        }
        if runs >= budget || (chunk == 1 && !progressed) {
            break;
        }
        if chunk > 1 {
            chunk /= 2;
        }
    }
    obs.shrink_runs += runs as u64;
    cur
}

fn exec(ops: &[Op], class: &str, do_shrink: bool, shrunk: &mut Vec<String>, rep: &mut Report, obs: &mut Obs) {
    let case = json!({"prop": "C40", "class": class, "ops": ops});
    rep.begin_case(&case);
    let out = catch(|| run_ops(ops, obs));
    rep.case(class);
    rep.sample(json!({"class": class, "history": describe(&ops[..ops.len().min(30)])}));
    let found = match out {
        Ok(f) => f,
        Err(p) => vec![(p.signature(), format!("panic in repository code: {} at {}:{}", p.msg, p.file, p.line))],
    };
    for (sig, detail) in found {
        if sig.starts_with("harness|") {
            rep.inconclusive(format!("{}: {}", sig, detail));
            continue;
        }
        let (w, d) = if do_shrink && !shrunk.contains(&sig) && ops.len() > 4 {
            shrunk.push(sig.clone());
            let small = shrink(ops, &sig, 300, obs);
            let mut scratch = Obs::default();
            let d = match catch(|| run_ops(&small, &mut scratch)) {
                Ok(fs) => fs.into_iter().find(|(s, _)| *s == sig).map(|x| x.1).unwrap_or(detail.clone()),
                Err(_) => detail.clone(),
            };
            (small, d)
        } else {
            (ops.to_vec(), detail)
        };
        rep.violation(
            sig,
            format!("{} | history ({} ops after create-subscription): {}", d, w.len(), describe(&w[..w.len().min(40)])),
            json!({"prop": "C40", "class": class, "ops": w}),
        );
    }
}

fn class_of(ops: &[Op], ack_rate: u64) -> String {
    let cnt = |c: i64| ops.iter().filter(|o| o.first() == Some(&c)).count();
    let kinds: BTreeSet<i64> = ops.iter().filter(|o| o[0] == ACK).map(|o| o[1].rem_euclid(7)).collect();
    format!(
        "ackrate{} fill{} newsub{} delsub{} ackkinds{} repub{} len{}",
        ack_rate,
        cnt(FILL).min(3),
        cnt(NEWSUB).min(3),
        cnt(DELSUB).min(3),
        kinds.iter().map(|k| k.to_string()).collect::<Vec<_>>().join(""),
        cnt(REPUB).min(4),
        ops.len() / 25
    )
}

pub fn run(args: &Args, rep: &mut Report) {
    let mut obs = Obs::default();
    let mut shrunk = Vec::new();
    if let Some(path) = &args.replay {
        let v: Value = serde_json::from_slice(&std::fs::read(path).unwrap_or_default()).unwrap_or(Value::Null);
        let ops: Vec<Op> = v["case"]["ops"]
            .as_array()
            .map(|a| a.iter().map(|o| o.as_array().map(|x| x.iter().map(|n| n.as_i64().unwrap_or(0)).collect()).unwrap_or_default()).collect())
            .unwrap_or_default();
        exec(&ops, "replay", false, &mut shrunk, rep, &mut obs);
        rep.distinct.insert(1);
        return;
    }
    if args.shard == 0 {
        // scripted: one of each acknowledgement kind against a small retained set
        let mut ops: Vec<Op> = vec![vec![WRITE, 1], vec![TICK], vec![WRITE, 1], vec![TICK]];
        for kind in 0..7 {
            ops.push(vec![ACK, kind, 0]);
            ops.push(vec![WRITE, 1]);
            ops.push(vec![TICK]);
        }
        exec(&ops, "scripted every-ack-kind", false, &mut shrunk, rep, &mut obs);
        // scripted: every acknowledgement kind against a full publish request queue (request rejected, nothing
        // acknowledged), then the same acknowledgement again in a request that is admitted
        let mut ops: Vec<Op> = vec![vec![WRITE, 1], vec![TICK], vec![WRITE, 1], vec![TICK]];
        for kind in 0..7 {
            ops.push(vec![FILL]);
            ops.push(vec![ACK, kind, 0]);
            ops.push(vec![ACK, kind, 0]);
            ops.push(vec![WRITE, 1]);
            ops.push(vec![TICK]);
            ops.push(vec![ACK, kind, 0]);
            ops.push(vec![WRITE, 1]);
            ops.push(vec![TICK]);
        }
        exec(&ops, "scripted every-ack-kind-rejected-then-admitted", false, &mut shrunk, rep, &mut obs);
        // scripted: fill past the ceiling without acknowledging
        let mut ops: Vec<Op> = Vec::new();
        for _ in 0..8 {
            ops.push(vec![WRITE, 1]);
            ops.push(vec![TICK]);
        }
        exec(&ops, "scripted past-the-ceiling", false, &mut shrunk, rep, &mut obs);
    }
    let mut rng = Rng::new(args.seed ^ 0xC40 ^ ((args.shard as u64) << 32));
    let n = args.budget(1600, 120_000);
    for _ in 0..n {
        let ack_rate = *rng.pick(&[10u64, 40, 70, 95]);
        let len = *rng.pick(&[20usize, 50, 100, 160]);
        let ops = gen_ops(&mut rng, len, ack_rate);
        let class = class_of(&ops, ack_rate);
        exec(&ops, &class, true, &mut shrunk, rep, &mut obs);
    }
    rep.count("histories", n);
    rep.count("ops_executed", obs.ops);
    rep.count("notification_messages_shadowed", obs.messages);
    rep.count("republish_identical", obs.republish_ok);
    rep.count("republish_refused", obs.republish_refused);
    rep.count("acks_answered_good", obs.acks_good);
    rep.count("acks_answered_sequence_number_unknown", obs.acks_unknown);
    rep.count("acks_for_unknown_subscription", obs.acks_nosub);
    rep.count("publish_requests_with_acks_rejected_queue_full", obs.ack_requests_rejected);
    rep.count("acks_in_rejected_requests", obs.acks_in_rejected_requests);
    rep.count("acks_answered_good_after_earlier_rejection", obs.acks_good_after_rejection);
    rep.count("fill_publish_requests", obs.fill_requests);
    rep.count("evictions_at_ceiling_tolerated", obs.evictions);
    rep.count("shrink_reexecutions", obs.shrink_runs);
}
