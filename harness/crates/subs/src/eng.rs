//! A real `Server` (state, address space) plus one real `Session`, driven through the cfg hooks in
//! VIRTUAL time. No sockets, no sleeping; every time value handed to the engine comes from the case.
#![allow(dead_code)]

use crate::common::*;
use crate::pki;
use chrono::{TimeZone, Utc};
use opcua::core::supported_message::SupportedMessage;
use opcua::server::prelude::*;
use opcua::server::session::Session;
use opcua::server::state::ServerState;
use opcua::sync::RwLock;
use opcua::verif::server as hk;
use std::sync::{Arc, OnceLock};

/// 2100-01-01T00:00:00Z in unix milliseconds. The virtual clock lives far above the wall clock because
/// `Subscription::new` and `create_monitored_items` stamp their objects with the real `Utc::now()`;
/// with the virtual epoch in 2100 the first elapsed-time computation is positive whatever the wall
/// clock says, and from then on only virtual times are compared.
pub const BASE_MS: i64 = 4_102_444_800_000;

pub fn at(ms_since_base: i64) -> DateTimeUtc {
    Utc.timestamp_millis_opt(BASE_MS + ms_since_base).unwrap()
}

pub const NVARS: usize = 12;
/// Item queue size limit configured for the server of these workloads (C24's overflow policy then never
/// applies to the "large queue" items of a bounded history)
pub const BIG_QUEUE: usize = 4096;

pub struct World {
    pub server: Server,
    pub state: Arc<RwLock<ServerState>>,
    pub aspace: Arc<RwLock<AddressSpace>>,
    pub nodes: Vec<NodeId>,
    pub dec: DecodingOptions,
}

static WORLD: OnceLock<World> = OnceLock::new();

pub fn world() -> &'static World {
    WORLD.get_or_init(|| {
        let scratch = pki::scratch_dir("subs");
        let mut config = ServerBuilder::new_anonymous("vh-subs")
            .pki_dir(scratch.join("pki"))
            .config();
        config.create_sample_keypair = false;
        config.limits.max_monitored_item_queue_size = BIG_QUEUE;
        let server = Server::new(config);
        let state = server.server_state();
        let aspace = server.address_space();
        let mut nodes = Vec::new();
        {
            let mut a = aspace.write();
            let ns = a.register_namespace("urn:vh-subs").unwrap();
            let mut vars = Vec::new();
            for i in 0..NVARS {
                let id = NodeId::new(ns, format!("v{}", i));
                vars.push(Variable::new(&id, format!("v{}", i), format!("v{}", i), 0i64));
                nodes.push(id);
            }
            let ok = a.add_variables(vars, &NodeId::objects_folder_id());
            assert!(ok.iter().all(|b| *b), "variables not added");
        }
        let dec = state.read().decoding_options();
        // the certificate store directory is only looked at during construction
        let _ = std::fs::remove_dir_all(&scratch);
        World {
            server,
            state,
            aspace,
            nodes,
            dec,
        }
    })
}

#[derive(Clone, Debug, PartialEq)]
pub enum Body {
    KeepAlive,
    /// (client handle, Int64 payload if it is one)
    Data(Vec<(u32, Option<i64>)>),
    Status(StatusCode),
    Other,
}

#[derive(Clone, Debug)]
pub struct Resp {
    pub request_id: u32,
    pub handle: u32,
    /// Some(status) for a ServiceFault
    pub fault: Option<StatusCode>,
    pub sub: u32,
    pub seq: u32,
    pub body: Body,
    pub results: Option<Vec<StatusCode>>,
    pub avail: Option<Vec<u32>>,
    pub more: bool,
    pub msg: Option<NotificationMessage>,
}

pub fn parse_message(msg: &NotificationMessage, dec: &DecodingOptions) -> Body {
    let nd = match msg.notification_data {
        None => return Body::KeepAlive,
        Some(ref v) if v.is_empty() => return Body::KeepAlive,
        Some(ref v) => v,
    };
    let mut data = Vec::new();
    let mut status = None;
    let mut other = false;
    for n in nd {
        let id = match n.node_id.as_object_id() {
            Ok(id) => id,
            Err(_) => {
                other = true;
                continue;
            }
        };
        match id {
            ObjectId::DataChangeNotification_Encoding_DefaultBinary => {
                if let Ok(d) = n.decode_inner::<DataChangeNotification>(dec) {
                    for m in d.monitored_items.unwrap_or_default() {
                        let v = match m.value.value {
                            Some(Variant::Int64(v)) => Some(v),
                            _ => None,
                        };
                        data.push((m.client_handle, v));
                    }
                } else {
                    other = true;
                }
            }
            ObjectId::StatusChangeNotification_Encoding_DefaultBinary => {
                if let Ok(s) = n.decode_inner::<StatusChangeNotification>(dec) {
                    status = Some(s.status);
                } else {
                    other = true;
                }
            }
            _ => other = true,
        }
    }
    if let Some(s) = status {
        Body::Status(s)
    } else if !data.is_empty() {
        Body::Data(data)
    } else if other {
        Body::Other
    } else {
        Body::KeepAlive
    }
}

pub fn parse_response(request_id: u32, m: SupportedMessage, dec: &DecodingOptions) -> Resp {
    match m {
        SupportedMessage::PublishResponse(r) => {
            let body = parse_message(&r.notification_message, dec);
            Resp {
                request_id,
                handle: r.response_header.request_handle,
                fault: if r.response_header.service_result.is_good() {
                    None
                } else {
                    Some(r.response_header.service_result)
                },
                sub: r.subscription_id,
                seq: r.notification_message.sequence_number,
                body,
                results: r.results.clone(),
                avail: r.available_sequence_numbers.clone(),
                more: r.more_notifications,
                msg: Some(r.notification_message.clone()),
            }
        }
        SupportedMessage::ServiceFault(f) => Resp {
            request_id,
            handle: f.response_header.request_handle,
            fault: Some(f.response_header.service_result),
            sub: 0,
            seq: 0,
            body: Body::Other,
            results: None,
            avail: None,
            more: false,
            msg: None,
        },
        _ => Resp {
            request_id,
            handle: 0,
            fault: Some(StatusCode::BadUnexpectedError),
            sub: 0,
            seq: 0,
            body: Body::Other,
            results: None,
            avail: None,
            more: false,
            msg: None,
        },
    }
}

pub struct SubInfo {
    pub id: u32,
    pub interval_ms: f64,
    pub lifetime: u32,
    pub keep_alive: u32,
}

/// One session on the shared server. Every method calls the real service / tick entry points.
pub struct Eng {
    pub w: &'static World,
    pub session: Arc<RwLock<Session>>,
    pub next_request: u32,
}

pub fn handle_of(request_id: u32) -> u32 {
    request_id ^ 0x5A5A_0000
}

impl Eng {
    pub fn new() -> Eng {
        let w = world();
        let session = Arc::new(RwLock::new(Session::new(w.state.clone())));
        Eng {
            w,
            session,
            next_request: 1,
        }
    }

    fn header(&mut self) -> RequestHeader {
        let id = self.next_request;
        self.next_request += 1;
        RequestHeader {
            request_handle: handle_of(id),
            ..Default::default()
        }
    }

    pub fn create_sub(
        &mut self,
        interval_ms: f64,
        lifetime: u32,
        keep_alive: u32,
        priority: u8,
        enabled: bool,
    ) -> Result<SubInfo, StatusCode> {
        let req = CreateSubscriptionRequest {
            request_header: self.header(),
            requested_publishing_interval: interval_ms,
            requested_lifetime_count: lifetime,
            requested_max_keep_alive_count: keep_alive,
            max_notifications_per_publish: 0,
            publishing_enabled: enabled,
            priority,
        };
        match hk::create_subscription(self.w.state.clone(), self.session.clone(), &req) {
            SupportedMessage::CreateSubscriptionResponse(r) => Ok(SubInfo {
                id: r.subscription_id,
                interval_ms: r.revised_publishing_interval,
                lifetime: r.revised_lifetime_count,
                keep_alive: r.revised_max_keep_alive_count,
            }),
            SupportedMessage::ServiceFault(f) => Err(f.response_header.service_result),
            _ => Err(StatusCode::BadUnexpectedError),
        }
    }

    pub fn delete_sub(&mut self, id: u32) -> StatusCode {
        let req = DeleteSubscriptionsRequest {
            request_header: self.header(),
            subscription_ids: Some(vec![id]),
        };
        match hk::delete_subscriptions(self.session.clone(), &req) {
            SupportedMessage::DeleteSubscriptionsResponse(r) => r
                .results
                .and_then(|v| v.first().cloned())
                .unwrap_or(StatusCode::BadUnexpectedError),
            SupportedMessage::ServiceFault(f) => f.response_header.service_result,
            _ => StatusCode::BadUnexpectedError,
        }
    }

    pub fn set_publishing(&mut self, id: u32, enabled: bool) -> StatusCode {
        let req = SetPublishingModeRequest {
            request_header: self.header(),
            publishing_enabled: enabled,
            subscription_ids: Some(vec![id]),
        };
        match hk::set_publishing_mode(self.session.clone(), &req) {
            SupportedMessage::SetPublishingModeResponse(r) => r
                .results
                .and_then(|v| v.first().cloned())
                .unwrap_or(StatusCode::BadUnexpectedError),
            SupportedMessage::ServiceFault(f) => f.response_header.service_result,
            _ => StatusCode::BadUnexpectedError,
        }
    }

    /// Returns (monitored item id, revised sampling interval, revised queue size)
    pub fn create_item(
        &mut self,
        sub: u32,
        var: usize,
        client_handle: u32,
        sampling_ms: f64,
        queue_size: u32,
        discard_oldest: bool,
        mode: MonitoringMode,
    ) -> Result<(u32, f64, u32), StatusCode> {
        self.create_item_ext(sub, var, client_handle, sampling_ms, queue_size, discard_oldest, mode, TimestampsToReturn::Neither, None)
    }

    /// As `create_item`, with the timestamps the client wants back and an optional data change filter
    /// (trigger only, no deadband)
    pub fn create_item_ext(
        &mut self,
        sub: u32,
        var: usize,
        client_handle: u32,
        sampling_ms: f64,
        queue_size: u32,
        discard_oldest: bool,
        mode: MonitoringMode,
        timestamps: TimestampsToReturn,
        trigger: Option<DataChangeTrigger>,
    ) -> Result<(u32, f64, u32), StatusCode> {
        let filter = match trigger {
            None => ExtensionObject::null(),
            Some(trigger) => ExtensionObject::from_encodable(
                ObjectId::DataChangeFilter_Encoding_DefaultBinary,
                &DataChangeFilter {
                    trigger,
                    deadband_type: DeadbandType::None as u32,
                    deadband_value: 0f64,
                },
            ),
        };
        let req = CreateMonitoredItemsRequest {
            request_header: self.header(),
            subscription_id: sub,
            timestamps_to_return: timestamps,
            items_to_create: Some(vec![MonitoredItemCreateRequest {
                item_to_monitor: ReadValueId {
                    node_id: self.w.nodes[var % NVARS].clone(),
                    attribute_id: AttributeId::Value as u32,
                    index_range: UAString::null(),
                    data_encoding: QualifiedName::null(),
                },
                monitoring_mode: mode,
                requested_parameters: MonitoringParameters {
                    client_handle,
                    sampling_interval: sampling_ms,
                    filter,
                    queue_size,
                    discard_oldest,
                },
            }]),
        };
        match hk::create_monitored_items(
            self.w.state.clone(),
            self.session.clone(),
            self.w.aspace.clone(),
            &req,
        ) {
            SupportedMessage::CreateMonitoredItemsResponse(r) => {
                let r = r.results.and_then(|v| v.into_iter().next());
                match r {
                    Some(r) if r.status_code.is_good() => {
                        Ok((r.monitored_item_id, r.revised_sampling_interval, r.revised_queue_size))
                    }
                    Some(r) => Err(r.status_code),
                    None => Err(StatusCode::BadUnexpectedError),
                }
            }
            SupportedMessage::ServiceFault(f) => Err(f.response_header.service_result),
            _ => Err(StatusCode::BadUnexpectedError),
        }
    }

    pub fn delete_item(&mut self, sub: u32, item: u32) -> StatusCode {
        let req = DeleteMonitoredItemsRequest {
            request_header: self.header(),
            subscription_id: sub,
            monitored_item_ids: Some(vec![item]),
        };
        match hk::delete_monitored_items(self.session.clone(), &req) {
            SupportedMessage::DeleteMonitoredItemsResponse(r) => r
                .results
                .and_then(|v| v.first().cloned())
                .unwrap_or(StatusCode::BadUnexpectedError),
            SupportedMessage::ServiceFault(f) => f.response_header.service_result,
            _ => StatusCode::BadUnexpectedError,
        }
    }

    pub fn set_monitoring_mode(&mut self, sub: u32, item: u32, mode: MonitoringMode) -> StatusCode {
        let req = SetMonitoringModeRequest {
            request_header: self.header(),
            subscription_id: sub,
            monitoring_mode: mode,
            monitored_item_ids: Some(vec![item]),
        };
        match hk::set_monitoring_mode(self.session.clone(), &req) {
            SupportedMessage::SetMonitoringModeResponse(r) => r
                .results
                .and_then(|v| v.first().cloned())
                .unwrap_or(StatusCode::BadUnexpectedError),
            SupportedMessage::ServiceFault(f) => f.response_header.service_result,
            _ => StatusCode::BadUnexpectedError,
        }
    }

    /// Server-side value change, as an application's data source would do it
    pub fn set_value(&mut self, var: usize, v: i64, now_ms: i64) {
        let ts = DateTime::from(at(now_ms));
        let mut a = self.w.aspace.write();
        let ok = a.set_variable_value_by_ref(&self.w.nodes[var % NVARS], Variant::Int64(v), &ts, &ts);
        assert!(ok, "set_variable_value failed");
    }

    pub fn get_value(&self, var: usize) -> i64 {
        let a = self.w.aspace.read();
        match a.get_variable_value(self.w.nodes[var % NVARS].clone()) {
            Ok(DataValue {
                value: Some(Variant::Int64(v)),
                ..
            }) => v,
            _ => i64::MIN,
        }
    }

    /// The Publish service at server time `now`; the request header carries `timestamp` and `timeout_hint`.
    /// Returns the request id used and, if the service answered at once, that fault.
    pub fn publish_at(
        &mut self,
        now: &DateTimeUtc,
        timestamp: DateTime,
        timeout_hint: u32,
        acks: Option<Vec<SubscriptionAcknowledgement>>,
    ) -> (u32, Option<StatusCode>) {
        let id = self.next_request;
        self.next_request += 1;
        let req = PublishRequest {
            request_header: RequestHeader {
                request_handle: handle_of(id),
                timestamp,
                timeout_hint,
                ..Default::default()
            },
            subscription_acknowledgements: acks,
        };
        let r = hk::async_publish(now, self.session.clone(), self.w.aspace.clone(), id, &req);
        let fault = r.map(|m| match m {
            SupportedMessage::ServiceFault(f) => f.response_header.service_result,
            _ => StatusCode::BadUnexpectedError,
        });
        (id, fault)
    }

    pub fn publish(&mut self, now_ms: i64, acks: Option<Vec<SubscriptionAcknowledgement>>) -> (u32, Option<StatusCode>) {
        let now = at(now_ms);
        self.publish_at(&now, DateTime::from(now), 0, acks)
    }

    pub fn expire_at(&mut self, now: &DateTimeUtc) {
        let mut s = self.session.write();
        hk::session_expire_stale_publish_requests(&mut s, now);
    }

    pub fn tick_at(&mut self, now: &DateTimeUtc, timer_fired: bool) -> Result<(), StatusCode> {
        let mut s = self.session.write();
        let a = self.w.aspace.read();
        hk::session_tick_subscriptions(&mut s, now, &a, timer_fired)
    }

    /// What the server's subscription timer does each time it fires: expire, tick
    pub fn timer(&mut self, now_ms: i64) {
        let now = at(now_ms);
        self.expire_at(&now);
        let _ = self.tick_at(&now, true);
    }

    pub fn take(&mut self) -> Vec<Resp> {
        let v = {
            let mut s = self.session.write();
            hk::session_take_publish_responses(&mut s)
        };
        v.into_iter()
            .map(|(id, m)| parse_response(id, m, &self.w.dec))
            .collect()
    }

    /// (queued publish requests, queued responses, retained notifications, subscriptions)
    pub fn lens(&mut self) -> (usize, usize, usize, usize) {
        let mut s = self.session.write();
        hk::session_queue_lengths(&mut s)
    }

    pub fn queued_handles(&mut self) -> Vec<u32> {
        let mut s = self.session.write();
        hk::session_publish_request_handles(&mut s)
    }

    pub fn republish(&mut self, sub: u32, seq: u32) -> Result<NotificationMessage, StatusCode> {
        let req = RepublishRequest {
            request_header: self.header(),
            subscription_id: sub,
            retransmit_sequence_number: seq,
        };
        match hk::republish(self.session.clone(), &req) {
            SupportedMessage::RepublishResponse(r) => Ok(r.notification_message.clone()),
            SupportedMessage::ServiceFault(f) => Err(f.response_header.service_result),
            _ => Err(StatusCode::BadUnexpectedError),
        }
    }
}

/// Name of a status code for signatures and details
pub fn sc(s: StatusCode) -> String {
    format!("{}", s.name())
}

pub fn panic_violation(rep: &mut Report, p: &PanicInfo, class: &str, case: serde_json::Value) {
    rep.violation(
        format!("{}|{}", p.signature(), class),
        format!("panic in repository code: {} at {}:{} ({})", p.msg, p.file, p.line, class),
        case,
    );
}
