//! Server subscription-engine workloads in virtual time (C21, C22, C26, C27, C40).
#[allow(unused_imports)]
pub(crate) use vh_common::{common, gen, pki};
mod c21;
mod c22;
mod c26;
mod c27;
mod c40;
mod eng;
pub mod p_subs;
pub use p_subs::dispatch;
