//! Dispatch for the server subscription-engine properties. Each property has its own module; all of
//! them drive a real Server / Session / AddressSpace through the cfg hooks in virtual time (eng.rs).
use crate::common::*;

pub fn dispatch(args: &Args, rep: &mut Report) -> bool {
    match args.prop.as_str() {
        "C21" => c21(args, rep),
        "C22" => c22(args, rep),
        "C26" => c26(args, rep),
        "C27" => c27(args, rep),
        "C40" => c40(args, rep),
        _ => return false,
    }
    true
}

/// C22: keep-alives keep flowing and idle subscriptions expire on time
pub fn c22(args: &Args, rep: &mut Report) {
    crate::c22::run(args, rep)
}

/// C21: publish responses pair with requests and deliver every data change once
pub fn c21(args: &Args, rep: &mut Report) {
    crate::c21::run(args, rep)
}

/// C26: client timestamps and wall-clock jumps cannot crash subscription processing
pub fn c26(args: &Args, rep: &mut Report) {
    crate::c26::run(args, rep)
}

/// C27: higher-priority subscriptions are served first
pub fn c27(args: &Args, rep: &mut Report) {
    crate::c27::run(args, rep)
}

/// C40: republish and acknowledgement see the same retained notifications
pub fn c40(args: &Args, rep: &mut Report) {
    crate::c40::run(args, rep)
}
