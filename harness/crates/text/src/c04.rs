//! C04: printing a NodeId, ExpandedNodeId, Guid, NumericRange or DateTime in its standard string form and
//! parsing the result yields the original value (DateTime to the printed precision); parsing never
//! panics on any input string.
//!
//! Round trip half: a value described in JSON is built, printed with the real printer, parsed with the
//! real parser and compared with ==. Parse half: arbitrary, near-miss and exhaustively enumerated short
//! strings are fed to every parser under catch_unwind.
use crate::common::*;
use crate::gen;
use crate::p_text::*;
use opcua::types::*;
use serde_json::{json, Value};
use std::str::FromStr;

// ---------------------------------------------------------------- values <-> descriptions

#[derive(Debug, Clone, PartialEq)]
enum Val {
    NodeId(NodeId),
    Expanded(ExpandedNodeId),
    Guid(Guid),
    Range(NumericRange),
    Dt(DateTime),
}

fn guid_from_hex(h: &str) -> Option<Guid> {
    let b = unhex(h);
    if b.len() != 16 {
        return None;
    }
    let mut a = [0u8; 16];
    a.copy_from_slice(&b);
    Some(Guid::from_bytes(a))
}

fn guid_hex(g: &Guid) -> String {
    hex(g.as_bytes())
}

fn node_id_of(d: &Value) -> Option<NodeId> {
    let ns = d["ns"].as_u64()? as u16;
    let id = &d["id"];
    if let Some(i) = id.get("i") {
        Some(NodeId::new(ns, i.as_u64()? as u32))
    } else if let Some(s) = id.get("s") {
        Some(NodeId::new(ns, UAString::from(s.as_str()?)))
    } else if let Some(g) = id.get("g") {
        Some(NodeId::new(ns, guid_from_hex(g.as_str()?)?))
    } else if let Some(b) = id.get("b") {
        Some(NodeId::new(ns, ByteString::from(unhex(b.as_str()?))))
    } else {
        None
    }
}

fn node_id_desc(n: &NodeId) -> Value {
    let id = match &n.identifier {
        Identifier::Numeric(i) => json!({"i": i}),
        Identifier::String(s) => json!({"s": s.as_ref()}),
        Identifier::Guid(g) => json!({"g": guid_hex(g)}),
        Identifier::ByteString(b) => json!({"b": hex(b.as_ref())}),
    };
    json!({"ns": n.namespace, "id": id})
}

fn range_part_of(d: &Value) -> Option<NumericRange> {
    if let Some(n) = d.as_u64() {
        Some(NumericRange::Index(n as u32))
    } else if let Some(a) = d.as_array() {
        Some(NumericRange::Range(a.first()?.as_u64()? as u32, a.get(1)?.as_u64()? as u32))
    } else {
        None
    }
}

fn range_of(d: &Value) -> Option<NumericRange> {
    if d.is_null() {
        Some(NumericRange::None)
    } else if let Some(m) = d.get("multi") {
        let parts: Option<Vec<NumericRange>> = m.as_array()?.iter().map(range_part_of).collect();
        Some(NumericRange::MultipleRanges(parts?))
    } else {
        range_part_of(d)
    }
}

fn build(case: &Value) -> Option<Val> {
    match case["t"].as_str()? {
        "NodeId" => Some(Val::NodeId(node_id_of(case)?)),
        "ExpandedNodeId" => Some(Val::Expanded(ExpandedNodeId {
            node_id: node_id_of(case)?,
            namespace_uri: match &case["uri"] {
                Value::Null => UAString::null(),
                v => UAString::from(v.as_str()?),
            },
            server_index: case["svr"].as_u64()? as u32,
        })),
        "Guid" => Some(Val::Guid(guid_from_hex(case["g"].as_str()?)?)),
        "NumericRange" => Some(Val::Range(range_of(&case["r"])?)),
        "DateTime" => Some(Val::Dt(DateTime::from(case["ticks"].as_i64()?))),
        _ => None,
    }
}

impl Val {
    fn print(&self) -> String {
        match self {
            Val::NodeId(v) => v.to_string(),
            Val::Expanded(v) => v.to_string(),
            Val::Guid(v) => v.to_string(),
            Val::Range(v) => v.as_string(),
            Val::Dt(v) => v.to_string(),
        }
    }
    fn parse_like(&self, s: &str) -> Result<Val, String> {
        match self {
            Val::NodeId(_) => NodeId::from_str(s).map(Val::NodeId).map_err(|e| format!("{}", e)),
            Val::Expanded(_) => ExpandedNodeId::from_str(s).map(Val::Expanded).map_err(|e| format!("{}", e)),
            Val::Guid(_) => Guid::from_str(s).map(Val::Guid).map_err(|_| "Err(())".to_string()),
            Val::Range(_) => NumericRange::from_str(s).map(Val::Range).map_err(|e| format!("{}", e)),
            Val::Dt(_) => DateTime::from_str(s).map(Val::Dt).map_err(|_| "Err(())".to_string()),
        }
    }
}

const PARSERS: [&str; 8] =
    ["NodeId", "ExpandedNodeId", "Identifier", "Guid", "NumericRange", "DateTime", "DateTime::parse_from_rfc3339", "Variant::cast"];

/// Runs the named parser; the result only says accepted / rejected
fn run_parser(name: &str, s: &str) -> bool {
    match name {
        "NodeId" => NodeId::from_str(s).is_ok(),
        "ExpandedNodeId" => ExpandedNodeId::from_str(s).is_ok(),
        "Identifier" => Identifier::from_str(s).is_ok(),
        "Guid" => Guid::from_str(s).is_ok(),
        "NumericRange" => NumericRange::from_str(s).is_ok(),
        "DateTime" => DateTime::from_str(s).is_ok(),
        "DateTime::parse_from_rfc3339" => DateTime::parse_from_rfc3339(s).is_ok(),
        // the public route by which strings coming from clients reach these parsers
        "Variant::cast" => {
            let v = Variant::from(s);
            let a = v.cast(VariantTypeId::NodeId) != Variant::Empty;
            let b = v.cast(VariantTypeId::ExpandedNodeId) != Variant::Empty;
            let c = v.cast(VariantTypeId::DateTime) != Variant::Empty;
            let d = v.cast(VariantTypeId::Guid) != Variant::Empty;
            a || b || c || d
        }
        _ => false,
    }
}

// ---------------------------------------------------------------- classes

fn str_class(s: &str) -> String {
    let mut f = Vec::new();
    if s.contains('\n') || s.contains('\r') {
        f.push("nl");
    }
    if s.contains(';') {
        f.push("semi");
    }
    if s.contains('%') {
        f.push("pct");
    }
    if s.contains('=') {
        f.push("eq");
    }
    if !s.is_ascii() {
        f.push("uni");
    }
    if s.chars().any(|c| c.is_control() && c != '\n' && c != '\r') {
        f.push("ctl");
    }
    if s.starts_with(' ') || s.ends_with(' ') {
        f.push("sp");
    }
    if f.is_empty() {
        "plain".into()
    } else {
        f.join("+")
    }
}

fn ns_class(ns: u64) -> &'static str {
    match ns {
        0 => "ns0",
        1..=9 => "ns1-9",
        10..=99 => "ns10-99",
        100..=65534 => "ns100+",
        _ => "ns65535",
    }
}

fn id_class(id: &Value) -> String {
    if let Some(i) = id.get("i").and_then(|x| x.as_u64()) {
        format!("i:{}", if i == 0 { "0" } else if i < 256 { "b" } else if i < 65536 { "w" } else if i == u32::MAX as u64 { "max" } else { "d" })
    } else if let Some(s) = id.get("s").and_then(|x| x.as_str()) {
        format!("s:{}", str_class(s))
    } else if id.get("g").is_some() {
        "g".into()
    } else {
        let n = id["b"].as_str().map(|x| x.len() / 2).unwrap_or(0);
        format!("b:{}", if n == 1 { "1" } else if n % 3 == 0 { "x3" } else { "pad" })
    }
}

fn range_class(r: &Value) -> String {
    fn part(p: &Value) -> &'static str {
        if p.is_array() { "r" } else { "i" }
    }
    if r.is_null() {
        "none".into()
    } else if let Some(m) = r.get("multi").and_then(|m| m.as_array()) {
        let kinds: std::collections::BTreeSet<&str> = m.iter().map(part).collect();
        format!("multi{}:{}", m.len(), kinds.into_iter().collect::<Vec<_>>().join(""))
    } else {
        let big = match r {
            Value::Array(a) => a.iter().any(|x| x.as_u64().unwrap_or(0) > 999_999_999),
            x => x.as_u64().unwrap_or(0) > 999_999_999,
        };
        format!("{}{}", part(r), if big { ":10digits" } else { "" })
    }
}

fn rt_class(case: &Value) -> String {
    let t = case["t"].as_str().unwrap_or("?");
    match t {
        "NodeId" => format!("rt NodeId {} {}", ns_class(case["ns"].as_u64().unwrap_or(0)), id_class(&case["id"])),
        "ExpandedNodeId" => format!(
            "rt ExpandedNodeId {} {} uri:{} svr:{}",
            ns_class(case["ns"].as_u64().unwrap_or(0)),
            id_class(&case["id"]),
            case["uri"].as_str().map(str_class).unwrap_or_else(|| "none".into()),
            match case["svr"].as_u64().unwrap_or(0) {
                0 => "0",
                u if u == u32::MAX as u64 => "max",
                _ => "n",
            }
        ),
        "Guid" => format!("rt Guid {}", match case["g"].as_str().unwrap_or("") {
            "00000000000000000000000000000000" => "zero",
            "ffffffffffffffffffffffffffffffff" => "ones",
            _ => "random",
        }),
        "NumericRange" => format!("rt NumericRange {}", range_class(&case["r"])),
        "DateTime" => {
            let t = case["ticks"].as_i64().unwrap_or(0);
            let sub = t % 10_000_000;
            let p = if sub == 0 { "s" } else if sub % 10_000 == 0 { "ms" } else if sub % 10 == 0 { "us" } else { "100ns" };
            let pos = if t == 0 { "epoch" } else if t >= DateTime::endtimes_ticks() - 10_000_000 { "end" } else if t < 10_000_000 { "first-second" } else { "mid" };
            format!("rt DateTime {} {}", p, pos)
        }
        _ => format!("rt {}", t),
    }
}

// ---------------------------------------------------------------- workload

pub struct W;

impl W {
    fn eval_rt(&self, case: &Value) -> Eval {
        let t = case["t"].as_str().unwrap_or("?").to_string();
        let class = rt_class(case);
        let v = match build(case) {
            Some(v) => v,
            None => return Eval::fail("bad-case", "harness|bad-case", "cannot build the value"),
        };
        let s = match catch(|| v.print()) {
            Ok(s) => s,
            Err(p) => {
                return Eval::fail(class, format!("rt|{}|print-panic|{}", t, panic_sig(&p)), format!("printing {:?} panicked: {} at {}:{}", v, p.msg, p.file, p.line))
            }
        };
        let r = match catch(|| v.parse_like(&s)) {
            Ok(r) => r,
            Err(p) => {
                return Eval::fail(
                    class,
                    format!("rt|{}|parse-panic|{}", t, panic_sig(&p)),
                    format!("parsing {:?} (printed from {:?}) panicked: {} at {}:{}", s, v, p.msg, p.file, p.line),
                )
            }
        };
        match r {
            Err(e) => Eval::fail(
                class,
                format!("rt|{}|printed-form-rejected", t),
                format!("{:?} prints as {:?} which its own parser rejects ({})", v, s, e),
            )
            .with("rt_printed", 1),
            Ok(v2) => {
                let same = match (&v, &v2) {
                    // to the printed precision: what was parsed prints the same again
                    (Val::Dt(a), Val::Dt(b)) => a == b || b.to_string() == s,
                    _ => v == v2,
                };
                let exact = v == v2;
                if same {
                    Eval::ok(class).with("rt_printed", 1).with("rt_parsed_back_equal", 1).with("rt_exactly_equal", exact as u64)
                } else {
                    Eval::fail(
                        class,
                        format!("rt|{}|parses-to-different-value", t),
                        format!("{:?} prints as {:?} which parses to {:?}", v, s, v2),
                    )
                    .with("rt_printed", 1)
                }
            }
        }
    }

    fn eval_parse(&self, case: &Value) -> Eval {
        let t = case["t"].as_str().unwrap_or("?");
        let s = case["s"].as_str().unwrap_or("");
        let origin = case["o"].as_str().unwrap_or("given");
        let r = catch(|| run_parser(t, s));
        match r {
            Ok(acc) => Eval::ok(format!("parse {} {} {} {}", t, origin, str_class(s), if acc { "accepted" } else { "rejected" }))
                .with("parse_calls", 1)
                .with(if acc { "parse_accepted" } else { "parse_rejected" }, 1),
            Err(p) => Eval::fail(
                format!("parse {} {} {} panicked", t, origin, str_class(s)),
                format!("parse|{}|{}", t, panic_sig(&p)),
                format!("{}::from_str({:?}) panicked: {} at {}:{}", t, s, p.msg, p.file, p.line),
            )
            .with("parse_calls", 1),
        }
    }
}

fn ladder(cur: u64, _l: &[u64]) -> Vec<u64> {
    smaller_numbers(cur)
}

fn with(case: &Value, k: &str, v: Value) -> Value {
    let mut c = case.clone();
    c[k] = v;
    c
}

fn shrink_id(case: &Value, out: &mut Vec<Value>) {
    let id = &case["id"];
    if id.get("i").is_none() {
        out.push(with(case, "id", json!({"i": 1})));
    }
    if let Some(i) = id.get("i").and_then(|x| x.as_u64()) {
        for n in ladder(i, &[1, 0, 255, 256, 65535, 65536]) {
            out.push(with(case, "id", json!({ "i": n })));
        }
    } else if let Some(s) = id.get("s").and_then(|x| x.as_str()) {
        for x in shrink_string_non_empty(s) {
            out.push(with(case, "id", json!({ "s": x })));
        }
    } else if let Some(g) = id.get("g").and_then(|x| x.as_str()) {
        if g != "00000000000000000000000000000000" {
            out.push(with(case, "id", json!({"g": "00000000000000000000000000000000"})));
        }
    } else if let Some(b) = id.get("b").and_then(|x| x.as_str()) {
        if b != "00" {
            out.push(with(case, "id", json!({"b": "00"})));
        }
        if b.len() > 2 {
            out.push(with(case, "id", json!({"b": &b[..b.len() / 4 * 2 + 2]})));
            out.push(with(case, "id", json!({"b": &b[2..]})));
        }
    }
}

fn shrink_range_part(p: &Value) -> Vec<Value> {
    let mut out = Vec::new();
    if let Some(a) = p.as_array() {
        let (x, y) = (a[0].as_u64().unwrap_or(0), a[1].as_u64().unwrap_or(1));
        if (x, y) != (0, 1) {
            out.push(json!([0, 1]));
        }
        for n in ladder(x, &[0, 1, 9, 10]) {
            out.push(json!([n, y]));
        }
        for n in ladder(y, &[]) {
            if n > x {
                out.push(json!([x, n]));
            }
        }
        out.push(json!(x));
    } else if let Some(x) = p.as_u64() {
        for n in ladder(x, &[0, 1, 9, 10, 999_999_999, 1_000_000_000]) {
            out.push(json!(n));
        }
    }
    out
}

impl Workload for W {
    fn eval(&self, case: &Value) -> Eval {
        if case["k"] == "parse" {
            self.eval_parse(case)
        } else {
            self.eval_rt(case)
        }
    }

    fn shrinks(&self, case: &Value) -> Vec<Value> {
        let mut out = Vec::new();
        if case["k"] == "parse" {
            for s in shrink_string(case["s"].as_str().unwrap_or("")) {
                out.push(with(case, "s", json!(s)));
            }
            return out;
        }
        match case["t"].as_str().unwrap_or("") {
            "NodeId" | "ExpandedNodeId" => {
                shrink_id(case, &mut out);
                if case["t"] == "ExpandedNodeId" {
                    if let Some(u) = case["uri"].as_str() {
                        out.push(with(case, "uri", Value::Null));
                        for x in shrink_string_non_empty(u) {
                            out.push(with(case, "uri", json!(x)));
                        }
                    }
                    for n in ladder(case["svr"].as_u64().unwrap_or(0), &[0, 1]) {
                        out.push(with(case, "svr", json!(n)));
                    }
                }
                for n in ladder(case["ns"].as_u64().unwrap_or(0), &[0, 1, 9, 10, 255, 256]) {
                    out.push(with(case, "ns", json!(n)));
                }
            }
            "Guid" => {
                if case["g"] != "00000000000000000000000000000000" {
                    out.push(with(case, "g", json!("00000000000000000000000000000000")));
                }
            }
            "NumericRange" => {
                let r = &case["r"];
                if let Some(m) = r.get("multi").and_then(|m| m.as_array()) {
                    for p in m {
                        out.push(with(case, "r", p.clone()));
                    }
                    if m.len() > 2 {
                        for i in 0..m.len() {
                            let mut mm = m.clone();
                            mm.remove(i);
                            out.push(with(case, "r", json!({ "multi": mm })));
                        }
                    }
                    for i in 0..m.len() {
                        for p in shrink_range_part(&m[i]) {
                            let mut mm = m.clone();
                            mm[i] = p;
                            out.push(with(case, "r", json!({ "multi": mm })));
                        }
                    }
                } else if !r.is_null() {
                    for p in shrink_range_part(r) {
                        out.push(with(case, "r", p));
                    }
                }
            }
            "DateTime" => {
                let t = case["ticks"].as_i64().unwrap_or(0);
                for c in [0i64, 1, 10, 10_000, 10_000_000, 864_000_000_000] {
                    if c < t {
                        out.push(with(case, "ticks", json!(c)));
                    }
                }
                for unit in [864_000_000_000i64, 10_000_000, 10_000, 10] {
                    if t % unit != 0 {
                        out.push(with(case, "ticks", json!(t - t % unit)));
                    }
                    if t > unit && t % unit != t {
                        out.push(with(case, "ticks", json!(t % unit)));
                    }
                }
            }
            _ => {}
        }
        out
    }

    fn features(&self, case: &Value, _fail: &Fail) -> String {
        if case["k"] == "parse" {
            // the panic location names the defect; the string is in the detail
            return "-".into();
        }
        let idf = |id: &Value| -> String {
            if let Some(i) = id.get("i") {
                format!("i={}", i)
            } else if let Some(s) = id.get("s").and_then(|x| x.as_str()) {
                format!("s={}", lit(s))
            } else if let Some(g) = id.get("g").and_then(|x| x.as_str()) {
                format!("g={}", if g.chars().all(|c| c == '0') { "zero" } else { "nonzero" })
            } else {
                format!("b={}bytes", id["b"].as_str().map(|x| x.len() / 2).unwrap_or(0))
            }
        };
        match case["t"].as_str().unwrap_or("") {
            "NodeId" => format!("ns={},{}", case["ns"], idf(&case["id"])),
            "ExpandedNodeId" => format!(
                "ns={},{},uri={},svr={}",
                case["ns"],
                idf(&case["id"]),
                case["uri"].as_str().map(lit).unwrap_or_else(|| "none".into()),
                case["svr"]
            ),
            "Guid" => format!("g={}", case["g"].as_str().unwrap_or("")),
            "NumericRange" => format!("r={}", case["r"]),
            "DateTime" => format!("ticks={}", case["ticks"]),
            _ => "-".into(),
        }
    }
}

// ---------------------------------------------------------------- generators

const ID_ALPHABET: &str = "ab;=%nsigu3B25 :/\n\r\t&<>#!é漢😀\u{0}\u{85}\u{2028}";

fn hostile_string(rng: &mut Rng, max: usize) -> String {
    let chars: Vec<char> = ID_ALPHABET.chars().collect();
    let n = 1 + rng.usize(max);
    (0..n).map(|_| *rng.pick(&chars)).collect()
}

fn id_string(rng: &mut Rng) -> String {
    match rng.below(6) {
        0 | 1 => gen::non_empty_string(rng, 20),
        2 => hostile_string(rng, 8),
        3 => (*rng.pick(&["ns=1;i=5", "i=1", "s=", "svr=1;ns=2;s=x", "nsu=a;", "%3b", "%25", "%253b", ";", "=", " x ", "x\ny", "\n", "g=", "b="])).to_string(),
        4 => {
            // a long one
            let n = 200 + rng.usize(5000);
            (0..n).map(|_| (b'a' + rng.below(26) as u8) as char).collect()
        }
        _ => {
            let n = 1 + rng.usize(4);
            (0..n).map(|_| (b'a' + rng.below(26) as u8) as char).collect()
        }
    }
}

fn gen_id(rng: &mut Rng) -> Value {
    match rng.below(8) {
        0 | 1 => json!({"i": *rng.pick(&[0u64, 1, 255, 256, 65535, 65536, 4294967294, 4294967295])}),
        2 => json!({"i": rng.next_u32()}),
        3 | 4 => json!({ "s": id_string(rng) }),
        5 => json!({"g": guid_hex(&gen::guid(rng))}),
        _ => {
            let n = match rng.below(4) {
                0 => 1,
                1 => 1 + rng.usize(4),
                2 => 1 + rng.usize(40),
                _ => 3 * (1 + rng.usize(6)),
            };
            let b = if rng.chance(1, 6) { vec![0u8; n] } else if rng.chance(1, 6) { vec![0xffu8; n] } else { rng.bytes(n) };
            json!({ "b": hex(&b) })
        }
    }
}

fn gen_uri(rng: &mut Rng) -> String {
    match rng.below(5) {
        0 => (*rng.pick(&["http://opcfoundation.org/UA/", "urn:a:b", "%", ";", "%3b", "%25", "%253b", "%2525", ";%", "%;", "a;b;c", "3b%", "%3B", " ", "x\ny", "nsu=", "ns=1"])).to_string(),
        1 => {
            let chars: Vec<char> = "%;325bB".chars().collect();
            let n = 1 + rng.usize(7);
            (0..n).map(|_| *rng.pick(&chars)).collect()
        }
        2 => hostile_string(rng, 10),
        _ => gen::non_empty_string(rng, 24),
    }
}

fn gen_range_part(rng: &mut Rng) -> Value {
    let edge = [0u64, 1, 2, 9, 10, 99, 999_999_999, 1_000_000_000, 4294967294, 4294967295];
    let pick = |rng: &mut Rng| if rng.bool() { *rng.pick(&edge) } else { rng.next_u32() as u64 >> rng.below(32) };
    if rng.bool() {
        json!(pick(rng))
    } else {
        loop {
            let (a, b) = (pick(rng), pick(rng));
            if a < b {
                return json!([a, b]);
            }
            if b < a {
                return json!([b, a]);
            }
        }
    }
}

fn gen_rt(rng: &mut Rng) -> Value {
    match rng.below(10) {
        0..=2 => json!({"k": "rt", "t": "NodeId", "ns": gen::ns_index(rng), "id": gen_id(rng)}),
        3..=5 => {
            let with_uri = rng.chance(2, 5);
            json!({
                "k": "rt", "t": "ExpandedNodeId",
                // Part 6 gives ns= and nsu= as alternatives: with a URI the index is 0
                "ns": if with_uri { 0 } else { gen::ns_index(rng) },
                "id": gen_id(rng),
                "uri": if with_uri { json!(gen_uri(rng)) } else { Value::Null },
                "svr": match rng.below(4) { 0 | 1 => 0u64, 2 => *rng.pick(&[1u64, 9, 10, 4294967295]), _ => rng.next_u32() as u64 },
            })
        }
        6 => json!({"k": "rt", "t": "Guid", "g": guid_hex(&gen::guid(rng))}),
        7 | 8 => {
            let r = match rng.below(6) {
                0 => Value::Null,
                1 | 2 => gen_range_part(rng),
                _ => {
                    let n = match rng.below(3) {
                        0 => 2,
                        1 => 10,
                        _ => 2 + rng.usize(9),
                    };
                    json!({"multi": (0..n).map(|_| gen_range_part(rng)).collect::<Vec<_>>()})
                }
            };
            json!({"k": "rt", "t": "NumericRange", "r": r})
        }
        _ => {
            // (not gen::date_time_ticks: that one uses the wall clock)
            let end = DateTime::endtimes_ticks();
            let mut t = match rng.below(8) {
                0 => 0,
                1 => 1,
                2 => end,
                3 => end - 1,
                4 => 132_223_104_000_000_000 + rng.range(0, 315_360_000_000_000_0),
                5 => rng.range(0, 10_000_000),
                _ => rng.range(0, end),
            };
            match rng.below(4) {
                0 => t -= t % 10_000_000,
                1 => t -= t % 10_000,
                2 => t -= t % 10,
                _ => {}
            }
            json!({"k": "rt", "t": "DateTime", "ticks": t})
        }
    }
}

fn rt_grid() -> Vec<Value> {
    let mut v = Vec::new();
    let ids = [
        json!({"i": 0}),
        json!({"i": 1}),
        json!({"i": 4294967295u32}),
        json!({"s": "a"}),
        json!({"s": "Hello World"}),
        json!({"s": "a;b=c"}),
        json!({"s": "ns=2;i=3"}),
        json!({"s": " "}),
        json!({"s": "x\ny"}),
        json!({"s": "é漢😀"}),
        json!({"g": "00000000000000000000000000000000"}),
        json!({"g": "0123456789abcdef0123456789abcdef"}),
        json!({"b": "00"}),
        json!({"b": "fffefd"}),
        json!({"b": "3e3f3e3f"}),
    ];
    for ns in [0u64, 1, 2, 9, 10, 99, 100, 255, 256, 65534, 65535] {
        for id in &ids {
            v.push(json!({"k": "rt", "t": "NodeId", "ns": ns, "id": id}));
            for svr in [0u64, 1, 4294967295] {
                v.push(json!({"k": "rt", "t": "ExpandedNodeId", "ns": ns, "id": id, "uri": Value::Null, "svr": svr}));
            }
        }
    }
    for uri in ["urn:x", "http://opcfoundation.org/UA/", "a;b", "100%", "%3b", "%25", "a b", "é"] {
        for id in &ids {
            for svr in [0u64, 7] {
                v.push(json!({"k": "rt", "t": "ExpandedNodeId", "ns": 0, "id": id, "uri": uri, "svr": svr}));
            }
        }
    }
    for g in ["00000000000000000000000000000000", "ffffffffffffffffffffffffffffffff", "000102030405060708090a0b0c0d0e0f"] {
        v.push(json!({"k": "rt", "t": "Guid", "g": g}));
    }
    let parts = [json!(0), json!(4294967295u32), json!([0, 1]), json!([0, 4294967295u32]), json!([4294967294u32, 4294967295u32]), json!(1_000_000_000)];
    v.push(json!({"k": "rt", "t": "NumericRange", "r": Value::Null}));
    for p in &parts {
        v.push(json!({"k": "rt", "t": "NumericRange", "r": p}));
        for q in &parts {
            v.push(json!({"k": "rt", "t": "NumericRange", "r": {"multi": [p, q]}}));
        }
        v.push(json!({"k": "rt", "t": "NumericRange", "r": {"multi": std::iter::repeat(p.clone()).take(10).collect::<Vec<_>>()}}));
    }
    let end = DateTime::endtimes_ticks();
    for t in [0, 1, 9, 10, 9_999, 10_000, 9_999_999, 10_000_000, 10_000_001, 864_000_000_000, end - 1, end, end - 10_000_000, 132_223_104_000_000_000, 132_223_104_001_234_567] {
        v.push(json!({"k": "rt", "t": "DateTime", "ticks": t}));
    }
    v
}

fn edit(rng: &mut Rng, s: &str) -> String {
    let mut c: Vec<char> = s.chars().collect();
    let alphabet: Vec<char> = "0123456789;=:,-+.TZnsvrigbu%é漢😀 \n\u{0}".chars().collect();
    let edits = 1 + rng.below(2);
    for _ in 0..edits {
        let pos = rng.usize(c.len() + 1);
        match rng.below(4) {
            0 if !c.is_empty() => {
                c.remove(pos.min(c.len() - 1));
            }
            1 => c.insert(pos, *rng.pick(&alphabet)),
            2 if !c.is_empty() => {
                let p = pos.min(c.len() - 1);
                c[p] = *rng.pick(&alphabet);
            }
            _ => {
                // duplicate or truncate
                if rng.bool() {
                    c.truncate(pos);
                } else {
                    let tail: Vec<char> = c[pos.min(c.len())..].to_vec();
                    c.extend(tail);
                }
            }
        }
    }
    c.into_iter().collect()
}

const HOSTILE_STRINGS: &[&str] = &[
    "",
    "ns=",
    "ns=;",
    "ns=1;",
    "ns=99999999999999999999;i=1",
    "ns=65536;i=1",
    "ns=-1;i=1",
    "i=4294967296",
    "i=-1",
    "i=+1",
    "i= 1",
    "i=",
    "s=",
    "g=",
    "b=",
    "g=é漢😀é漢😀é漢😀é漢😀é漢😀é漢😀",
    "g=00000000-0000-0000-0000-00000000000é",
    "g={00000000-0000-0000-0000-000000000000}",
    "g=urn:uuid:00000000-0000-0000-0000-000000000000",
    "b=!!!!",
    "b====",
    "b=é",
    "svr=",
    "svr=1",
    "svr=1;",
    "svr=4294967296;ns=1;i=1",
    "svr=1;ns=1;i=1",
    "svr=1;nsu=;i=1",
    "svr=1;nsu=%;i=1",
    "svr=1;nsu=%3;i=1",
    "svr=1;nsu=%3b%25%3b;i=1",
    "svr=1;nsu=a;ns=1;i=1",
    "svr=0;i=85",
    "svr=0;nsu=é;s=é",
    "é",
    "aé",
    "éa",
    "漢",
    "😀",
    "i😀",
    "s😀",
    "i=😀",
    "1:2",
    "2:1",
    "1:",
    ":1",
    "1,",
    ",",
    "0,1,2,3,4,5,6,7,8,9,10",
    "99999999999",
    "9999999999",
    "4294967296",
    "0:4294967296",
    "１２",
    "1:２",
    "+1",
    "-1",
    "1601-01-01T00:00:00Z",
    "1600-12-31T23:59:59Z",
    "0000-01-01T00:00:00Z",
    "0001-01-01T00:00:00Z",
    "-0001-01-01T00:00:00Z",
    "9999-12-31T23:59:59Z",
    "9999-12-31T23:59:60Z",
    "9999-12-31T23:59:59.9999999Z",
    "9999-12-31T23:59:59-23:59",
    "10000-01-01T00:00:00Z",
    "+10000-01-01T00:00:00Z",
    "+262143-12-31T23:59:59Z",
    "+262143-12-31T23:59:60.999999999Z",
    // the last second chrono can represent, and the leap second after it
    "+262142-12-31T23:59:59Z",
    "+262142-12-31T23:59:59.999999999Z",
    "+262142-12-31T23:59:60Z",
    "+262142-12-31T23:59:60.999999999Z",
    "-262143-01-01T00:00:00Z",
    "-262143-01-01T00:00:00+00:01",
    "-262144-01-01T00:00:00Z",
    "-262144-01-01T00:00:00+23:59",
    "2016-12-31T23:59:60Z",
    "2016-12-31T23:59:60.5Z",
    "2024-02-30T00:00:00Z",
    "2024-01-01T24:00:00Z",
    "2024-01-01T00:00:00+24:00",
    "2024-01-01T00:00:00+99:99",
    "2024-01-01T00:00:00.123456789123456789Z",
    "2024-01-01 00:00:00Z",
    "2024-01-01T00:00:00",
    "2024-01-01t00:00:00z",
    "2024-01-01T00:00:00Zé",
    "é024-01-01T00:00:00Z",
    "Mon, 01 Jan 2024 00:00:00 GMT",
];

fn short_alphabet_strings() -> Vec<String> {
    // every string of up to 3 characters over an alphabet with 1, 2, 3 and 4 byte characters
    let a: Vec<char> = "ai=s1;,:é漢😀\n".chars().collect();
    let mut out = vec![String::new()];
    let mut frontier = vec![String::new()];
    for _ in 0..3 {
        let mut next = Vec::new();
        for f in &frontier {
            for c in &a {
                let mut s = f.clone();
                s.push(*c);
                next.push(s);
            }
        }
        out.extend(next.iter().cloned());
        frontier = next;
    }
    out
}

fn gen_parse(rng: &mut Rng) -> Value {
    let t = *rng.pick(&PARSERS);
    let (s, o): (String, &str) = match rng.below(8) {
        0 => (gen::string(rng, 40), "arbitrary"),
        1 => (hostile_string(rng, 12), "alphabet"),
        2 => {
            let mut s = String::new();
            for _ in 0..1 + rng.below(3) {
                s.push_str(*rng.pick(HOSTILE_STRINGS));
            }
            (s, "hostile-concat")
        }
        3 => ({ let h: &str = *rng.pick(HOSTILE_STRINGS); edit(rng, h) }, "hostile-edit"),
        _ => {
            // a valid print with one or two edits
            let rt = gen_rt(rng);
            let printed = build(&rt).and_then(|v| catch(|| v.print()).ok()).unwrap_or_default();
            (edit(rng, &printed), "near-miss")
        }
    };
    json!({"k": "parse", "t": t, "s": s, "o": o})
}

pub fn c04(args: &Args, rep: &mut Report) {
    let w = W;
    rep.max_violations = 120;
    let mut cases: Vec<Value> = Vec::new();
    if args.replay.is_none() {
        let mut idx = 0usize;
        let mut push = |c: Value, cases: &mut Vec<Value>| {
            if idx % args.shards == args.shard {
                cases.push(c);
            }
            idx += 1;
        };
        for c in rt_grid() {
            push(c, &mut cases);
        }
        for t in PARSERS {
            for s in HOSTILE_STRINGS {
                push(json!({"k": "parse", "t": t, "s": s, "o": "hostile"}), &mut cases);
            }
            for s in short_alphabet_strings() {
                push(json!({"k": "parse", "t": t, "s": s, "o": "short-exhaustive"}), &mut cases);
            }
        }
        rep.count("grid_cases", cases.len() as u64);
    }
    let mut rng = Rng::new(args.seed ^ 0xC04 ^ ((args.shard as u64) << 32));
    let mut left = if args.replay.is_some() { 0 } else { args.budget(160_000, 16_000_000) };
    let random = std::iter::from_fn(move || {
        if left == 0 {
            return None;
        }
        left -= 1;
        Some(if rng.bool() { gen_rt(&mut rng) } else { gen_parse(&mut rng) })
    });
    run_all(&w, args, rep, &mut cases.into_iter().chain(random));
}
