//! C05: converting any relative path to its text form and parsing it back yields the same path; parsing
//! an arbitrary string returns a path or an error without panicking.
//!
//! Paths are described in JSON, built as real `RelativePath` values, printed with the real
//! `String::from(&RelativePath)` and parsed with the real `RelativePath::from_str` and the default
//! resolvers. Reference types are drawn from those the default browse-name resolver can print (the
//! standard reference types by numeric id, and string identifiers which it prints verbatim).
use crate::common::*;
use crate::gen;
use crate::p_text::*;
use opcua::types::*;
use serde_json::{json, Value};

/// The standard reference types the default resolvers know in both directions
const STD_REFS: &[(ReferenceTypeId, &str)] = &[
    (ReferenceTypeId::References, "References"),
    (ReferenceTypeId::NonHierarchicalReferences, "NonHierarchicalReferences"),
    (ReferenceTypeId::HierarchicalReferences, "HierarchicalReferences"),
    (ReferenceTypeId::HasChild, "HasChild"),
    (ReferenceTypeId::Organizes, "Organizes"),
    (ReferenceTypeId::HasEventSource, "HasEventSource"),
    (ReferenceTypeId::HasModellingRule, "HasModellingRule"),
    (ReferenceTypeId::HasEncoding, "HasEncoding"),
    (ReferenceTypeId::HasDescription, "HasDescription"),
    (ReferenceTypeId::HasTypeDefinition, "HasTypeDefinition"),
    (ReferenceTypeId::GeneratesEvent, "GeneratesEvent"),
    (ReferenceTypeId::Aggregates, "Aggregates"),
    (ReferenceTypeId::HasSubtype, "HasSubtype"),
    (ReferenceTypeId::HasProperty, "HasProperty"),
    (ReferenceTypeId::HasComponent, "HasComponent"),
    (ReferenceTypeId::HasNotifier, "HasNotifier"),
    (ReferenceTypeId::HasOrderedComponent, "HasOrderedComponent"),
    (ReferenceTypeId::FromState, "FromState"),
    (ReferenceTypeId::ToState, "ToState"),
    (ReferenceTypeId::HasCause, "HasCause"),
    (ReferenceTypeId::HasEffect, "HasEffect"),
    (ReferenceTypeId::HasHistoricalConfiguration, "HasHistoricalConfiguration"),
    (ReferenceTypeId::HasSubStateMachine, "HasSubStateMachine"),
    (ReferenceTypeId::AlwaysGeneratesEvent, "AlwaysGeneratesEvent"),
    (ReferenceTypeId::HasTrueSubState, "HasTrueSubState"),
    (ReferenceTypeId::HasFalseSubState, "HasFalseSubState"),
    (ReferenceTypeId::HasCondition, "HasCondition"),
];

fn std_ref(name: &str) -> Option<NodeId> {
    STD_REFS.iter().find(|(_, n)| *n == name).map(|(id, _)| (*id).into())
}

/// element description:
///   {"ref": {"std": "HasChild"} | {"ns": n, "s": "name"}, "inv": bool, "sub": bool, "tns": n, "tname": null | "str"}
fn element_of(d: &Value) -> Option<RelativePathElement> {
    let r = &d["ref"];
    let reference_type_id = if let Some(n) = r.get("std").and_then(|x| x.as_str()) {
        std_ref(n)?
    } else {
        let name = r["s"].as_str()?;
        let ns = r["ns"].as_u64()? as u16;
        // a string identifier in namespace 0 that spells a standard reference type is not representable:
        // the text form means the standard type
        if ns == 0 && std_ref(name).is_some() {
            return None;
        }
        NodeId::new(ns, UAString::from(name))
    };
    Some(RelativePathElement {
        reference_type_id,
        is_inverse: d["inv"].as_bool()?,
        include_subtypes: d["sub"].as_bool()?,
        target_name: match &d["tname"] {
            Value::Null => QualifiedName::null(),
            v => QualifiedName::new(d["tns"].as_u64()? as u16, v.as_str()?),
        },
    })
}

fn path_of(case: &Value) -> Option<RelativePath> {
    let els: Option<Vec<RelativePathElement>> = case["elements"].as_array()?.iter().map(element_of).collect();
    Some(RelativePath { elements: Some(els?) })
}

fn parse(s: &str) -> Result<RelativePath, ()> {
    RelativePath::from_str(s, &RelativePathElement::default_node_resolver)
}

// ---------------------------------------------------------------- classes

const RESERVED: &str = "&/.<>:#!";

fn name_class(s: &str) -> String {
    let mut f: Vec<String> = Vec::new();
    let res: String = RESERVED.chars().filter(|c| s.contains(*c)).collect();
    if !res.is_empty() {
        f.push(format!("res[{}]", res));
    }
    if s.contains('\n') || s.contains('\r') {
        f.push("nl".into());
    }
    if !s.is_ascii() {
        f.push("uni".into());
    }
    if s.chars().next().map(|c| c.is_ascii_digit()).unwrap_or(false) {
        f.push("digit0".into());
    }
    if s.contains(' ') {
        f.push("sp".into());
    }
    if f.is_empty() {
        "plain".into()
    } else {
        f.join("+")
    }
}

fn ns_class(ns: u64) -> &'static str {
    match ns {
        0 => "0",
        1..=9 => "1-9",
        10..=99 => "10-99",
        100..=999 => "100-999",
        _ => "1000+",
    }
}

fn element_class(d: &Value) -> String {
    let r = &d["ref"];
    let sub = d["sub"].as_bool().unwrap_or(true);
    let inv = d["inv"].as_bool().unwrap_or(false);
    let rk = if let Some(n) = r.get("std").and_then(|x| x.as_str()) {
        if sub && !inv && n == "HierarchicalReferences" {
            "/".to_string()
        } else if sub && !inv && n == "Aggregates" {
            ".".to_string()
        } else {
            "<std>".to_string()
        }
    } else {
        format!("<s ns{} {}>", ns_class(r["ns"].as_u64().unwrap_or(0)), name_class(r["s"].as_str().unwrap_or("")))
    };
    let flags = format!("{}{}", if sub { "" } else { "#" }, if inv { "!" } else { "" });
    let t = match d["tname"].as_str() {
        None => "null".to_string(),
        Some(s) => format!("ns{} {}", ns_class(d["tns"].as_u64().unwrap_or(0)), name_class(s)),
    };
    format!("{}{} {}", rk, flags, t)
}

fn path_class(case: &Value) -> String {
    let els = case["elements"].as_array().cloned().unwrap_or_default();
    let n = els.len();
    let nclass = match n {
        0 => "0",
        1 => "1",
        2..=3 => "2-3",
        4..=31 => "4-31",
        32 => "32",
        _ => "33+",
    };
    // the class of a path is the set of its element classes (capped), so that long random paths do not
    // all count as distinct
    let mut set: Vec<String> = if n <= 1 { els.iter().map(element_class).collect() } else { els.iter().map(element_key).collect() };
    set.sort();
    set.dedup();
    if set.len() > 2 {
        set.truncate(2);
        set.push("..".into());
    }
    format!("rt n{} {}", nclass, set.join(" | "))
}

// ---------------------------------------------------------------- workload

pub struct W;

fn coarse_name(s: &str) -> &'static str {
    if s.contains('\n') || s.contains('\r') {
        "nl"
    } else if s.contains('>') {
        "gt"
    } else if RESERVED.chars().any(|c| s.contains(c)) {
        "res"
    } else {
        "plain"
    }
}

/// A coarse version of `element_class`
fn element_key(d: &Value) -> String {
    let r = &d["ref"];
    let plain = d["sub"] == true && d["inv"] == false;
    let rk = if let Some(n) = r.get("std").and_then(|x| x.as_str()) {
        if plain && n == "HierarchicalReferences" {
            "/".to_string()
        } else if plain && n == "Aggregates" {
            ".".to_string()
        } else {
            "<std>".to_string()
        }
    } else {
        format!("<s ns{} {}>", ns_class(r["ns"].as_u64().unwrap_or(0)), coarse_name(r["s"].as_str().unwrap_or("")))
    };
    let t = match d["tname"].as_str() {
        None => "null".to_string(),
        Some(s) => format!("ns{} {}", ns_class(d["tns"].as_u64().unwrap_or(0)), coarse_name(s)),
    };
    format!("{} {}", rk, t)
}

/// The class of the first element that fails on its own, to bound how many similar failures are minimised
fn culprit_key(case: &Value) -> String {
    let els = case["elements"].as_array().cloned().unwrap_or_default();
    for e in &els {
        let single = json!({"k": "rt", "elements": [e]});
        if let Some(p) = path_of(&single) {
            let ok = catch(|| parse(&String::from(&p))).ok().and_then(|r| r.ok()).map(|p2| p2 == p).unwrap_or(false);
            if !ok {
                return element_key(e);
            }
        }
    }
    "only-in-combination".into()
}

impl W {
    fn eval_rt(&self, case: &Value) -> Eval {
        let class = path_class(case);
        let path = match path_of(case) {
            Some(p) => p,
            None => return Eval::fail("bad-case", "harness|bad-case", "cannot build the path (or it is not representable)"),
        };
        let s = match catch(|| String::from(&path)) {
            Ok(s) => s,
            Err(p) => {
                return Eval::fail(class, format!("rt|print-panic|{}", panic_sig(&p)), format!("printing {:?} panicked: {} at {}:{}", path, p.msg, p.file, p.line))
            }
        };
        let r = match catch(|| parse(&s)) {
            Ok(r) => r,
            Err(p) => {
                return Eval::fail(
                    class,
                    format!("rt|parse-panic|{}", panic_sig(&p)),
                    format!("parsing {:?} panicked: {} at {}:{}", s, p.msg, p.file, p.line),
                )
            }
        };
        let nel = path.elements.as_ref().map(|e| e.len()).unwrap_or(0) as u64;
        match r {
            Err(()) => Eval::fail(class, "rt|printed-form-rejected", format!("path prints as {:?} which the parser rejects; path = {:?}", s, path))
                .with("rt_printed", 1)
                .with("rt_elements", nel),
            Ok(p2) => {
                if p2 == path {
                    Eval::ok(class).with("rt_printed", 1).with("rt_parsed_back_equal", 1).with("rt_elements", nel)
                } else {
                    let (a, b) = (path.elements.clone().unwrap_or_default(), p2.elements.clone().unwrap_or_default());
                    let what = if a.len() != b.len() {
                        format!("{} elements became {}", a.len(), b.len())
                    } else {
                        let i = a.iter().zip(b.iter()).position(|(x, y)| x != y).unwrap_or(0);
                        let (x, y) = (&a[i], &b[i]);
                        let mut w = Vec::new();
                        if x.reference_type_id != y.reference_type_id {
                            w.push(format!("reference type {} became {}", x.reference_type_id, y.reference_type_id));
                        }
                        if x.is_inverse != y.is_inverse || x.include_subtypes != y.include_subtypes {
                            w.push("flags changed".to_string());
                        }
                        if x.target_name != y.target_name {
                            w.push(format!("target {:?} became {:?}", x.target_name, y.target_name));
                        }
                        format!("element {}: {}", i, w.join("; "))
                    };
                    Eval::fail(class, "rt|parses-to-different-path", format!("path prints as {:?}; {}", s, what))
                        .with("rt_printed", 1)
                        .with("rt_elements", nel)
                }
            }
        }
    }

    fn eval_parse(&self, case: &Value) -> Eval {
        let s = case["s"].as_str().unwrap_or("");
        let origin = case["o"].as_str().unwrap_or("given");
        match catch(|| parse(s)) {
            Ok(r) => {
                let n = r.as_ref().ok().and_then(|p| p.elements.as_ref().map(|e| e.len())).unwrap_or(0);
                let nclass = match n {
                    0 => "0",
                    1 => "1",
                    2..=31 => "2-31",
                    _ => "32",
                };
                Eval::ok(format!("parse {} {} {}", origin, name_class(s), if r.is_ok() { format!("accepted n{}", nclass) } else { "rejected".into() }))
                    .with("parse_calls", 1)
                    .with(if r.is_ok() { "parse_accepted" } else { "parse_rejected" }, 1)
            }
            Err(p) => Eval::fail(
                format!("parse {} {} panicked", origin, name_class(s)),
                format!("parse|{}", panic_sig(&p)),
                format!("RelativePath::from_str({:?}) panicked: {} at {}:{}", s, p.msg, p.file, p.line),
            )
            .with("parse_calls", 1),
        }
    }
}

fn ladder(cur: u64, _l: &[u64]) -> Vec<u64> {
    smaller_numbers(cur).into_iter().filter(|x| *x <= 65535).collect()
}

const NAME_CLASSES: [(&str, char); 2] = [("&/.<>:#!", '.'), ("0123456789", '1')];

fn shrink_name(s: &str) -> Vec<String> {
    shrink_string_canon(s, &NAME_CLASSES).into_iter().filter(|x| !x.is_empty()).collect()
}

fn shrink_element(e: &Value) -> Vec<Value> {
    let mut out = Vec::new();
    // the whole reference part at once: "/" and then the plainest bracketed form
    // (strictly descending: "/" < "<HasChild>" < anything else)
    let plain = e["inv"] == false && e["sub"] == true;
    let rank = if plain && e["ref"]["std"] == "HierarchicalReferences" {
        0
    } else if plain && e["ref"]["std"] == "HasChild" {
        1
    } else {
        2
    };
    for (k, r) in [(0, json!({"std": "HierarchicalReferences"})), (1, json!({"std": "HasChild"}))] {
        if k < rank {
            let mut c = e.clone();
            c["ref"] = r;
            c["inv"] = json!(false);
            c["sub"] = json!(true);
            out.push(c);
        }
    }
    let set = |k: &str, v: Value| {
        let mut c = e.clone();
        c[k] = v;
        c
    };
    if e["ref"].get("s").is_some() {
        out.push(set("ref", json!({"std": "HierarchicalReferences"})));
        out.push(set("ref", json!({"std": "HasChild"})));
        let ns = e["ref"]["ns"].as_u64().unwrap_or(0);
        let name = e["ref"]["s"].as_str().unwrap_or("");
        for n in ladder(ns, &[0, 1, 9, 10]) {
            out.push(set("ref", json!({"ns": n, "s": name})));
        }
        for s in shrink_name(name) {
            out.push(set("ref", json!({"ns": ns, "s": s})));
        }
    } else if e["ref"]["std"] != "HierarchicalReferences" && e["ref"]["std"] != "HasChild" {
        out.push(set("ref", json!({"std": "HierarchicalReferences"})));
        out.push(set("ref", json!({"std": "HasChild"})));
    } else if e["ref"]["std"] == "HasChild" {
        out.push(set("ref", json!({"std": "HierarchicalReferences"})));
    }
    if e["inv"] == true {
        out.push(set("inv", json!(false)));
    }
    if e["sub"] == false {
        out.push(set("sub", json!(true)));
    }
    if let Some(t) = e["tname"].as_str() {
        for s in shrink_name(t) {
            out.push(set("tname", json!(s)));
        }
        for n in ladder(e["tns"].as_u64().unwrap_or(0), &[0, 1, 9, 10, 99, 100]) {
            out.push(set("tns", json!(n)));
        }
    } else {
        // a null name could also be the simplest non-null one
        let mut c = set("tname", json!("a"));
        c["tns"] = json!(0);
        out.push(c);
    }
    out
}

impl Workload for W {
    fn eval(&self, case: &Value) -> Eval {
        if case["k"] == "parse" {
            self.eval_parse(case)
        } else {
            self.eval_rt(case)
        }
    }

    fn shrinks(&self, case: &Value) -> Vec<Value> {
        let mut out = Vec::new();
        if case["k"] == "parse" {
            for s in shrink_string(case["s"].as_str().unwrap_or("")) {
                out.push(json!({"k": "parse", "s": s, "o": case["o"]}));
            }
            return out;
        }
        let els = case["elements"].as_array().cloned().unwrap_or_default();
        let mk = |e: Vec<Value>| json!({"k": "rt", "elements": e});
        // the same number of elements, all of them the simplest one
        let simplest = json!({"ref": {"std": "HierarchicalReferences"}, "inv": false, "sub": true, "tns": 0, "tname": "a"});
        if els.len() > 1 && els.iter().any(|e| *e != simplest) {
            out.push(mk(vec![simplest.clone(); els.len()]));
        }
        if els.len() > 1 {
            for e in &els {
                out.push(mk(vec![e.clone()]));
            }
            if els.len() > 3 {
                out.push(mk(els[..els.len() / 2].to_vec()));
                out.push(mk(els[els.len() / 2..].to_vec()));
            }
            for i in 0..els.len() {
                let mut v = els.clone();
                v.remove(i);
                out.push(mk(v));
            }
        }
        // elements are simplified in place only once the path is short
        if els.len() > 4 {
            return out;
        }
        for i in 0..els.len() {
            for s in shrink_element(&els[i]) {
                let mut v = els.clone();
                v[i] = s;
                out.push(mk(v));
            }
        }
        out
    }

    fn shrink_key(&self, case: &Value, _fail: &Fail) -> Option<String> {
        if case["k"] == "parse" {
            None
        } else {
            Some(culprit_key(case))
        }
    }

    fn features(&self, case: &Value, _fail: &Fail) -> String {
        if case["k"] == "parse" {
            return "-".into();
        }
        let els = case["elements"].as_array().cloned().unwrap_or_default();
        let parts: Vec<String> = els
            .iter()
            .map(|e| {
                let sub = e["sub"].as_bool().unwrap_or(true);
                let inv = e["inv"].as_bool().unwrap_or(false);
                let r = &e["ref"];
                let rs = if let Some(n) = r.get("std").and_then(|x| x.as_str()) {
                    if sub && !inv && n == "HierarchicalReferences" {
                        "/".to_string()
                    } else if sub && !inv && n == "Aggregates" {
                        ".".to_string()
                    } else {
                        format!("<{}{}{}>", if sub { "" } else { "#" }, if inv { "!" } else { "" }, n)
                    }
                } else {
                    format!("<{}{}ns={},s={}>", if sub { "" } else { "#" }, if inv { "!" } else { "" }, r["ns"], lit(r["s"].as_str().unwrap_or("")))
                };
                let t = match e["tname"].as_str() {
                    None => "null".to_string(),
                    Some(s) => format!("{}:{}", e["tns"], lit(s)),
                };
                format!("{}{}", rs, t)
            })
            .collect();
        if parts.len() > 1 && parts.iter().all(|p| *p == parts[0]) {
            format!("{} x {}", parts.len(), parts[0])
        } else if parts.len() > 3 {
            format!("{} elements, first {}", parts.len(), parts[0])
        } else {
            parts.join(" ")
        }
    }
}

// ---------------------------------------------------------------- generators

fn name_string(rng: &mut Rng) -> String {
    // names stay short: the parser rejects path segments above 256 bytes by design
    let s = match rng.below(8) {
        0 => {
            let chars: Vec<char> = "&/.<>:#!".chars().collect();
            let n = 1 + rng.usize(4);
            (0..n).map(|_| *rng.pick(&chars)).collect::<String>()
        }
        1 | 2 => {
            let chars: Vec<char> = "ab01&/.<>:#! é漢_-".chars().collect();
            let n = 1 + rng.usize(10);
            (0..n).map(|_| *rng.pick(&chars)).collect::<String>()
        }
        3 => (*rng.pick(&[
            "a", "0", "1:a", "10:a", "0:a", "a:b", "a>b", ">", "<a>b", "a/b", "a.b", "&", "&&", "&.", "&>", "#a", "!a", "#!a", "a#", "a&", "12", "1:", ":", "x y", "é", "Block.Output",
            "/Name_1", "HasChild", "Organizes",
        ]))
        .to_string(),
        4 => gen::non_empty_string(rng, 16),
        5 => {
            let n = 1 + rng.usize(3);
            (0..n).map(|_| (b'0' + rng.below(10) as u8) as char).collect::<String>()
        }
        6 if rng.chance(1, 4) => {
            // line breaks and other unusual but legal string content
            let chars: Vec<char> = "ab\n\r\t\u{0}\u{85}\u{2028}".chars().collect();
            let n = 1 + rng.usize(4);
            (0..n).map(|_| *rng.pick(&chars)).collect::<String>()
        }
        _ => {
            let n = 1 + rng.usize(8);
            (0..n).map(|_| (b'a' + rng.below(26) as u8) as char).collect::<String>()
        }
    };
    let s: String = s.chars().take(24).collect();
    if s.is_empty() {
        "a".into()
    } else {
        s
    }
}

fn ns_value(rng: &mut Rng) -> u64 {
    match rng.below(6) {
        0 => 0,
        1 => 1 + rng.below(9),
        2 => *rng.pick(&[9u64, 10, 11, 99, 100, 999, 1000, 9999, 10000, 65534, 65535]),
        3 => 10 + rng.below(90),
        _ => rng.below(65536),
    }
}

fn gen_element(rng: &mut Rng) -> Value {
    let r = match rng.below(6) {
        0 | 1 => json!({"std": "HierarchicalReferences"}),
        2 => json!({"std": "Aggregates"}),
        3 => json!({"std": STD_REFS[rng.usize(STD_REFS.len())].1}),
        _ => loop {
            let ns = ns_value(rng);
            let s = name_string(rng);
            if !(ns == 0 && std_ref(&s).is_some()) {
                break json!({"ns": ns, "s": s});
            }
        },
    };
    let (inv, sub) = match rng.below(4) {
        0 | 1 => (false, true),
        2 => (rng.bool(), rng.bool()),
        _ => (true, false),
    };
    if rng.chance(1, 12) {
        json!({"ref": r, "inv": inv, "sub": sub, "tns": 0, "tname": Value::Null})
    } else {
        json!({"ref": r, "inv": inv, "sub": sub, "tns": ns_value(rng), "tname": name_string(rng)})
    }
}

fn gen_rt(rng: &mut Rng) -> Value {
    let n = match rng.below(10) {
        0 => 0,
        1..=4 => 1,
        5 | 6 => 2 + rng.usize(3),
        7 => 32,
        8 => 31,
        _ => 1 + rng.usize(32),
    };
    json!({"k": "rt", "elements": (0..n).map(|_| gen_element(rng)).collect::<Vec<_>>()})
}

fn rt_grid() -> Vec<Value> {
    let mut v = Vec::new();
    let refs = [
        (json!({"std": "HierarchicalReferences"}), false, true),
        (json!({"std": "Aggregates"}), false, true),
        (json!({"std": "HierarchicalReferences"}), true, true),
        (json!({"std": "HasChild"}), false, true),
        (json!({"std": "HasChild"}), true, false),
        (json!({"std": "HasEncoding"}), false, false),
        (json!({"ns": 0, "s": "MyRef"}), false, true),
        (json!({"ns": 2, "s": "MyRef"}), true, false),
        (json!({"ns": 10, "s": "MyRef"}), false, true),
        (json!({"ns": 65535, "s": "MyRef"}), false, true),
        (json!({"ns": 1, "s": "My.Ref"}), false, true),
        (json!({"ns": 0, "s": "1:x"}), false, true),
    ];
    let names = ["a", "foo1", "Block.Output", "a>b", "a/b", "a<b", "a:b", "a&b", "#a", "!a", "1:a", "12", "é", "x y", "&/.<>:#!"];
    for (r, inv, sub) in &refs {
        for tns in [0u64, 1, 9, 10, 99, 100, 65535] {
            for name in names {
                v.push(json!({"k": "rt", "elements": [{"ref": r, "inv": inv, "sub": sub, "tns": tns, "tname": name}]}));
            }
        }
        v.push(json!({"k": "rt", "elements": [{"ref": r, "inv": inv, "sub": sub, "tns": 0, "tname": Value::Null}]}));
    }
    // lengths around the limit of 32 elements
    for n in [0usize, 1, 2, 31, 32] {
        let e = json!({"ref": {"std": "HierarchicalReferences"}, "inv": false, "sub": true, "tns": 1, "tname": "n"});
        v.push(json!({"k": "rt", "elements": std::iter::repeat(e).take(n).collect::<Vec<_>>()}));
        let e2 = json!({"ref": {"std": "HasChild"}, "inv": true, "sub": false, "tns": 3, "tname": "x.y"});
        v.push(json!({"k": "rt", "elements": std::iter::repeat(e2).take(n).collect::<Vec<_>>()}));
    }
    v
}

const HOSTILE: &[&str] = &[
    "", "/", ".", "<", ">", "&", "&&", "/&", "<>", "<>a", "<#>", "<!>", "<#!>", "<#!", "<a", "<a>", "<:a>b", "<1:>b", "<99999:a>b", "<65536:a>b", "<1:a>99999:b", "/99999:b", "/65536:b",
    "/+:b", "/+1:b", "/:b", "/1:", "/1:2:3", "//", "/./", "...", "<<>>", "<a><b>", "<a>b<c>d", "a", "abc/def", "é", "/é", "<é>é", "&é", "/&é", "<&>>a", "<a&>>b", "/a&", "/&", "<a>&", "/0:a\nb",
    "<!#a>b", "<##a>b", "<a>>b", "/1:&", "/1&:a", "/１:a",
];

fn gen_parse(rng: &mut Rng) -> Value {
    let (s, o): (String, &str) = match rng.below(8) {
        0 => (gen::string(rng, 60), "arbitrary"),
        1 | 2 => {
            let chars: Vec<char> = "/.<>#!&:0123456789aé漢😀+ \n".chars().collect();
            let n = rng.usize(16);
            ((0..n).map(|_| *rng.pick(&chars)).collect(), "alphabet")
        }
        3 => {
            let mut s = String::new();
            for _ in 0..1 + rng.below(4) {
                s.push_str(*rng.pick(HOSTILE));
            }
            (s, "hostile-concat")
        }
        4 => {
            // long inputs: many elements, long segments
            match rng.below(3) {
                0 => ("/a".repeat(30 + rng.usize(10)), "long"),
                1 => (format!("/{}", "a".repeat(250 + rng.usize(12))), "long"),
                _ => (format!("/{}", "é".repeat(120 + rng.usize(12))), "long"),
            }
        }
        _ => {
            let rt = gen_rt(rng);
            let printed = path_of(&rt).and_then(|p| catch(|| String::from(&p)).ok()).unwrap_or_default();
            let mut c: Vec<char> = printed.chars().collect();
            let alphabet: Vec<char> = "/.<>#!&:09aé\n".chars().collect();
            for _ in 0..1 + rng.below(2) {
                let pos = rng.usize(c.len() + 1);
                match rng.below(3) {
                    0 if !c.is_empty() => {
                        c.remove(pos.min(c.len() - 1));
                    }
                    1 => c.insert(pos, *rng.pick(&alphabet)),
                    _ if !c.is_empty() => {
                        let p = pos.min(c.len() - 1);
                        c[p] = *rng.pick(&alphabet);
                    }
                    _ => {}
                }
            }
            (c.into_iter().collect(), "near-miss")
        }
    };
    json!({"k": "parse", "s": s, "o": o})
}

fn short_alphabet_strings() -> Vec<String> {
    let a: Vec<char> = "/.<>#!&:1aé".chars().collect();
    let mut out = vec![String::new()];
    let mut frontier = vec![String::new()];
    for _ in 0..4 {
        let mut next = Vec::new();
        for f in &frontier {
            for c in &a {
                let mut s = f.clone();
                s.push(*c);
                next.push(s);
            }
        }
        out.extend(next.iter().cloned());
        frontier = next;
    }
    out
}

pub fn c05(args: &Args, rep: &mut Report) {
    rep.max_violations = 120;
    let w = W;
    let mut cases: Vec<Value> = Vec::new();
    if args.replay.is_none() {
        let mut idx = 0usize;
        let mut push = |c: Value, cases: &mut Vec<Value>| {
            if idx % args.shards == args.shard {
                cases.push(c);
            }
            idx += 1;
        };
        for c in rt_grid() {
            push(c, &mut cases);
        }
        for s in HOSTILE {
            push(json!({"k": "parse", "s": s, "o": "hostile"}), &mut cases);
        }
        for s in short_alphabet_strings() {
            push(json!({"k": "parse", "s": s, "o": "short-exhaustive"}), &mut cases);
        }
        rep.count("grid_cases", cases.len() as u64);
    }
    let mut rng = Rng::new(args.seed ^ 0xC05 ^ ((args.shard as u64) << 32));
    let mut left = if args.replay.is_some() { 0 } else { args.budget(120_000, 8_000_000) };
    let random = std::iter::from_fn(move || {
        if left == 0 {
            return None;
        }
        left -= 1;
        Some(if rng.chance(3, 5) { gen_rt(&mut rng) } else { gen_parse(&mut rng) })
    });
    run_all(&w, args, rep, &mut cases.into_iter().chain(random));
}
