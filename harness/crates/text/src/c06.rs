//! C06: implicit Variant conversion never changes a numeric value; explicit casts to integer types round
//! to nearest and yield no result exactly when the rounded value is out of range.
//!
//! The oracle is a reference on exact arithmetic (i128 for integers, exact floor / fraction of the
//! float for float sources, an integer bit algorithm for "nearest representable float"). The real
//! `Variant::convert`, `Variant::cast` and the event filter helper `operator::convert` (through the
//! cfg hook) are what is executed.
use crate::common::*;
use crate::p_text::*;
use opcua::types::{Variant, VariantTypeId};
use opcua::verif::server::operator_convert;
use serde_json::{json, Value};

#[derive(Clone, Copy, Debug, PartialEq)]
pub enum Num {
    Int(i128),
    /// exact value of the float (an f32 is widened, which is exact)
    Flt(f64),
}

#[derive(Clone, Copy, Debug, PartialEq)]
pub struct Ty {
    pub name: &'static str,
    pub id: VariantTypeId,
    pub min: i128,
    pub max: i128,
    /// 0 = integer, 24 = f32, 53 = f64 (precision in bits)
    pub prec: u32,
}

pub const TYPES: [Ty; 10] = [
    Ty { name: "SByte", id: VariantTypeId::SByte, min: i8::MIN as i128, max: i8::MAX as i128, prec: 0 },
    Ty { name: "Byte", id: VariantTypeId::Byte, min: 0, max: u8::MAX as i128, prec: 0 },
    Ty { name: "Int16", id: VariantTypeId::Int16, min: i16::MIN as i128, max: i16::MAX as i128, prec: 0 },
    Ty { name: "UInt16", id: VariantTypeId::UInt16, min: 0, max: u16::MAX as i128, prec: 0 },
    Ty { name: "Int32", id: VariantTypeId::Int32, min: i32::MIN as i128, max: i32::MAX as i128, prec: 0 },
    Ty { name: "UInt32", id: VariantTypeId::UInt32, min: 0, max: u32::MAX as i128, prec: 0 },
    Ty { name: "Int64", id: VariantTypeId::Int64, min: i64::MIN as i128, max: i64::MAX as i128, prec: 0 },
    Ty { name: "UInt64", id: VariantTypeId::UInt64, min: 0, max: u64::MAX as i128, prec: 0 },
    Ty { name: "Float", id: VariantTypeId::Float, min: 0, max: 0, prec: 24 },
    Ty { name: "Double", id: VariantTypeId::Double, min: 0, max: 0, prec: 53 },
];

pub fn ty(name: &str) -> Option<Ty> {
    TYPES.iter().cloned().find(|t| t.name == name)
}

impl Ty {
    fn is_int(&self) -> bool {
        self.prec == 0
    }
    fn contains(&self, x: i128) -> bool {
        x >= self.min && x <= self.max
    }
}

fn make(t: Ty, n: Num) -> Option<Variant> {
    Some(match (t.name, n) {
        ("SByte", Num::Int(x)) => Variant::SByte(i8::try_from(x).ok()?),
        ("Byte", Num::Int(x)) => Variant::Byte(u8::try_from(x).ok()?),
        ("Int16", Num::Int(x)) => Variant::Int16(i16::try_from(x).ok()?),
        ("UInt16", Num::Int(x)) => Variant::UInt16(u16::try_from(x).ok()?),
        ("Int32", Num::Int(x)) => Variant::Int32(i32::try_from(x).ok()?),
        ("UInt32", Num::Int(x)) => Variant::UInt32(u32::try_from(x).ok()?),
        ("Int64", Num::Int(x)) => Variant::Int64(i64::try_from(x).ok()?),
        ("UInt64", Num::Int(x)) => Variant::UInt64(u64::try_from(x).ok()?),
        ("Float", Num::Flt(f)) => Variant::Float(f as f32),
        ("Double", Num::Flt(f)) => Variant::Double(f),
        _ => return None,
    })
}

/// The numeric type and exact value of a numeric Variant
fn num_of(v: &Variant) -> Option<(Ty, Num)> {
    let (n, x) = match v {
        Variant::SByte(x) => ("SByte", Num::Int(*x as i128)),
        Variant::Byte(x) => ("Byte", Num::Int(*x as i128)),
        Variant::Int16(x) => ("Int16", Num::Int(*x as i128)),
        Variant::UInt16(x) => ("UInt16", Num::Int(*x as i128)),
        Variant::Int32(x) => ("Int32", Num::Int(*x as i128)),
        Variant::UInt32(x) => ("UInt32", Num::Int(*x as i128)),
        Variant::Int64(x) => ("Int64", Num::Int(*x as i128)),
        Variant::UInt64(x) => ("UInt64", Num::Int(*x as i128)),
        Variant::Float(x) => ("Float", Num::Flt(*x as f64)),
        Variant::Double(x) => ("Double", Num::Flt(*x)),
        _ => return None,
    };
    Some((ty(n).unwrap(), x))
}

// ---------------------------------------------------------------- case descriptions

fn operand_desc(t: Ty, n: Num) -> Value {
    match n {
        Num::Int(x) => json!({"t": t.name, "val": x.to_string()}),
        Num::Flt(f) => {
            if t.prec == 24 {
                json!({"t": t.name, "bits": format!("{:08x}", (f as f32).to_bits()), "val": format!("{:e}", f as f32)})
            } else {
                json!({"t": t.name, "bits": format!("{:016x}", f.to_bits()), "val": format!("{:e}", f)})
            }
        }
    }
}

fn operand_of(d: &Value) -> Option<(Ty, Num)> {
    let t = ty(d["t"].as_str()?)?;
    if t.is_int() {
        let x: i128 = d["val"].as_str()?.parse().ok()?;
        if !t.contains(x) {
            return None;
        }
        Some((t, Num::Int(x)))
    } else if t.prec == 24 {
        let b = u32::from_str_radix(d["bits"].as_str()?, 16).ok()?;
        Some((t, Num::Flt(f32::from_bits(b) as f64)))
    } else {
        let b = u64::from_str_radix(d["bits"].as_str()?, 16).ok()?;
        Some((t, Num::Flt(f64::from_bits(b))))
    }
}

fn case_unary(op: &str, t: Ty, n: Num, dst: Ty) -> Value {
    json!({"op": op, "src": operand_desc(t, n), "dst": dst.name})
}

fn case_pair(a: (Ty, Num), b: (Ty, Num)) -> Value {
    json!({"op": "opconvert", "a": operand_desc(a.0, a.1), "b": operand_desc(b.0, b.1)})
}

// ---------------------------------------------------------------- reference

/// The floats of precision `prec` nearest to the integer x (one value, or two on an exact tie)
fn nearest_floats(x: i128, prec: u32) -> Vec<f64> {
    let neg = x < 0;
    let m: u128 = x.unsigned_abs();
    let bits = 128 - m.leading_zeros();
    let mags: Vec<u128> = if bits <= prec {
        vec![m]
    } else {
        let shift = bits - prec;
        let lo = (m >> shift) << shift;
        let hi = lo + (1u128 << shift);
        let rem = m - lo;
        let half = 1u128 << (shift - 1);
        if rem < half {
            vec![lo]
        } else if rem > half {
            vec![hi]
        } else {
            vec![lo, hi]
        }
    };
    // each magnitude has at most `prec` significant bits (or is a power of two), so `as f64` is exact
    mags.into_iter().map(|m| if neg { -(m as f64) } else { m as f64 }).collect()
}

#[derive(Clone, Copy, Debug, PartialEq)]
enum Expect {
    Value(i128),
    Nothing,
}

/// Acceptable outcomes of an explicit cast of `src` to the integer type `dst`
fn cast_expect(src: Num, dst: Ty) -> Vec<Expect> {
    let wrap = |n: i128| if dst.contains(n) { Expect::Value(n) } else { Expect::Nothing };
    match src {
        Num::Int(x) => vec![wrap(x)],
        Num::Flt(f) => {
            if !f.is_finite() || f.abs() >= 1e30 {
                return vec![Expect::Nothing];
            }
            let fl = f.floor();
            let frac = f - fl; // exact: |f| < 2^52 or f integral
            let lo = fl as i128; // exact: integral and far inside i128
            let mut out = if frac == 0.0 {
                vec![wrap(lo)]
            } else if frac < 0.5 {
                vec![wrap(lo)]
            } else if frac > 0.5 {
                vec![wrap(lo + 1)]
            } else {
                vec![wrap(lo), wrap(lo + 1)]
            };
            out.dedup();
            out
        }
    }
}

/// Coarse relation of the source value to an integer target, for signatures and classes
fn rel_int(src: Num, st: Ty, dst: Ty) -> String {
    match src {
        Num::Int(x) => {
            if x < dst.min {
                "below-min".into()
            } else if x > dst.max {
                "above-max".into()
            } else {
                "in-range".into()
            }
        }
        Num::Flt(f) => {
            if f.is_nan() {
                return "nan".into();
            }
            if f.is_infinite() {
                return if f > 0.0 { "+inf".into() } else { "-inf".into() };
            }
            let e = cast_expect(src, dst);
            let any_val = e.iter().any(|x| matches!(x, Expect::Value(_)));
            let any_none = e.iter().any(|x| matches!(x, Expect::Nothing));
            let range = if any_val && !any_none {
                // does the value itself lie outside although its rounding is inside?
                if f < dst.min as f64 || f > dst.max as f64 {
                    "rounds-into-range"
                } else {
                    "in-range"
                }
            } else if any_val {
                "tie-at-bound"
            } else {
                let (lo, hi) = (dst.min as f64, dst.max as f64);
                // "just": close enough to the bound that a wrong rounding rule alone can explain a result
                if f < lo {
                    if lo - f <= 1.5 { "just-below-min" } else { "far-below-min" }
                } else if f - hi <= 1.5 {
                    "just-above-max"
                } else {
                    "far-above-max"
                }
            };
            let fl = f.floor();
            let frac = f - fl;
            let fr = if frac == 0.0 {
                "integral"
            } else if frac < 0.5 {
                "frac<.5"
            } else if frac > 0.5 {
                "frac>.5"
            } else {
                "frac=.5"
            };
            let big = if f.abs() >= (1u64 << (st.prec - 1)) as f64 { ",big" } else { "" };
            format!("{},{},{}{}", if f.is_sign_negative() { "neg" } else { "pos" }, range, fr, big)
        }
    }
}

fn rel_float(src: Num, dst: Ty) -> String {
    match src {
        Num::Int(x) => {
            let c = nearest_floats(x, dst.prec);
            if c.len() == 2 {
                "int,tie".into()
            } else if c[0].abs() < 1e30 && c[0] as i128 == x {
                "int,exact".into()
            } else {
                "int,rounded".into()
            }
        }
        Num::Flt(f) => {
            if f.is_nan() {
                "float,nan".into()
            } else if f.is_infinite() {
                "float,inf".into()
            } else if (f as f32) as f64 == f {
                "float,fits-f32".into()
            } else {
                "float,needs-f64".into()
            }
        }
    }
}

/// Judges one result of convert (implicit) for (src -> dst). None = acceptable.
/// Returns (failure kind, value class for the signature)
fn judge_implicit(st: Ty, src: Num, dst: Ty, r: &Variant) -> Option<(String, String)> {
    if *r == Variant::Empty {
        return None;
    }
    let (rt, rn) = match num_of(r) {
        Some(x) => x,
        None => return Some(("wrong-type".into(), format!("result {:?}", r.type_id()))),
    };
    if rt.name != dst.name {
        return Some(("wrong-type".into(), format!("result {}", rt.name)));
    }
    if dst.is_int() {
        let n = match rn {
            Num::Int(n) => n,
            _ => return Some(("wrong-type".into(), "float".into())),
        };
        let same = match src {
            Num::Int(x) => x == n,
            Num::Flt(f) => f.is_finite() && f.fract() == 0.0 && f.abs() < 1e30 && f as i128 == n,
        };
        if same {
            None
        } else {
            let rel = rel_int(src, st, dst);
            let outside = cast_expect(src, dst).iter().all(|e| *e == Expect::Nothing);
            let kind = if outside { "out-of-range-yields-value" } else { "wrong-value" };
            Some((kind.into(), rel))
        }
    } else {
        let rf = match rn {
            Num::Flt(f) => f,
            _ => return Some(("wrong-type".into(), "int".into())),
        };
        let ok = match src {
            Num::Int(x) => nearest_floats(x, dst.prec).iter().any(|c| *c == rf),
            Num::Flt(f) => {
                if f.is_nan() {
                    rf.is_nan()
                } else if dst.prec == 53 {
                    rf == f
                } else {
                    // a narrowing that is offered implicitly must still be the nearest value
                    rf == (f as f32) as f64
                }
            }
        };
        if ok {
            None
        } else {
            Some(("not-nearest".into(), rel_float(src, dst)))
        }
    }
}

/// Judges one result of cast for an integer target. None = acceptable.
fn judge_cast_int(st: Ty, src: Num, dst: Ty, r: &Variant) -> Option<(String, String)> {
    let exp = cast_expect(src, dst);
    let got = if *r == Variant::Empty {
        Expect::Nothing
    } else {
        match num_of(r) {
            Some((rt, Num::Int(n))) if rt.name == dst.name => Expect::Value(n),
            Some((rt, _)) => return Some(("wrong-type".into(), format!("result {}", rt.name))),
            None => return Some(("wrong-type".into(), format!("result {:?}", r.type_id()))),
        }
    };
    if exp.contains(&got) {
        return None;
    }
    let rel = rel_int(src, st, dst);
    let all_nothing = exp.iter().all(|e| *e == Expect::Nothing);
    let kind = match got {
        Expect::Nothing => "in-range-yields-nothing",
        Expect::Value(_) => {
            if all_nothing {
                if matches!(src, Num::Flt(f) if f.is_nan()) {
                    "nan-yields-value"
                } else {
                    "out-of-range-yields-value"
                }
            } else {
                "not-nearest"
            }
        }
    };
    Some((kind.into(), rel))
}

/// The value class as it appears in a signature: the full relation minus what does not separate defects
fn sig_class(kind: &str, rel: &str) -> String {
    let tokens: Vec<&str> = rel.split(',').collect();
    if rel == "+inf" {
        return "far-above-max".into();
    }
    if rel == "-inf" {
        return "far-below-min".into();
    }
    if tokens.len() < 3 {
        return rel.to_string();
    }
    let big = tokens.contains(&"big");
    match kind {
        "not-nearest" => format!("{}{}", tokens[0], if big { ",big" } else { "" }),
        "out-of-range-yields-value" => tokens[1].to_string(),
        _ => rel.to_string(),
    }
}

/// How the pair is named in a signature. The float rounding rule lives in one macro shared by all
/// integer targets, so for the rounding failure kinds the target is named by family; range failures
/// that depend on the width of the target name it.
fn pair_label(kind: &str, rel: &str, st: Ty, dst: Ty) -> String {
    if !st.is_int() && dst.is_int() {
        let family = if dst.min < 0 { "signed" } else { "unsigned" };
        let specific = rel.contains("far-") || rel.contains("inf");
        if kind == "not-nearest" || kind == "nan-yields-value" {
            return format!("{}->int", st.name);
        }
        if !specific {
            return format!("{}->{}", st.name, family);
        }
    }
    format!("{}->{}", st.name, dst.name)
}

pub struct W;

impl W {
    fn eval_unary(&self, case: &Value) -> Eval {
        let op = case["op"].as_str().unwrap_or("");
        let (st, src) = match operand_of(&case["src"]) {
            Some(x) => x,
            None => return Eval::fail("bad-case", "harness|bad-case", "cannot build the source operand"),
        };
        let dst = match ty(case["dst"].as_str().unwrap_or("")) {
            Some(d) => d,
            None => return Eval::fail("bad-case", "harness|bad-case", "unknown target type"),
        };
        let v = make(st, src).unwrap();
        let rel = if dst.is_int() { rel_int(src, st, dst) } else { rel_float(src, dst) };
        let class = format!("{} {}->{} {}", op, st.name, dst.name, rel);
        let real = catch(|| if op == "cast" { v.cast(dst.id) } else { v.convert(dst.id) });
        let r = match real {
            Ok(r) => r,
            Err(p) => {
                return Eval::fail(
                    class,
                    format!("{}|{}->{}|{}", op, st.name, dst.name, panic_sig(&p)),
                    format!("{}({:?} -> {}) panicked: {} at {}:{}", op, v, dst.name, p.msg, p.file, p.line),
                )
            }
        };
        let produced = r != Variant::Empty;
        let verdict = if st.name == dst.name {
            // same type: must be the value itself
            if same_variant(&r, &v) { None } else { Some(("identity-changed".to_string(), rel.clone())) }
        } else if op == "convert" {
            judge_implicit(st, src, dst, &r)
        } else if dst.is_int() {
            judge_cast_int(st, src, dst, &r)
        } else {
            // explicit casts to floating point targets are outside the property; when the value comes
            // from the implicit table it is judged as an implicit conversion
            let implicit = catch(|| v.convert(dst.id)).unwrap_or(Variant::Empty);
            if implicit != Variant::Empty { judge_implicit(st, src, dst, &r) } else { None }
        };
        let mut e = match verdict {
            None => Eval::ok(class),
            Some((kind, vclass)) => Eval::fail(
                class,
                format!("{}|{}|{}", op, pair_label(&kind, &vclass, st, dst), kind),
                format!("{}({:?} -> {}) = {:?}; source value class relative to the target: {}", op, v, dst.name, r, vclass),
            )
            .feat(sig_class(&kind, &vclass)),
        };
        e.counts.push((if produced { "results_with_value" } else { "results_empty" }, 1));
        e.counts.push((if op == "cast" { "cast_calls" } else { "convert_calls" }, 1));
        e
    }

    fn eval_pair(&self, case: &Value) -> Eval {
        let (a, b) = match (operand_of(&case["a"]), operand_of(&case["b"])) {
            (Some(a), Some(b)) => (a, b),
            _ => return Eval::fail("bad-case", "harness|bad-case", "cannot build the operands"),
        };
        let va = make(a.0, a.1).unwrap();
        let vb = make(b.0, b.1).unwrap();
        let class0 = format!("opconvert {},{}", a.0.name, b.0.name);
        let real = catch(|| operator_convert(va.clone(), vb.clone()));
        let (ra, rb) = match real {
            Ok(r) => r,
            Err(p) => {
                return Eval::fail(
                    class0,
                    format!("opconvert|{},{}|{}", a.0.name, b.0.name, panic_sig(&p)),
                    format!("operator::convert({:?}, {:?}) panicked: {} at {}:{}", va, vb, p.msg, p.file, p.line),
                )
            }
        };
        let mut fail: Option<(String, String, String)> = None;
        let mut classes = Vec::new();
        let mut converted = 0u64;
        let mut comparable = 0u64;
        for (orig, res, (t, n)) in [(&va, &ra, a), (&vb, &rb, b)] {
            if same_variant(orig, res) {
                classes.push("kept".to_string());
                continue;
            }
            if *res == Variant::Empty {
                classes.push("dropped".to_string());
                continue;
            }
            converted += 1;
            match num_of(res) {
                None => {
                    fail.get_or_insert((format!("opconvert|{}|wrong-type", t.name), format!("{:?} became {:?}", orig, res), String::new()));
                }
                Some((rt, _)) => {
                    let rel = if rt.is_int() { rel_int(n, t, rt) } else { rel_float(n, rt) };
                    classes.push(format!("->{} {}", rt.name, rel));
                    if let Some((kind, vclass)) = judge_implicit(t, n, rt, res) {
                        fail.get_or_insert((
                            format!("opconvert|{}->{}|{}", t.name, rt.name, kind),
                            format!(
                                "operator::convert({:?}, {:?}) = ({:?}, {:?}): operand {:?} became {:?} which is a different number ({})",
                                va, vb, ra, rb, orig, res, vclass
                            ),
                            sig_class(&kind, &vclass),
                        ));
                    }
                }
            }
        }
        if ra != Variant::Empty && rb != Variant::Empty && ra.type_id() == rb.type_id() {
            comparable = 1;
        }
        let class = format!("{} {}", class0, classes.join(" "));
        let e = match fail {
            None => Eval::ok(class),
            Some((k, d, f)) => Eval::fail(class, k, d).feat(f),
        };
        e.with("opconvert_calls", 1).with("opconvert_operands_converted", converted).with("opconvert_pairs_comparable", comparable)
    }
}

/// equality that treats NaN as equal to NaN and distinguishes nothing else beyond ==
fn same_variant(a: &Variant, b: &Variant) -> bool {
    match (a, b) {
        (Variant::Float(x), Variant::Float(y)) => x == y || (x.is_nan() && y.is_nan()),
        (Variant::Double(x), Variant::Double(y)) => x == y || (x.is_nan() && y.is_nan()),
        _ => a == b,
    }
}

impl Workload for W {
    fn eval(&self, case: &Value) -> Eval {
        if case["op"] == "opconvert" {
            self.eval_pair(case)
        } else {
            self.eval_unary(case)
        }
    }
    fn features(&self, case: &Value, fail: &Fail) -> String {
        // the kind already names operation, type pair and failure; add the value class
        let _ = case;
        if fail.feat.is_empty() { "-".into() } else { fail.feat.clone() }
    }
}

// ---------------------------------------------------------------- generators

fn pow2(k: u32) -> i128 {
    1i128 << k
}

/// Boundary values of an integer type: its own extremes, every other type's bounds +-1, and the
/// places where f32 / f64 stop representing every integer (and the tie points just above)
fn interesting_ints(t: Ty) -> Vec<i128> {
    let mut v: Vec<i128> = vec![t.min, t.min + 1, -2, -1, 0, 1, 2, t.max - 1, t.max];
    for u in TYPES.iter().filter(|u| u.is_int()) {
        for b in [u.min, u.max] {
            for d in -2..=2 {
                v.push(b + d);
            }
        }
    }
    for k in [23u32, 24, 25, 31, 32, 52, 53, 54, 62, 63] {
        for d in [-3i128, -2, -1, 0, 1, 2, 3] {
            v.push(pow2(k) + d);
            v.push(-(pow2(k) + d));
        }
        // first tie of the f32 / f64 grid above 2^k
        if k >= 24 {
            v.push(pow2(k) + pow2(k - 24));
            v.push(pow2(k) + 3 * pow2(k - 24));
            v.push(-(pow2(k) + pow2(k - 24)));
        }
        if k >= 53 {
            v.push(pow2(k) + pow2(k - 53));
            v.push(pow2(k) + 3 * pow2(k - 53));
            v.push(-(pow2(k) + pow2(k - 53)));
        }
    }
    // the last f64 / f32 ties below the 64-bit bounds
    for b in [pow2(63), pow2(64)] {
        for s in [pow2(10), pow2(11), pow2(39), pow2(40)] {
            for d in [-1i128, 0, 1] {
                v.push(b - s / 2 + d);
                v.push(b - s + d);
                v.push(-(b - s / 2 + d));
            }
        }
    }
    v.retain(|x| t.contains(*x));
    v.sort();
    v.dedup();
    v
}

fn next_up64(f: f64) -> f64 {
    if f.is_nan() || f == f64::INFINITY {
        return f;
    }
    if f == 0.0 {
        return f64::from_bits(1);
    }
    let b = f.to_bits();
    f64::from_bits(if f > 0.0 { b + 1 } else { b - 1 })
}
fn next_dn64(f: f64) -> f64 {
    -next_up64(-f)
}
fn next_up32(f: f32) -> f32 {
    if f.is_nan() || f == f32::INFINITY {
        return f;
    }
    if f == 0.0 {
        return f32::from_bits(1);
    }
    let b = f.to_bits();
    f32::from_bits(if f > 0.0 { b + 1 } else { b - 1 })
}
fn next_dn32(f: f32) -> f32 {
    -next_up32(-f)
}

const FRACS: [f64; 15] = [-2.0, -1.5, -1.0, -0.75, -0.5, -0.25, 0.0, 0.25, 0.5, 0.75, 1.0, 1.5, 2.0, 0.4999, 0.5001];

fn interesting_f64() -> Vec<f64> {
    let mut v: Vec<f64> = vec![
        f64::NAN,
        f64::INFINITY,
        f64::NEG_INFINITY,
        0.0,
        -0.0,
        0.5,
        -0.5,
        1.5,
        -1.5,
        2.5,
        -2.5,
        0.49999999999999994,
        -0.49999999999999994,
        0.5000000000000001,
        -0.5000000000000001,
        0.6,
        -0.6,
        1.6,
        -1.6,
        -0.4,
        -1.4,
        f64::MIN_POSITIVE,
        -f64::MIN_POSITIVE,
        f64::from_bits(1),
        f64::MAX,
        f64::MIN,
        1e30,
        -1e30,
        1e19,
        -1e19,
        f32::MAX as f64,
        f32::MAX as f64 * 1.0000001,
        f32::MIN_POSITIVE as f64 / 3.0,
        0.1,
        16777217.0,
    ];
    for k in [23u32, 24, 31, 32, 51, 52, 53, 62, 63, 64, 65, 100] {
        let p = 2f64.powi(k as i32);
        for d in [-2.0, -1.0, -0.5, 0.0, 0.5, 1.0, 2.0, 3.0] {
            v.push(p + d);
            v.push(-(p + d));
        }
        v.push(next_up64(p));
        v.push(next_dn64(p));
        v.push(-next_up64(p));
        v.push(-next_dn64(p));
    }
    for u in TYPES.iter().filter(|u| u.is_int()) {
        for b in [u.min as f64, u.max as f64] {
            for d in FRACS {
                let x = b + d;
                v.push(x);
                v.push(next_up64(x));
                v.push(next_dn64(x));
            }
        }
    }
    v
}

fn interesting_f32() -> Vec<f32> {
    let mut v: Vec<f32> = vec![
        f32::NAN,
        f32::INFINITY,
        f32::NEG_INFINITY,
        0.0,
        -0.0,
        0.5,
        -0.5,
        1.5,
        -1.5,
        2.5,
        -2.5,
        0.49999997,
        -0.49999997,
        0.50000006,
        0.6,
        -0.6,
        1.6,
        -1.6,
        -0.4,
        -1.4,
        f32::MIN_POSITIVE,
        f32::from_bits(1),
        f32::MAX,
        f32::MIN,
        1e30,
        -1e30,
        1e19,
        0.1,
        8388609.0,
        -8388609.0,
        8388611.0,
        4194305.5,
    ];
    for k in [7u32, 8, 15, 16, 22, 23, 24, 31, 32, 62, 63, 64, 65, 100] {
        let p = 2f32.powi(k as i32);
        for d in [-2.0f32, -1.0, -0.5, 0.0, 0.5, 1.0, 2.0, 3.0] {
            v.push(p + d);
            v.push(-(p + d));
        }
        v.push(next_up32(p));
        v.push(next_dn32(p));
        v.push(-next_up32(p));
        v.push(-next_dn32(p));
    }
    for u in TYPES.iter().filter(|u| u.is_int()) {
        for b in [u.min as f32, u.max as f32] {
            for d in FRACS {
                let x = b + d as f32;
                v.push(x);
                v.push(next_up32(x));
                v.push(next_dn32(x));
            }
        }
    }
    v
}

fn interesting(t: Ty) -> Vec<Num> {
    if t.is_int() {
        interesting_ints(t).into_iter().map(Num::Int).collect()
    } else if t.prec == 24 {
        interesting_f32().into_iter().map(|f| Num::Flt(f as f64)).collect()
    } else {
        interesting_f64().into_iter().map(Num::Flt).collect()
    }
}

fn random_num(rng: &mut Rng, t: Ty) -> Num {
    if t.is_int() {
        let x: i128 = match rng.below(5) {
            0 => {
                // near one of the bounds of any integer type
                let u = TYPES[rng.usize(8)];
                let b = if rng.bool() { u.min } else { u.max };
                b + rng.range(-3, 3) as i128
            }
            1 => {
                let k = rng.below(65) as u32;
                let base = if k == 0 { 0 } else { pow2(k.min(64)) };
                let x = base + rng.range(-3, 3) as i128;
                if rng.bool() { -x } else { x }
            }
            2 => {
                // random with a random bit length
                let k = 1 + rng.below(64) as u32;
                let m = (rng.next_u64() as u128 & ((1u128 << k) - 1)) as i128;
                if rng.bool() { -m } else { m }
            }
            3 => rng.range(-300, 300) as i128,
            _ => rng.next_u64() as i64 as i128,
        };
        let x = if t.contains(x) {
            x
        } else {
            // fold into range, keeping the low bits
            let span = (t.max - t.min + 1) as u128;
            t.min + ((x - t.min).rem_euclid(span as i128))
        };
        Num::Int(x)
    } else if t.prec == 24 {
        let f: f32 = match rng.below(6) {
            0 => {
                let u = TYPES[rng.usize(8)];
                let b = if rng.bool() { u.min as f32 } else { u.max as f32 };
                let mut x = b + *rng.pick(&FRACS) as f32;
                for _ in 0..rng.below(3) {
                    x = if rng.bool() { next_up32(x) } else { next_dn32(x) };
                }
                x
            }
            1 => f32::from_bits(rng.next_u32()),
            2 => {
                let i = rng.range(-70000, 70000) as f32;
                i + *rng.pick(&[0.0f32, 0.25, 0.5, 0.75, 0.49999997, 0.50000006])
            }
            3 => {
                let k = rng.below(70) as i32;
                let x = 2f32.powi(k) + rng.range(-3, 3) as f32 * 0.5;
                if rng.bool() { -x } else { x }
            }
            4 => ((rng.f64_unit() - 0.5) * 10f64.powi(rng.range(-3, 25) as i32)) as f32,
            _ => pick_f32(rng),
        };
        Num::Flt(f as f64)
    } else {
        let f: f64 = match rng.below(6) {
            0 => {
                let u = TYPES[rng.usize(8)];
                let b = if rng.bool() { u.min as f64 } else { u.max as f64 };
                let mut x = b + *rng.pick(&FRACS);
                for _ in 0..rng.below(3) {
                    x = if rng.bool() { next_up64(x) } else { next_dn64(x) };
                }
                x
            }
            1 => f64::from_bits(rng.next_u64()),
            2 => {
                let i = rng.range(-5_000_000_000, 5_000_000_000) as f64;
                i + *rng.pick(&[0.0f64, 0.25, 0.5, 0.75, 0.49999999999999994, 0.5000000000000001])
            }
            3 => {
                let k = rng.below(70) as i32;
                let x = 2f64.powi(k) + rng.range(-3, 3) as f64 * 0.5;
                if rng.bool() { -x } else { x }
            }
            4 => (rng.f64_unit() - 0.5) * 10f64.powi(rng.range(-3, 25) as i32),
            _ => pick_f64(rng),
        };
        Num::Flt(f)
    }
}

fn pick_f32(rng: &mut Rng) -> f32 {
    thread_local!(static C: Vec<f32> = interesting_f32());
    C.with(|c| c[rng.usize(c.len())])
}
fn pick_f64(rng: &mut Rng) -> f64 {
    thread_local!(static C: Vec<f64> = interesting_f64());
    C.with(|c| c[rng.usize(c.len())])
}

pub fn c06(args: &Args, rep: &mut Report) {
    let w = W;
    // many small signatures (operation x type pair x value class): keep room for all of them
    rep.max_violations = 400;
    let mut cases: Vec<Value> = Vec::new();
    if args.replay.is_none() {
        // the whole boundary grid, split over the shards
        let mut idx = 0usize;
        let mut push = |c: Value, cases: &mut Vec<Value>| {
            if idx % args.shards == args.shard {
                cases.push(c);
            }
            idx += 1;
        };
        for st in TYPES {
            let vals = interesting(st);
            for dst in TYPES {
                for n in &vals {
                    push(case_unary("convert", st, *n, dst), &mut cases);
                    push(case_unary("cast", st, *n, dst), &mut cases);
                }
            }
            // operator::convert: every boundary value of one operand against a few values of every other type
            for bt in TYPES {
                let others: Vec<Num> = if bt.is_int() {
                    vec![Num::Int(0), Num::Int(1.min(bt.max)), Num::Int(bt.max), Num::Int(bt.min)]
                } else {
                    vec![Num::Flt(0.0), Num::Flt(1.5), Num::Flt(-3.0e9)]
                };
                for n in &vals {
                    for (i, o) in others.iter().enumerate() {
                        if i % 2 == 0 {
                            push(case_pair((st, *n), (bt, *o)), &mut cases);
                        } else {
                            push(case_pair((bt, *o), (st, *n)), &mut cases);
                        }
                    }
                }
            }
        }
        rep.count("grid_cases", cases.len() as u64);
    }
    let mut rng = Rng::new(args.seed ^ 0xC06 ^ ((args.shard as u64) << 32));
    let mut left = if args.replay.is_some() { 0 } else { args.budget(400_000, 48_000_000) };
    let random = std::iter::from_fn(move || {
        if left == 0 {
            return None;
        }
        left -= 1;
        let st = TYPES[rng.usize(10)];
        let src = random_num(&mut rng, st);
        Some(match rng.below(5) {
            0 | 1 => case_unary("cast", st, src, TYPES[rng.usize(10)]),
            2 | 3 => case_unary("convert", st, src, TYPES[rng.usize(10)]),
            _ => {
                let bt = TYPES[rng.usize(10)];
                let b = random_num(&mut rng, bt);
                case_pair((st, src), (bt, b))
            }
        })
    });
    run_all(&w, args, rep, &mut cases.into_iter().chain(random));
}
