//! C41: any valid client or server configuration written to a file and loaded again is equal to the
//! original and is still valid.
//!
//! A configuration is described as JSON; the description is turned into a real `ServerConfig` (field by
//! field) / `ClientConfig` (through the public `ClientBuilder` setters), filtered by its own `is_valid()`, saved with the real
//! `Config::save` to a file under <work>/scratch, loaded with the real `Config::load`, compared with ==
//! and re-validated.
use crate::common::*;
use crate::p_text::*;
use crate::pki;
use opcua::client::ClientConfig;
use opcua::core::config::Config;
use opcua::crypto::SecurityPolicy;
use opcua::server::config::ServerConfig;
use opcua::types::MessageSecurityMode;
use serde_json::{json, Map, Value};
use std::path::PathBuf;

/// Strings that mean something to a YAML reader or writer
const YAML_STRINGS: &[&str] = &[
    "",
    " ",
    "  leading",
    "trailing  ",
    "~",
    "null",
    "Null",
    "NULL",
    "true",
    "false",
    "True",
    "yes",
    "no",
    "on",
    "off",
    "y",
    "n",
    "123",
    "0",
    "-0",
    "+1",
    "0x1F",
    "0o17",
    "017",
    "1e3",
    "1.0",
    ".5",
    "0.1e-5",
    ".inf",
    "-.inf",
    ".nan",
    ".NaN",
    "Infinity",
    "1_000",
    "12:30:45",
    "2001-12-14",
    "2001-12-14t21:59:43.10-05:00",
    "- item",
    "-",
    "- ",
    "---",
    "--- x",
    "...",
    "key: value",
    "a: b: c",
    "a:b",
    ":",
    ": c",
    "? q",
    "?",
    "#comment",
    "a #b",
    "a#b",
    "'single'",
    "\"double\"",
    "it's",
    "'",
    "\"",
    "back\\slash",
    "\\n",
    "{flow}",
    "{",
    "}",
    "[seq]",
    "[",
    "]",
    "a,b",
    ",",
    "&anchor",
    "*alias",
    "!tag",
    "!!str x",
    "!",
    "|",
    ">",
    "|-",
    ">+",
    "%directive",
    "%",
    "@at",
    "`tick`",
    "<<",
    "=",
    "line\nbreak",
    "trailing newline\n",
    "two trailing\n\n",
    "\nleading newline",
    "\n",
    "two\n\nlines\n\n",
    "  indented\n  block",
    " leading space\nthen line",
    "a\n b",
    "a\n\tb",
    "# c\nx",
    "tab\there",
    "\ttab first",
    "tab last\t",
    "cr\rhere",
    "\r",
    "crlf\r\n",
    "\u{0}",
    "\u{7}bell",
    "\u{8}",
    "\u{1b}esc",
    "\u{7f}",
    "\u{85}nel",
    "\u{85}",
    "\u{a0}nbsp",
    "\u{2028}ls",
    "\u{2029}ps",
    "x\u{2028}",
    "\u{feff}bom",
    "x\u{feff}",
    "\u{fffe}",
    "\u{ffff}",
    "\u{fffd}",
    "\u{d7ff}\u{e000}",
    "\u{10ffff}",
    "é",
    "日本語",
    "😀",
    "opc.tcp://127.0.0.1:4855/",
    "urn:app:name",
    "C:\\pki\\own\\cert.der",
    "./pki",
    "a b  c   d",
];

fn yaml_string(rng: &mut Rng) -> String {
    match rng.below(10) {
        0..=3 => (*rng.pick(YAML_STRINGS)).to_string(),
        4 => {
            // two specials glued together
            format!("{}{}", rng.pick(YAML_STRINGS), rng.pick(YAML_STRINGS))
        }
        5 | 6 => {
            let chars: Vec<char> = ":#-'\"\n{}[],&*!|>%~ \t\r\\@`?=ab01.eé\u{85}\u{2028}\u{feff}\u{0}".chars().collect();
            let n = 1 + rng.usize(10);
            (0..n).map(|_| *rng.pick(&chars)).collect()
        }
        7 => {
            // long: line folding territory
            let word = ["lorem", "ipsum", ":", "#", "-", "dolor"];
            let n = 20 + rng.usize(60);
            (0..n).map(|_| *rng.pick(&word)).collect::<Vec<_>>().join(if rng.bool() { " " } else { "  " })
        }
        8 => crate::gen::string(rng, 30),
        _ => {
            let n = 1 + rng.usize(8);
            (0..n).map(|_| (b'a' + rng.below(26) as u8) as char).collect()
        }
    }
}

fn non_empty_yaml_string(rng: &mut Rng) -> String {
    loop {
        let s = yaml_string(rng);
        if !s.is_empty() {
            return s;
        }
    }
}

fn opt_string(rng: &mut Rng) -> Value {
    if rng.chance(1, 3) {
        Value::Null
    } else {
        json!(yaml_string(rng))
    }
}

fn usize_value(rng: &mut Rng, zero_ok: bool) -> u64 {
    loop {
        let v = match rng.below(6) {
            0 => 0,
            1 => 1,
            2 => *rng.pick(&[255u64, 65535, 65536, 327675, u32::MAX as u64, u32::MAX as u64 + 1, i64::MAX as u64, i64::MAX as u64 + 1, u64::MAX - 1, u64::MAX]),
            3 => rng.below(100_000),
            _ => rng.next_u64() >> rng.below(64),
        };
        if v != 0 || zero_ok {
            return v;
        }
    }
}

fn f64_value(rng: &mut Rng) -> f64 {
    loop {
        let f = match rng.below(6) {
            0 => *rng.pick(&[0.0, -0.0, 0.1, 1.0, 100.0, 1e-300, 1e300, f64::MAX, f64::MIN_POSITIVE, 5e-324, 0.30000000000000004, 1.0e15, 1.0e16, 123456789.123456789]),
            1 => f64::from_bits(rng.next_u64()),
            2 => rng.f64_unit(),
            3 => (rng.f64_unit() - 0.5) * 10f64.powi(rng.range(-20, 20) as i32),
            _ => rng.below(100000) as f64 / 1000.0,
        };
        if f.is_finite() {
            return f;
        }
    }
}

fn policy_name(rng: &mut Rng, allow_uri: bool) -> (String, bool) {
    let p = *rng.pick(&[
        SecurityPolicy::None,
        SecurityPolicy::Basic128Rsa15,
        SecurityPolicy::Basic256,
        SecurityPolicy::Basic256Sha256,
        SecurityPolicy::Aes128Sha256RsaOaep,
        SecurityPolicy::Aes256Sha256RsaPss,
    ]);
    let s = if allow_uri && rng.chance(1, 4) { p.to_uri().to_string() } else { p.to_str().to_string() };
    (s, p == SecurityPolicy::None)
}

fn mode_name(rng: &mut Rng, none: bool) -> String {
    if none {
        MessageSecurityMode::None.to_string()
    } else if rng.bool() {
        MessageSecurityMode::Sign.to_string()
    } else {
        MessageSecurityMode::SignAndEncrypt.to_string()
    }
}

fn distinct_keys(rng: &mut Rng, n: usize, forbidden: &[&str]) -> Vec<String> {
    let mut keys: Vec<String> = Vec::new();
    let mut guard = 0;
    while keys.len() < n && guard < 200 {
        guard += 1;
        let k = non_empty_yaml_string(rng);
        if !keys.contains(&k) && !forbidden.contains(&k.as_str()) {
            keys.push(k);
        }
    }
    keys
}

fn gen_server(rng: &mut Rng) -> Value {
    let ntok = rng.usize(4);
    let token_ids = distinct_keys(rng, ntok, &["ANONYMOUS"]);
    let mut tokens = Map::new();
    for id in &token_ids {
        let mut t = Map::new();
        t.insert("user".into(), json!(non_empty_yaml_string(rng)));
        if rng.bool() {
            t.insert("pass".into(), json!(yaml_string(rng)));
        } else {
            t.insert("x509".into(), json!(yaml_string(rng)));
        }
        tokens.insert(id.clone(), Value::Object(t));
    }
    let nep = 1 + rng.usize(4);
    let ep_ids = distinct_keys(rng, nep, &[]);
    let mut eps = Map::new();
    for id in &ep_ids {
        let (pol, none) = policy_name(rng, true);
        let mut ids: Vec<String> = Vec::new();
        if rng.bool() {
            ids.push("ANONYMOUS".into());
        }
        for t in &token_ids {
            if rng.bool() {
                ids.push(t.clone());
            }
        }
        eps.insert(
            id.clone(),
            json!({
                "path": yaml_string(rng),
                "security_policy": pol,
                "security_mode": mode_name(rng, none),
                "security_level": rng.below(256),
                "password_security_policy": if rng.chance(1, 3) { json!(policy_name(rng, true).0) } else { Value::Null },
                "user_token_ids": ids,
            }),
        );
    }
    let default_endpoint = if rng.bool() { json!(rng.pick(&ep_ids).clone()) } else { Value::Null };
    let ndisc = 1 + rng.usize(3);
    let nloc = rng.usize(3);
    json!({
        "application_name": yaml_string(rng),
        "application_uri": yaml_string(rng),
        "product_uri": yaml_string(rng),
        "create_sample_keypair": rng.bool(),
        "certificate_path": opt_string(rng),
        "private_key_path": opt_string(rng),
        "certificate_validation": {"trust_client_certs": rng.bool(), "check_time": rng.bool()},
        "pki_dir": yaml_string(rng),
        "discovery_server_url": opt_string(rng),
        "tcp_config": {"hello_timeout": rng.next_u32() >> rng.below(32), "host": yaml_string(rng), "port": rng.below(65536)},
        "limits": {
            "clients_can_modify_address_space": rng.bool(),
            "max_subscriptions": usize_value(rng, true),
            "max_monitored_items_per_sub": usize_value(rng, true),
            "max_monitored_item_queue_size": usize_value(rng, true),
            "max_array_length": usize_value(rng, false),
            "max_string_length": usize_value(rng, false),
            "max_byte_string_length": usize_value(rng, false),
            "min_sampling_interval": f64_value(rng),
            "min_publishing_interval": f64_value(rng),
            "max_message_size": usize_value(rng, true),
            "max_chunk_count": usize_value(rng, true),
            "send_buffer_size": usize_value(rng, true),
            "receive_buffer_size": usize_value(rng, true),
        },
        "performance": {"single_threaded_executor": rng.bool()},
        "locale_ids": (0..nloc).map(|_| yaml_string(rng)).collect::<Vec<_>>(),
        "user_tokens": tokens,
        "discovery_urls": (0..ndisc).map(|_| yaml_string(rng)).collect::<Vec<_>>(),
        "default_endpoint": default_endpoint,
        "endpoints": eps,
    })
}

fn duration(rng: &mut Rng) -> Value {
    let secs = match rng.below(5) {
        0 => 0,
        1 => 1,
        2 => *rng.pick(&[60u64, u32::MAX as u64, i64::MAX as u64, u64::MAX]),
        _ => rng.next_u64() >> rng.below(64),
    };
    let nanos = match rng.below(4) {
        0 => 0,
        1 => 999_999_999,
        2 => 1,
        _ => rng.below(1_000_000_000),
    };
    json!({"secs": secs, "nanos": nanos})
}

fn gen_client(rng: &mut Rng) -> Value {
    let ntok = rng.usize(4);
    let token_ids = distinct_keys(rng, ntok, &["ANONYMOUS"]);
    let mut tokens = Map::new();
    for id in &token_ids {
        let mut t = Map::new();
        t.insert("user".into(), json!(non_empty_yaml_string(rng)));
        if rng.bool() {
            t.insert("password".into(), json!(yaml_string(rng)));
        } else {
            t.insert("cert_path".into(), json!(yaml_string(rng)));
            t.insert("private_key_path".into(), json!(yaml_string(rng)));
        }
        tokens.insert(id.clone(), Value::Object(t));
    }
    let nep = rng.usize(4);
    let ep_ids = distinct_keys(rng, nep, &[]);
    let mut eps = Map::new();
    for id in &ep_ids {
        let (pol, none) = policy_name(rng, true);
        // the client validator accepts any known mode with any known policy
        let mode = if rng.chance(1, 5) { mode_name(rng, !none) } else { mode_name(rng, none) };
        let user = match rng.below(3) {
            0 => "ANONYMOUS".to_string(),
            1 if !token_ids.is_empty() => rng.pick(&token_ids).clone(),
            _ => yaml_string(rng),
        };
        eps.insert(id.clone(), json!({"url": yaml_string(rng), "security_policy": pol, "security_mode": mode, "user_token_id": user}));
    }
    let default_endpoint = if !ep_ids.is_empty() && rng.bool() { rng.pick(&ep_ids).clone() } else if ep_ids.is_empty() && rng.bool() { yaml_string(rng) } else { String::new() };
    let nloc = rng.usize(3);
    json!({
        "application_name": non_empty_yaml_string(rng),
        "application_uri": non_empty_yaml_string(rng),
        "product_uri": yaml_string(rng),
        "create_sample_keypair": rng.bool(),
        "certificate_path": opt_string(rng),
        "private_key_path": opt_string(rng),
        "trust_server_certs": rng.bool(),
        "verify_server_certs": rng.bool(),
        "pki_dir": yaml_string(rng),
        "preferred_locales": (0..nloc).map(|_| yaml_string(rng)).collect::<Vec<_>>(),
        "default_endpoint": default_endpoint,
        "user_tokens": tokens,
        "endpoints": eps,
        "decoding_options": {
            "max_message_size": usize_value(rng, true),
            "max_chunk_count": usize_value(rng, true),
            "max_chunk_size": usize_value(rng, true),
            "max_incoming_chunk_size": usize_value(rng, true),
            "max_string_length": usize_value(rng, true),
            "max_byte_string_length": usize_value(rng, true),
            "max_array_length": usize_value(rng, true),
        },
        "session_retry_limit": match rng.below(4) { 0 => -1i64, 1 => 0, 2 => i32::MAX as i64, _ => rng.below(1000) as i64 },
        "session_retry_initial": duration(rng),
        "session_retry_max": duration(rng),
        "keep_alive_interval": duration(rng),
        "request_timeout": duration(rng),
        "publish_timeout": duration(rng),
        "min_publish_interval": duration(rng),
        "max_inflight_publish": usize_value(rng, true),
        "session_timeout": rng.next_u32() >> rng.below(32),
        "performance": {"ignore_clock_skew": rng.bool(), "recreate_monitored_items_chunk": usize_value(rng, true), "max_inflight_messages": usize_value(rng, true)},
        "session_name": yaml_string(rng),
    })
}

/// The simplest valid configurations: every generated string slot takes one of the special strings in turn
fn base_server() -> Value {
    json!({
        "application_name": "a", "application_uri": "a", "product_uri": "a", "create_sample_keypair": false,
        "certificate_path": null, "private_key_path": null,
        "certificate_validation": {"trust_client_certs": false, "check_time": false},
        "pki_dir": "a", "discovery_server_url": null,
        "tcp_config": {"hello_timeout": 1, "host": "a", "port": 1},
        "limits": {"clients_can_modify_address_space": false, "max_subscriptions": 1, "max_monitored_items_per_sub": 1, "max_monitored_item_queue_size": 1,
            "max_array_length": 1, "max_string_length": 1, "max_byte_string_length": 1, "min_sampling_interval": 1.0, "min_publishing_interval": 1.0,
            "max_message_size": 1, "max_chunk_count": 1, "send_buffer_size": 1, "receive_buffer_size": 1},
        "performance": {"single_threaded_executor": false},
        "locale_ids": [], "user_tokens": {}, "discovery_urls": ["a"], "default_endpoint": null,
        "endpoints": {"a": {"path": "a", "security_policy": "None", "security_mode": "None", "security_level": 1, "password_security_policy": null, "user_token_ids": []}},
    })
}

fn base_client() -> Value {
    let d = json!({"secs": 1, "nanos": 0});
    json!({
        "application_name": "a", "application_uri": "a", "product_uri": "a", "create_sample_keypair": false,
        "certificate_path": null, "private_key_path": null, "trust_server_certs": false, "verify_server_certs": false,
        "pki_dir": "a", "preferred_locales": [], "default_endpoint": "", "user_tokens": {}, "endpoints": {},
        "decoding_options": {"max_message_size": 1, "max_chunk_count": 1, "max_chunk_size": 1, "max_incoming_chunk_size": 1, "max_string_length": 1,
            "max_byte_string_length": 1, "max_array_length": 1},
        "session_retry_limit": 1, "session_retry_initial": d, "session_retry_max": d, "keep_alive_interval": d, "request_timeout": d,
        "publish_timeout": d, "min_publish_interval": d, "max_inflight_publish": 1, "session_timeout": 1,
        "performance": {"ignore_clock_skew": false, "recreate_monitored_items_chunk": 1, "max_inflight_messages": 1},
        "session_name": "a",
    })
}

fn grid_cases() -> Vec<Value> {
    let mut v = Vec::new();
    for s in YAML_STRINGS {
        // server: a plain string field, a path field, an optional field, a list element, a map key with its references
        for slot in ["application_name", "pki_dir", "discovery_server_url", "certificate_path"] {
            let mut c = base_server();
            c[slot] = json!(s);
            v.push(json!({"kind": "server", "slot": slot, "cfg": c}));
        }
        let mut c = base_server();
        c["discovery_urls"] = json!([s, "a"]);
        c["locale_ids"] = json!([s]);
        v.push(json!({"kind": "server", "slot": "lists", "cfg": c}));
        if !s.is_empty() {
            let mut c = base_server();
            let ep = c["endpoints"]["a"].clone();
            let mut ep = ep;
            ep["user_token_ids"] = json!([s, "ANONYMOUS"]);
            ep["path"] = json!(s);
            c["endpoints"] = json!({ *s: ep });
            c["default_endpoint"] = json!(s);
            if *s != "ANONYMOUS" {
                c["user_tokens"] = json!({ *s: {"user": s, "pass": s} });
            }
            v.push(json!({"kind": "server", "slot": "map-keys", "cfg": c}));
        }
        // client
        for slot in ["application_name", "session_name", "pki_dir", "private_key_path"] {
            if s.is_empty() && slot == "application_name" {
                continue;
            }
            let mut c = base_client();
            c[slot] = json!(s);
            v.push(json!({"kind": "client", "slot": slot, "cfg": c}));
        }
        if !s.is_empty() {
            let mut c = base_client();
            c["endpoints"] = json!({ *s: {"url": s, "security_policy": "None", "security_mode": "None", "user_token_id": s} });
            c["default_endpoint"] = json!(s);
            c["user_tokens"] = json!({ *s: {"user": s, "cert_path": s, "private_key_path": s} });
            c["preferred_locales"] = json!([s]);
            v.push(json!({"kind": "client", "slot": "map-keys", "cfg": c}));
        }
    }
    // numeric extremes
    for n in [0u64, 1, u32::MAX as u64, i64::MAX as u64, i64::MAX as u64 + 1, u64::MAX] {
        let mut c = base_server();
        c["limits"]["max_message_size"] = json!(n);
        c["limits"]["max_subscriptions"] = json!(n);
        v.push(json!({"kind": "server", "slot": "usize", "cfg": c}));
        let mut c = base_client();
        c["max_inflight_publish"] = json!(n);
        c["request_timeout"] = json!({"secs": n, "nanos": 999_999_999});
        v.push(json!({"kind": "client", "slot": "usize", "cfg": c}));
    }
    for (name, bits) in [("inf", f64::INFINITY.to_bits()), ("-inf", f64::NEG_INFINITY.to_bits()), ("min-subnormal", 1u64), ("max", f64::MAX.to_bits()), ("-0", (-0.0f64).to_bits())] {
        let c = base_server();
        v.push(json!({"kind": "server", "slot": format!("f64:{}", name), "cfg": c,
            "f64_bits": {"min_sampling_interval": format!("{:016x}", bits), "min_publishing_interval": format!("{:016x}", bits)}}));
    }
    v
}

// ---------------------------------------------------------------- workload

pub struct W {
    dir: PathBuf,
}

enum Built {
    Server(ServerConfig),
    Client(ClientConfig),
}

fn gs(v: &Value, k: &str) -> Result<String, String> {
    v[k].as_str().map(|s| s.to_string()).ok_or_else(|| format!("{}: string expected", k))
}
fn gos(v: &Value, k: &str) -> Result<Option<String>, String> {
    match v.get(k) {
        None | Some(Value::Null) => Ok(None),
        Some(Value::String(s)) => Ok(Some(s.clone())),
        _ => Err(format!("{}: string or null expected", k)),
    }
}
fn gb(v: &Value, k: &str) -> Result<bool, String> {
    v[k].as_bool().ok_or_else(|| format!("{}: bool expected", k))
}
fn gu(v: &Value, k: &str) -> Result<u64, String> {
    v[k].as_u64().ok_or_else(|| format!("{}: unsigned expected", k))
}
fn gf(v: &Value, k: &str) -> Result<f64, String> {
    v[k].as_f64().ok_or_else(|| format!("{}: number expected", k))
}
fn gstrs(v: &Value, k: &str) -> Result<Vec<String>, String> {
    v[k].as_array()
        .ok_or_else(|| format!("{}: array expected", k))?
        .iter()
        .map(|x| x.as_str().map(|s| s.to_string()).ok_or_else(|| format!("{}: strings expected", k)))
        .collect()
}
fn gdur(v: &Value, k: &str) -> Result<std::time::Duration, String> {
    let secs = gu(&v[k], "secs")?;
    let nanos = gu(&v[k], "nanos")?;
    if nanos >= 1_000_000_000 {
        return Err("nanos out of range".into());
    }
    Ok(std::time::Duration::new(secs, nanos as u32))
}
fn narrow<T: TryFrom<u64>>(x: u64, k: &str) -> Result<T, String> {
    T::try_from(x).map_err(|_| format!("{}: out of range", k))
}

/// The description is turned into the struct field by field (not through the struct's own serde
/// derive: a field that serde forgets must differ after the round trip)
fn build_server(c: &Value) -> Result<ServerConfig, String> {
    use opcua::server::config::*;
    let l = &c["limits"];
    let mut user_tokens = std::collections::BTreeMap::new();
    for (id, t) in c["user_tokens"].as_object().ok_or("user_tokens: map expected")? {
        user_tokens.insert(id.clone(), ServerUserToken { user: gs(t, "user")?, pass: gos(t, "pass")?, x509: gos(t, "x509")?, thumbprint: None });
    }
    let mut endpoints = std::collections::BTreeMap::new();
    for (id, e) in c["endpoints"].as_object().ok_or("endpoints: map expected")? {
        endpoints.insert(
            id.clone(),
            ServerEndpoint {
                path: gs(e, "path")?,
                security_policy: gs(e, "security_policy")?,
                security_mode: gs(e, "security_mode")?,
                security_level: narrow(gu(e, "security_level")?, "security_level")?,
                password_security_policy: gos(e, "password_security_policy")?,
                user_token_ids: gstrs(e, "user_token_ids")?.into_iter().collect(),
            },
        );
    }
    Ok(ServerConfig {
        application_name: gs(c, "application_name")?,
        application_uri: gs(c, "application_uri")?,
        product_uri: gs(c, "product_uri")?,
        create_sample_keypair: gb(c, "create_sample_keypair")?,
        certificate_path: gos(c, "certificate_path")?.map(PathBuf::from),
        private_key_path: gos(c, "private_key_path")?.map(PathBuf::from),
        certificate_validation: CertificateValidation {
            trust_client_certs: gb(&c["certificate_validation"], "trust_client_certs")?,
            check_time: gb(&c["certificate_validation"], "check_time")?,
        },
        pki_dir: PathBuf::from(gs(c, "pki_dir")?),
        discovery_server_url: gos(c, "discovery_server_url")?,
        tcp_config: TcpConfig {
            hello_timeout: narrow(gu(&c["tcp_config"], "hello_timeout")?, "hello_timeout")?,
            host: gs(&c["tcp_config"], "host")?,
            port: narrow(gu(&c["tcp_config"], "port")?, "port")?,
        },
        limits: Limits {
            clients_can_modify_address_space: gb(l, "clients_can_modify_address_space")?,
            max_subscriptions: narrow(gu(l, "max_subscriptions")?, "usize")?,
            max_monitored_items_per_sub: narrow(gu(l, "max_monitored_items_per_sub")?, "usize")?,
            max_monitored_item_queue_size: narrow(gu(l, "max_monitored_item_queue_size")?, "usize")?,
            max_array_length: narrow(gu(l, "max_array_length")?, "usize")?,
            max_string_length: narrow(gu(l, "max_string_length")?, "usize")?,
            max_byte_string_length: narrow(gu(l, "max_byte_string_length")?, "usize")?,
            min_sampling_interval: gf(l, "min_sampling_interval")?,
            min_publishing_interval: gf(l, "min_publishing_interval")?,
            max_message_size: narrow(gu(l, "max_message_size")?, "usize")?,
            max_chunk_count: narrow(gu(l, "max_chunk_count")?, "usize")?,
            send_buffer_size: narrow(gu(l, "send_buffer_size")?, "usize")?,
            receive_buffer_size: narrow(gu(l, "receive_buffer_size")?, "usize")?,
        },
        performance: Performance { single_threaded_executor: gb(&c["performance"], "single_threaded_executor")? },
        locale_ids: gstrs(c, "locale_ids")?,
        user_tokens,
        discovery_urls: gstrs(c, "discovery_urls")?,
        default_endpoint: gos(c, "default_endpoint")?,
        endpoints,
    })
}

fn build_client(c: &Value) -> Result<ClientConfig, String> {
    use opcua::client::{ClientBuilder, ClientEndpoint, ClientUserToken};
    let d = &c["decoding_options"];
    let p = &c["performance"];
    let limit = c["session_retry_limit"].as_i64().ok_or("session_retry_limit: integer expected")?;
    if limit < -1 || limit > i32::MAX as i64 {
        return Err("session_retry_limit out of range".into());
    }
    let mut b = ClientBuilder::new()
        .application_name(gs(c, "application_name")?)
        .application_uri(gs(c, "application_uri")?)
        .product_uri(gs(c, "product_uri")?)
        .create_sample_keypair(gb(c, "create_sample_keypair")?)
        .trust_server_certs(gb(c, "trust_server_certs")?)
        .verify_server_certs(gb(c, "verify_server_certs")?)
        .pki_dir(gs(c, "pki_dir")?)
        .preferred_locales(gstrs(c, "preferred_locales")?)
        .default_endpoint(gs(c, "default_endpoint")?)
        .max_message_size(narrow(gu(d, "max_message_size")?, "usize")?)
        .max_chunk_count(narrow(gu(d, "max_chunk_count")?, "usize")?)
        .max_chunk_size(narrow(gu(d, "max_chunk_size")?, "usize")?)
        .max_incoming_chunk_size(narrow(gu(d, "max_incoming_chunk_size")?, "usize")?)
        .max_string_length(narrow(gu(d, "max_string_length")?, "usize")?)
        .max_byte_string_length(narrow(gu(d, "max_byte_string_length")?, "usize")?)
        .max_array_length(narrow(gu(d, "max_array_length")?, "usize")?)
        .session_retry_limit(limit as i32)
        .session_retry_initial(gdur(c, "session_retry_initial")?)
        .session_retry_max(gdur(c, "session_retry_max")?)
        .keep_alive_interval(gdur(c, "keep_alive_interval")?)
        .request_timeout(gdur(c, "request_timeout")?)
        .publish_timeout(gdur(c, "publish_timeout")?)
        .min_publish_interval(gdur(c, "min_publish_interval")?)
        .max_inflight_publish(narrow(gu(c, "max_inflight_publish")?, "usize")?)
        .session_timeout(narrow(gu(c, "session_timeout")?, "u32")?)
        .recreate_monitored_items_chunk(narrow(gu(p, "recreate_monitored_items_chunk")?, "usize")?)
        .max_inflight_messages(narrow(gu(p, "max_inflight_messages")?, "usize")?)
        .session_name(gs(c, "session_name")?);
    if let Some(x) = gos(c, "certificate_path")? {
        b = b.certificate_path(x);
    }
    if let Some(x) = gos(c, "private_key_path")? {
        b = b.private_key_path(x);
    }
    if gb(p, "ignore_clock_skew")? {
        b = b.ignore_clock_skew();
    }
    for (id, t) in c["user_tokens"].as_object().ok_or("user_tokens: map expected")? {
        if id == "ANONYMOUS" {
            return Err("reserved token id".into());
        }
        b = b.user_token(
            id.clone(),
            ClientUserToken { user: gs(t, "user")?, password: gos(t, "password")?, cert_path: gos(t, "cert_path")?, private_key_path: gos(t, "private_key_path")? },
        );
    }
    for (id, e) in c["endpoints"].as_object().ok_or("endpoints: map expected")? {
        b = b.endpoint(
            id.clone(),
            ClientEndpoint { url: gs(e, "url")?, security_policy: gs(e, "security_policy")?, security_mode: gs(e, "security_mode")?, user_token_id: gs(e, "user_token_id")? },
        );
    }
    Ok(b.config())
}

fn build(case: &Value) -> Result<Built, String> {
    let cfg = &case["cfg"];
    match case["kind"].as_str() {
        Some("server") => {
            let mut c = build_server(cfg)?;
            if let Some(b) = case.get("f64_bits") {
                if let Some(x) = b["min_sampling_interval"].as_str().and_then(|x| u64::from_str_radix(x, 16).ok()) {
                    c.limits.min_sampling_interval = f64::from_bits(x);
                }
                if let Some(x) = b["min_publishing_interval"].as_str().and_then(|x| u64::from_str_radix(x, 16).ok()) {
                    c.limits.min_publishing_interval = f64::from_bits(x);
                }
            }
            Ok(Built::Server(c))
        }
        Some("client") => Ok(Built::Client(build_client(cfg)?)),
        _ => Err("unknown kind".into()),
    }
}

const CONTAINERS: [&str; 12] = [
    "ServerConfig",
    "ClientConfig",
    "ServerEndpoint",
    "ClientEndpoint",
    "ServerUserToken",
    "ClientUserToken",
    "Limits",
    "TcpConfig",
    "DecodingOptions",
    "Performance",
    "CertificateValidation",
    "Duration",
];

fn special_class(s: &str) -> String {
    let mut f = Vec::new();
    if s.is_empty() {
        return "empty".into();
    }
    if s.contains('\n') {
        f.push("lf");
    }
    if s.contains('\r') {
        f.push("cr");
    }
    if s.contains('\t') {
        f.push("tab");
    }
    if s.starts_with(' ') || s.ends_with(' ') {
        f.push("edge-space");
    }
    if s.chars().any(|c| (c.is_control() && !"\n\r\t".contains(c)) || "\u{85}\u{2028}\u{2029}\u{feff}\u{fffe}\u{ffff}".contains(c)) {
        f.push("ctl");
    }
    if s.chars().any(|c| ":#-'\"{}[],&*!|>%@`?=~\\".contains(c)) {
        f.push("ind");
    }
    if !s.is_ascii() {
        f.push("uni");
    }
    if s.len() > 80 {
        f.push("long");
    }
    if ["null", "~", "true", "false", "yes", "no", "on", "off", "y", "n"].contains(&s.to_lowercase().as_str()) || s.parse::<f64>().is_ok() {
        f.push("scalar-like");
    }
    if f.is_empty() {
        "plain".into()
    } else {
        f.join("+")
    }
}

/// (pointer with map keys abstracted, string) for every string in the document, keys included
fn strings_of(v: &Value, ptr: &str, out: &mut Vec<(String, String)>) {
    match v {
        Value::String(s) => out.push((ptr.to_string(), s.clone())),
        Value::Array(a) => {
            for x in a {
                strings_of(x, &format!("{}[]", ptr), out);
            }
        }
        Value::Object(m) => {
            let is_map = ptr.ends_with("user_tokens") || ptr.ends_with("endpoints");
            for (k, x) in m {
                if is_map {
                    out.push((format!("{}.<key>", ptr), k.clone()));
                    strings_of(x, &format!("{}.*", ptr), out);
                } else {
                    strings_of(x, &format!("{}.{}", ptr, k), out);
                }
            }
        }
        _ => {}
    }
}

fn case_class(case: &Value) -> String {
    let mut strs = Vec::new();
    strings_of(&case["cfg"], "", &mut strs);
    let mut classes: Vec<String> = strs.iter().map(|(_, s)| special_class(s)).filter(|c| c != "plain").collect();
    classes.sort();
    classes.dedup();
    if classes.len() > 3 {
        classes.truncate(3);
        classes.push("..".into());
    }
    let n_ep = case["cfg"]["endpoints"].as_object().map(|m| m.len()).unwrap_or(0);
    let n_tok = case["cfg"]["user_tokens"].as_object().map(|m| m.len()).unwrap_or(0);
    let slot = case["slot"].as_str().map(|s| format!(" slot:{}", s)).unwrap_or_default();
    format!("{}{} ep{} tok{} [{}]", case["kind"].as_str().unwrap_or("?"), slot, n_ep.min(3), n_tok.min(3), classes.join(","))
}

impl W {
    fn check<T>(&self, cfg: &T, class: String, kind: &str) -> Eval
    where
        T: Config + PartialEq + std::fmt::Debug + for<'de> serde::Deserialize<'de>,
    {
        if !cfg.is_valid() {
            return Eval::ok(format!("{} (not valid: skipped)", kind)).with("generated_invalid", 1);
        }
        let path = self.dir.join(format!("{}.yaml", kind));
        let _ = std::fs::remove_file(&path);
        match catch(|| cfg.save(&path)) {
            Err(p) => {
                return Eval::fail(class, format!("yaml|{}|save-panic|{}", kind, panic_sig(&p)), format!("Config::save panicked: {} at {}:{}", p.msg, p.file, p.line))
            }
            Ok(Err(())) => return Eval::fail(class, format!("yaml|{}|save-failed", kind), "Config::save returned Err for a valid configuration"),
            Ok(Ok(())) => {}
        }
        let text = std::fs::read_to_string(&path).unwrap_or_default();
        let excerpt = |needle: &str| -> String {
            // the lines of the file around the first line mentioning the field
            let lines: Vec<&str> = text.lines().collect();
            let i = lines.iter().position(|l| l.contains(needle)).unwrap_or(0);
            lines[i..(i + 4).min(lines.len())].join("\\n")
        };
        let loaded: Result<T, ()> = match catch(|| T::load::<T>(&path)) {
            Err(p) => {
                return Eval::fail(class, format!("yaml|{}|load-panic|{}", kind, panic_sig(&p)), format!("Config::load panicked: {} at {}:{}", p.msg, p.file, p.line))
                    .with("files_written", 1)
            }
            Ok(r) => r,
        };
        let loaded = match loaded {
            Err(()) => {
                let why = serde_yaml::from_str::<T>(&text).err().map(|e| e.to_string()).unwrap_or_else(|| "?".into());
                return Eval::fail(
                    class,
                    format!("yaml|{}|own-file-rejected", kind),
                    format!("the file written by Config::save is rejected by Config::load: {}; file starts: {:?}", why, text.chars().take(300).collect::<String>()),
                )
                .with("files_written", 1);
            }
            Ok(l) => l,
        };
        if loaded != *cfg {
            let d = first_diff(&format!("{:#?}", cfg), &format!("{:#?}", loaded), &CONTAINERS);
            let field = d.path.rsplit('/').next().unwrap_or("").split(':').next().unwrap_or("").to_string();
            return Eval::fail(
                class,
                format!("yaml|{}|loads-different", kind),
                format!("at {}: {} was loaded back as {}; file: {:?}", d.path, d.raw_a, d.raw_b, excerpt(&field)),
            )
            .feat(format!("{}: {} => {}", d.path, d.a, d.b))
            .with("files_written", 1);
        }
        if !loaded.is_valid() {
            return Eval::fail(class, format!("yaml|{}|loaded-not-valid", kind), "the loaded configuration equals the original but is_valid() is false").with("files_written", 1);
        }
        Eval::ok(class).with("files_written", 1).with("loaded_equal_and_valid", 1).with("yaml_bytes", text.len() as u64)
    }
}

fn replace_everywhere(v: &Value, from: &str, to: &str) -> Value {
    match v {
        Value::String(s) if s == from => Value::String(to.to_string()),
        Value::Array(a) => Value::Array(a.iter().map(|x| replace_everywhere(x, from, to)).collect()),
        Value::Object(m) => {
            let mut out = Map::new();
            for (k, x) in m {
                let k2 = if k == from && !FIELD_NAMES.contains(&k.as_str()) { to.to_string() } else { k.clone() };
                out.insert(k2, replace_everywhere(x, from, to));
            }
            Value::Object(out)
        }
        other => other.clone(),
    }
}

/// field names of the serde shape: never renamed by the shrinker
const FIELD_NAMES: &[&str] = &["user", "pass", "x509", "password", "cert_path", "private_key_path", "path", "url", "security_policy", "security_mode", "security_level", "password_security_policy", "user_token_ids", "user_token_id"];

fn structural_shrinks(v: &Value, base: &Value) -> Vec<Value> {
    // one candidate per removable / resettable part, produced by walking the document
    fn walk(v: &Value, base: Option<&Value>, path: &mut Vec<String>, out: &mut Vec<(Vec<String>, Value)>) {
        match v {
            Value::Object(m) => {
                for (k, x) in m {
                    path.push(k.clone());
                    let b = base.and_then(|b| b.get(k));
                    // replace a whole sub-tree by the base's
                    if let Some(b) = b {
                        if b != x {
                            out.push((path.clone(), b.clone()));
                        }
                    } else if base.is_some() {
                        // an entry the base does not have (map entry): drop it
                        out.push((path.clone(), Value::Null));
                    }
                    walk(x, b, path, out);
                    path.pop();
                }
            }
            Value::Array(a) => {
                if !a.is_empty() {
                    for i in 0..a.len() {
                        let mut c = a.clone();
                        c.remove(i);
                        out.push((path.clone(), Value::Array(c)));
                    }
                }
            }
            _ => {}
        }
    }
    let mut cands = Vec::new();
    walk(v, Some(base), &mut Vec::new(), &mut cands);
    let mut out = Vec::new();
    for (path, newv) in cands {
        let mut doc = v.clone();
        // navigate
        let mut cur = &mut doc;
        let mut ok = true;
        for (i, k) in path.iter().enumerate() {
            if i + 1 == path.len() {
                if let Some(m) = cur.as_object_mut() {
                    let in_base = {
                        let mut b = Some(base);
                        for kk in &path {
                            b = b.and_then(|x| x.get(kk));
                        }
                        b.is_some()
                    };
                    if newv.is_null() && !in_base {
                        m.remove(k);
                    } else {
                        m.insert(k.clone(), newv.clone());
                    }
                } else {
                    ok = false;
                }
            } else {
                match cur.get_mut(k) {
                    Some(n) => cur = n,
                    None => {
                        ok = false;
                        break;
                    }
                }
            }
        }
        if path.is_empty() {
            ok = false;
        }
        if ok {
            out.push(doc);
        }
    }
    out
}

impl Workload for W {
    fn eval(&self, case: &Value) -> Eval {
        let class = case_class(case);
        match build(case) {
            Err(e) => Eval::ok(format!("description not usable: {}", normalize_msg(&e))).with("generated_invalid", 1),
            Ok(Built::Server(c)) => self.check(&c, class, "server"),
            Ok(Built::Client(c)) => self.check(&c, class, "client"),
        }
    }

    fn shrinks(&self, case: &Value) -> Vec<Value> {
        let mut out = Vec::new();
        let base = if case["kind"] == "server" { base_server() } else { base_client() };
        let wrap = |cfg: Value| {
            let mut c = case.clone();
            c["cfg"] = cfg;
            if let Some(m) = c.as_object_mut() {
                m.remove("slot");
            }
            c
        };
        if case["cfg"] != base && case.get("f64_bits").is_some() {
            out.push(wrap(base.clone()));
        }
        if case.get("f64_bits").is_some() {
            let mut c = case.clone();
            c.as_object_mut().unwrap().remove("f64_bits");
            out.push(c);
        }
        for c in structural_shrinks(&case["cfg"], &base) {
            out.push(wrap(c));
        }
        // every distinct string, replaced consistently everywhere it occurs
        let mut strs = Vec::new();
        strings_of(&case["cfg"], "", &mut strs);
        let mut distinct: Vec<String> = strs.into_iter().map(|(_, s)| s).collect();
        distinct.sort();
        distinct.dedup();
        let fixed: Vec<String> = ["None", "Sign", "SignAndEncrypt", "ANONYMOUS", "a"].iter().map(|s| s.to_string()).collect();
        for s in &distinct {
            if fixed.contains(s) || SecurityPolicy::from_str_name(s) {
                continue;
            }
            for t in shrink_string(s) {
                out.push(wrap(replace_everywhere(&case["cfg"], s, &t)));
            }
        }
        out
    }

    fn shrink_key(&self, _case: &Value, fail: &Fail) -> Option<String> {
        // the field that differs (or nothing): a handful of witnesses per field is enough
        Some(fail.feat.clone())
    }

    fn features(&self, case: &Value, fail: &Fail) -> String {
        // which strings of the minimal witness are not the base's, and where they sit
        let mut strs = Vec::new();
        strings_of(&case["cfg"], "", &mut strs);
        let fixed = ["None", "Sign", "SignAndEncrypt", "ANONYMOUS", "a", ""];
        let mut parts: Vec<String> =
            strs.iter().filter(|(_, s)| !fixed.contains(&s.as_str()) && !SecurityPolicy::from_str_name(s)).map(|(_, s)| lit(s)).collect();
        parts.sort();
        parts.dedup();
        parts.truncate(3);
        let mut f = Vec::new();
        if !fail.feat.is_empty() {
            f.push(fail.feat.clone());
        }
        if !parts.is_empty() {
            f.push(format!("strings {}", parts.join(",")));
        }
        if case.get("f64_bits").is_some() {
            f.push(format!("f64 bits {}", case["f64_bits"]["min_sampling_interval"].as_str().unwrap_or("?")));
        }
        if f.is_empty() {
            "-".into()
        } else {
            f.join("|")
        }
    }
}

trait PolicyName {
    fn from_str_name(s: &str) -> bool;
}
impl PolicyName for SecurityPolicy {
    fn from_str_name(s: &str) -> bool {
        use std::str::FromStr;
        SecurityPolicy::from_str(s).map(|p| p != SecurityPolicy::Unknown).unwrap_or(false)
    }
}

pub fn c41(args: &Args, rep: &mut Report) {
    rep.max_violations = 120;
    let dir = pki::scratch_dir(&format!("c41_{}_{}", args.tier, args.shard));
    let w = W { dir: dir.clone() };
    let mut cases: Vec<Value> = Vec::new();
    if args.replay.is_none() {
        for (idx, c) in grid_cases().into_iter().enumerate() {
            if idx % args.shards == args.shard {
                cases.push(c);
            }
        }
        rep.count("grid_cases", cases.len() as u64);
    }
    let mut rng = Rng::new(args.seed ^ 0xC41 ^ ((args.shard as u64) << 32));
    let mut left = if args.replay.is_some() { 0 } else { args.budget(24_000, 1_600_000) };
    let random = std::iter::from_fn(move || {
        if left == 0 {
            return None;
        }
        left -= 1;
        Some(if rng.bool() { json!({"kind": "server", "cfg": gen_server(&mut rng)}) } else { json!({"kind": "client", "cfg": gen_client(&mut rng)}) })
    });
    run_all(&w, args, rep, &mut cases.into_iter().chain(random));
    let _ = std::fs::remove_dir_all(&dir);
}
