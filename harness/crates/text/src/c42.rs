//! C42: serialising any built-in value to JSON and deserialising it yields an equal value, with null and
//! empty kept distinct where the type distinguishes them.
//!
//! Every value goes through the real serde impls twice: `to_value` / `from_value` and `to_string` /
//! `from_str`. DateTimes are generated at millisecond precision and NodeId identifiers non-empty, as
//! the property's quantifier states; NaN is compared as equal to NaN (Part 6 encodes every NaN as the
//! string "NaN", payloads cannot be told apart).
use crate::common::*;
use crate::p_text::*;
use opcua::types::*;
use serde::{de::DeserializeOwned, Serialize};
use serde_json::{json, Value};
use std::fmt::Debug;

pub const TOP_TYPES: [&str; 11] =
    ["UAString", "ByteString", "Guid", "DateTime", "NodeId", "ExpandedNodeId", "StatusCode", "LocalizedText", "QualifiedName", "DataValue", "Variant"];

#[derive(Debug, Clone)]
enum BV {
    S(UAString),
    B(ByteString),
    G(Guid),
    Dt(DateTime),
    N(NodeId),
    E(ExpandedNodeId),
    Sc(StatusCode),
    Lt(LocalizedText),
    Q(QualifiedName),
    Dv(DataValue),
    V(Variant),
}

// ---------------------------------------------------------------- generators

const STRS: &[&str] = &[
    "",
    "a",
    "Hello world",
    "\"quoted\" \\ back/slash",
    "line\nbreak\r\ttab",
    "\u{0}",
    "\u{1}\u{1f}\u{7f}",
    "é",
    "日本語",
    "😀",
    "\u{d7ff}\u{e000}\u{fffd}\u{ffff}\u{10ffff}",
    "\u{feff}bom",
    "\u{2028}\u{2029}",
    "null",
    "NaN",
    "Infinity",
    "{\"Type\":1}",
    "1",
    " ",
];

fn string(rng: &mut Rng) -> String {
    match rng.below(5) {
        0 | 1 => (*rng.pick(STRS)).to_string(),
        2 => {
            let n = rng.usize(12);
            (0..n).map(|_| (0x20 + rng.below(0x5f) as u8) as char).collect()
        }
        3 => {
            let n = rng.usize(8);
            (0..n)
                .map(|_| loop {
                    let c = match rng.below(4) {
                        0 => rng.below(0x80) as u32,
                        1 => rng.below(0x800) as u32,
                        2 => rng.below(0x10000) as u32,
                        _ => rng.below(0x110000) as u32,
                    };
                    if let Some(c) = char::from_u32(c) {
                        break c;
                    }
                })
                .collect()
        }
        _ => {
            let n = 1 + rng.usize(6);
            (0..n).map(|_| (b'a' + rng.below(26) as u8) as char).collect()
        }
    }
}

fn non_empty(rng: &mut Rng) -> String {
    loop {
        let s = string(rng);
        if !s.is_empty() {
            return s;
        }
    }
}

fn ua_string(rng: &mut Rng) -> UAString {
    match rng.below(6) {
        0 => UAString::null(),
        1 => UAString::from(""),
        _ => UAString::from(string(rng)),
    }
}

fn byte_string(rng: &mut Rng) -> ByteString {
    match rng.below(8) {
        0 => ByteString::null(),
        1 => ByteString::from(Vec::<u8>::new()),
        2 => ByteString::from(vec![0u8; 1 + rng.usize(5)]),
        3 => ByteString::from(vec![0xfb, 0xff, 0xfe]),
        _ => {
            let n = rng.usize(24);
            ByteString::from(rng.bytes(n))
        }
    }
}

fn guid(rng: &mut Rng) -> Guid {
    crate::gen::guid(rng)
}

/// Millisecond precision, inside [epoch, endtimes]
fn date_time(rng: &mut Rng) -> DateTime {
    let end_ms = DateTime::endtimes_ticks() / 10_000;
    let ms = match rng.below(8) {
        0 => 0,
        1 => 1,
        2 => end_ms,
        3 => end_ms - 1,
        4 => 999,
        5 => 1000,
        6 => 13_222_310_400_123, // a date in 2020
        _ => rng.range(0, end_ms),
    };
    DateTime::from(ms * 10_000)
}

fn status_code(rng: &mut Rng) -> StatusCode {
    crate::gen::status_code(rng)
}

fn ns_index(rng: &mut Rng) -> u16 {
    crate::gen::ns_index(rng)
}

/// identifiers are non-empty as the property states
fn node_id(rng: &mut Rng) -> NodeId {
    let ns = ns_index(rng);
    match rng.below(7) {
        0 => NodeId::new(ns, *rng.pick(&[0u32, 1, 255, 256, 65535, 65536, u32::MAX])),
        1 | 2 => NodeId::new(ns, rng.next_u32()),
        3 => NodeId::new(ns, UAString::from(non_empty(rng))),
        4 => NodeId::new(ns, guid(rng)),
        5 => {
            let n = 1 + rng.usize(16);
            NodeId::new(ns, ByteString::from(rng.bytes(n)))
        }
        _ => NodeId::new(0, rng.below(20000) as u32),
    }
}

fn expanded_node_id(rng: &mut Rng) -> ExpandedNodeId {
    let with_uri = rng.chance(1, 3);
    let mut n = node_id(rng);
    if with_uri {
        // Part 6: the Namespace field carries either the index or the URI
        n.namespace = 0;
    }
    ExpandedNodeId {
        node_id: n,
        namespace_uri: if with_uri { UAString::from(non_empty(rng)) } else { UAString::null() },
        server_index: match rng.below(4) {
            0 | 1 => 0,
            2 => *rng.pick(&[1u32, u32::MAX]),
            _ => rng.next_u32(),
        },
    }
}

fn qualified_name(rng: &mut Rng) -> QualifiedName {
    QualifiedName { namespace_index: ns_index(rng), name: ua_string(rng) }
}

fn localized_text(rng: &mut Rng) -> LocalizedText {
    LocalizedText {
        locale: match rng.below(4) {
            0 => UAString::null(),
            1 => UAString::from(""),
            _ => UAString::from(*rng.pick(&["en", "en-US", "de", "zh-Hans"])),
        },
        text: ua_string(rng),
    }
}

fn extension_object(rng: &mut Rng) -> ExtensionObject {
    ExtensionObject {
        node_id: node_id(rng),
        body: match rng.below(4) {
            0 => ExtensionObjectEncoding::None,
            1 => ExtensionObjectEncoding::XmlElement(ua_string(rng)),
            _ => ExtensionObjectEncoding::ByteString(byte_string(rng)),
        },
    }
}

fn diagnostic_info(rng: &mut Rng, depth: u32) -> DiagnosticInfo {
    let oi = |rng: &mut Rng| if rng.bool() { Some(rng.next_u32() as i32) } else { None };
    DiagnosticInfo {
        symbolic_id: oi(rng),
        namespace_uri: oi(rng),
        locale: oi(rng),
        localized_text: oi(rng),
        // Some(null string) and None are one and the same thing in JSON, so it is not generated
        additional_info: if rng.bool() { Some(UAString::from(string(rng))) } else { None },
        inner_status_code: if rng.bool() { Some(status_code(rng)) } else { None },
        inner_diagnostic_info: if depth > 0 && rng.chance(1, 3) { Some(Box::new(diagnostic_info(rng, depth - 1))) } else { None },
    }
}

fn data_value(rng: &mut Rng, depth: u32) -> DataValue {
    let source_timestamp = if rng.bool() { Some(date_time(rng)) } else { None };
    let server_timestamp = if rng.bool() { Some(date_time(rng)) } else { None };
    DataValue {
        value: if rng.chance(3, 4) { Some(variant(rng, depth)) } else { None },
        status: if rng.bool() { Some(status_code(rng)) } else { None },
        source_picoseconds: if source_timestamp.is_some() && rng.bool() { Some(rng.next_u32() as u16) } else { None },
        source_timestamp,
        server_picoseconds: if server_timestamp.is_some() && rng.bool() { Some(rng.next_u32() as u16) } else { None },
        server_timestamp,
    }
}

const SCALARS: &[VariantTypeId] = &[
    VariantTypeId::Boolean,
    VariantTypeId::SByte,
    VariantTypeId::Byte,
    VariantTypeId::Int16,
    VariantTypeId::UInt16,
    VariantTypeId::Int32,
    VariantTypeId::UInt32,
    VariantTypeId::Int64,
    VariantTypeId::UInt64,
    VariantTypeId::Float,
    VariantTypeId::Double,
    VariantTypeId::String,
    VariantTypeId::DateTime,
    VariantTypeId::Guid,
    VariantTypeId::StatusCode,
    VariantTypeId::ByteString,
    VariantTypeId::XmlElement,
    VariantTypeId::QualifiedName,
    VariantTypeId::LocalizedText,
    VariantTypeId::NodeId,
    VariantTypeId::ExpandedNodeId,
    VariantTypeId::ExtensionObject,
    VariantTypeId::Variant,
    VariantTypeId::DataValue,
    VariantTypeId::DiagnosticInfo,
];

fn scalar_of(rng: &mut Rng, t: VariantTypeId, depth: u32) -> Variant {
    use crate::gen as g;
    match t {
        VariantTypeId::Boolean => Variant::Boolean(rng.bool()),
        VariantTypeId::SByte => Variant::SByte(g::i8_i(rng)),
        VariantTypeId::Byte => Variant::Byte(g::u8_i(rng)),
        VariantTypeId::Int16 => Variant::Int16(g::i16_i(rng)),
        VariantTypeId::UInt16 => Variant::UInt16(g::u16_i(rng)),
        VariantTypeId::Int32 => Variant::Int32(g::i32_i(rng)),
        VariantTypeId::UInt32 => Variant::UInt32(g::u32_i(rng)),
        VariantTypeId::Int64 => Variant::Int64(g::i64_i(rng)),
        VariantTypeId::UInt64 => Variant::UInt64(g::u64_i(rng)),
        VariantTypeId::Float => Variant::Float(g::f32_interesting(rng)),
        VariantTypeId::Double => Variant::Double(g::f64_interesting(rng)),
        VariantTypeId::String => Variant::String(ua_string(rng)),
        VariantTypeId::DateTime => Variant::DateTime(Box::new(date_time(rng))),
        VariantTypeId::Guid => Variant::Guid(Box::new(guid(rng))),
        VariantTypeId::StatusCode => Variant::StatusCode(status_code(rng)),
        VariantTypeId::ByteString => Variant::ByteString(byte_string(rng)),
        VariantTypeId::XmlElement => Variant::XmlElement(ua_string(rng)),
        VariantTypeId::QualifiedName => Variant::QualifiedName(Box::new(qualified_name(rng))),
        VariantTypeId::LocalizedText => Variant::LocalizedText(Box::new(localized_text(rng))),
        VariantTypeId::NodeId => Variant::NodeId(Box::new(node_id(rng))),
        VariantTypeId::ExpandedNodeId => Variant::ExpandedNodeId(Box::new(expanded_node_id(rng))),
        VariantTypeId::ExtensionObject => Variant::ExtensionObject(Box::new(extension_object(rng))),
        VariantTypeId::Variant => {
            if depth == 0 {
                Variant::Variant(Box::new(Variant::Int32(rng.next_u32() as i32)))
            } else {
                Variant::Variant(Box::new(variant(rng, depth - 1)))
            }
        }
        VariantTypeId::DataValue => Variant::DataValue(Box::new(data_value(rng, depth.saturating_sub(1)))),
        VariantTypeId::DiagnosticInfo => Variant::DiagnosticInfo(Box::new(diagnostic_info(rng, 2))),
        _ => Variant::Empty,
    }
}

fn variant(rng: &mut Rng, depth: u32) -> Variant {
    let t = if depth == 0 { *rng.pick(&SCALARS[..21]) } else { *rng.pick(SCALARS) };
    match rng.below(20) {
        0 => Variant::Empty,
        1 => {
            let n = rng.usize(4);
            let values: Vec<Variant> = (0..n).map(|_| scalar_of(rng, t, 0)).collect();
            Variant::Array(Box::new(Array { value_type: t, values, dimensions: None }))
        }
        2 => {
            let dims = vec![1 + rng.below(2) as u32, 1 + rng.below(2) as u32];
            let n = (dims[0] * dims[1]) as usize;
            let values: Vec<Variant> = (0..n).map(|_| scalar_of(rng, t, 0)).collect();
            Variant::Array(Box::new(Array { value_type: t, values, dimensions: Some(dims) }))
        }
        _ => scalar_of(rng, t, depth),
    }
}

fn gen_value(t: &str, rng: &mut Rng) -> Option<BV> {
    Some(match t {
        "UAString" => BV::S(ua_string(rng)),
        "ByteString" => BV::B(byte_string(rng)),
        "Guid" => BV::G(guid(rng)),
        "DateTime" => BV::Dt(date_time(rng)),
        "NodeId" => BV::N(node_id(rng)),
        "ExpandedNodeId" => BV::E(expanded_node_id(rng)),
        "StatusCode" => BV::Sc(status_code(rng)),
        "LocalizedText" => BV::Lt(localized_text(rng)),
        "QualifiedName" => BV::Q(qualified_name(rng)),
        "DataValue" => BV::Dv(data_value(rng, 2)),
        "Variant" => BV::V(variant(rng, 3)),
        _ => return None,
    })
}

/// Fixed simple values per type: the null / empty pairs and the extremes
fn grid(t: &str) -> Vec<BV> {
    let nid = |ns: u16, i: u32| NodeId::new(ns, i);
    let exp = |n: NodeId, uri: Option<&str>, svr: u32| ExpandedNodeId {
        node_id: n,
        namespace_uri: uri.map(UAString::from).unwrap_or_else(UAString::null),
        server_index: svr,
    };
    let end = DateTime::endtimes_ticks();
    match t {
        "UAString" => {
            let mut v = vec![BV::S(UAString::null())];
            v.extend(STRS.iter().map(|s| BV::S(UAString::from(*s))));
            v
        }
        "ByteString" => vec![
            BV::B(ByteString::null()),
            BV::B(ByteString::from(Vec::<u8>::new())),
            BV::B(ByteString::from(vec![0u8])),
            BV::B(ByteString::from(vec![0xffu8, 0xfe])),
            BV::B(ByteString::from(vec![0xfbu8, 0xff, 0xbf])),
            BV::B(ByteString::from((0..=255u8).collect::<Vec<u8>>())),
        ],
        "Guid" => vec![BV::G(Guid::null()), BV::G(Guid::from_bytes([0xff; 16])), BV::G(Guid::from_bytes([1, 2, 3, 4, 5, 6, 7, 8, 9, 10, 11, 12, 13, 14, 15, 16]))],
        "DateTime" => [0i64, 10_000, 9_990_000, 10_000_000, end, end - 10_000, end - 10_000_000, 132_223_104_001_230_000]
            .iter()
            .map(|t| BV::Dt(DateTime::from(*t)))
            .collect(),
        "NodeId" => vec![
            BV::N(NodeId::null()),
            BV::N(nid(0, 1)),
            BV::N(nid(0, u32::MAX)),
            BV::N(nid(1, 0)),
            BV::N(nid(65535, 65536)),
            BV::N(NodeId::new(0, UAString::from("a"))),
            BV::N(NodeId::new(2, UAString::from("Hello \"World\"\n"))),
            BV::N(NodeId::new(0, Guid::null())),
            BV::N(NodeId::new(3, Guid::from_bytes([0xab; 16]))),
            BV::N(NodeId::new(0, ByteString::from(vec![0u8]))),
            BV::N(NodeId::new(4, ByteString::from(vec![0xff, 0xfe, 0xfd, 0xfc]))),
        ],
        "ExpandedNodeId" => vec![
            BV::E(exp(nid(0, 1), None, 0)),
            BV::E(exp(nid(0, 1), None, 1)),
            BV::E(exp(nid(0, 1), None, u32::MAX)),
            BV::E(exp(nid(5, 1), None, 0)),
            BV::E(exp(nid(0, 1), Some("urn:x"), 0)),
            BV::E(exp(nid(0, 1), Some("urn:x"), 7)),
            BV::E(exp(NodeId::new(0, UAString::from("s")), Some("http://opcfoundation.org/UA/"), 0)),
            BV::E(exp(NodeId::new(7, UAString::from("s")), None, 9)),
            BV::E(exp(NodeId::new(0, Guid::null()), None, 0)),
            BV::E(exp(NodeId::new(1, ByteString::from(vec![1u8, 2, 3])), None, 0)),
        ],
        "StatusCode" => vec![
            BV::Sc(StatusCode::Good),
            BV::Sc(StatusCode::BadUnexpectedError),
            BV::Sc(StatusCode::UncertainLastUsableValue),
            BV::Sc(StatusCode::BadDecodingError | StatusCode::HISTORICAL_CALCULATED),
            BV::Sc(StatusCode::from_bits_truncate(u32::MAX)),
        ],
        "LocalizedText" => {
            let parts = [UAString::null(), UAString::from(""), UAString::from("x")];
            let mut v = Vec::new();
            for l in &parts {
                for t in &parts {
                    v.push(BV::Lt(LocalizedText { locale: l.clone(), text: t.clone() }));
                }
            }
            v
        }
        "QualifiedName" => {
            let mut v = Vec::new();
            for ns in [0u16, 1, 65535] {
                for n in [UAString::null(), UAString::from(""), UAString::from("x")] {
                    v.push(BV::Q(QualifiedName { namespace_index: ns, name: n }));
                }
            }
            v
        }
        "DataValue" => {
            let ts = DateTime::from(132_223_104_001_230_000);
            vec![
                BV::Dv(DataValue { value: None, status: None, source_timestamp: None, source_picoseconds: None, server_timestamp: None, server_picoseconds: None }),
                BV::Dv(DataValue { value: Some(Variant::Empty), status: None, source_timestamp: None, source_picoseconds: None, server_timestamp: None, server_picoseconds: None }),
                BV::Dv(DataValue { value: Some(Variant::Int32(5)), status: Some(StatusCode::Good), source_timestamp: None, source_picoseconds: None, server_timestamp: None, server_picoseconds: None }),
                BV::Dv(DataValue {
                    value: Some(Variant::Double(1.5)),
                    status: Some(StatusCode::BadUnexpectedError),
                    source_timestamp: Some(ts),
                    source_picoseconds: Some(0),
                    server_timestamp: Some(ts),
                    server_picoseconds: Some(65535),
                }),
                BV::Dv(DataValue { value: None, status: None, source_timestamp: Some(DateTime::from(0)), source_picoseconds: None, server_timestamp: Some(DateTime::from(end)), server_picoseconds: None }),
            ]
        }
        "Variant" => {
            let mut v = vec![
                Variant::Empty,
                Variant::Boolean(true),
                Variant::Boolean(false),
                Variant::SByte(i8::MIN),
                Variant::SByte(i8::MAX),
                Variant::Byte(0),
                Variant::Byte(255),
                Variant::Int16(i16::MIN),
                Variant::Int16(i16::MAX),
                Variant::UInt16(u16::MAX),
                Variant::Int32(i32::MIN),
                Variant::Int32(i32::MAX),
                Variant::UInt32(u32::MAX),
                Variant::Int64(i64::MIN),
                Variant::Int64(i64::MAX),
                Variant::Int64(9007199254740993),
                Variant::UInt64(0),
                Variant::UInt64(u64::MAX),
                Variant::Float(0.0),
                Variant::Float(-0.0),
                Variant::Float(0.1),
                Variant::Float(f32::MAX),
                Variant::Float(f32::MIN),
                Variant::Float(f32::MIN_POSITIVE),
                Variant::Float(f32::from_bits(1)),
                Variant::Float(f32::INFINITY),
                Variant::Float(f32::NEG_INFINITY),
                Variant::Float(f32::NAN),
                Variant::Float(16777217.0),
                Variant::Double(0.0),
                Variant::Double(0.1),
                Variant::Double(f64::MAX),
                Variant::Double(f64::MIN),
                Variant::Double(f64::MIN_POSITIVE),
                Variant::Double(f64::from_bits(1)),
                Variant::Double(f64::INFINITY),
                Variant::Double(f64::NEG_INFINITY),
                Variant::Double(f64::NAN),
                Variant::Double(1e300),
                Variant::Double(f32::MAX as f64 * 2.0),
                Variant::String(UAString::null()),
                Variant::String(UAString::from("")),
                Variant::String(UAString::from("x")),
                Variant::XmlElement(UAString::null()),
                Variant::XmlElement(UAString::from("")),
                Variant::XmlElement(UAString::from("<a/>")),
                Variant::ByteString(ByteString::null()),
                Variant::ByteString(ByteString::from(Vec::<u8>::new())),
                Variant::ByteString(ByteString::from(vec![1u8, 2, 3])),
                Variant::StatusCode(StatusCode::Good),
                Variant::StatusCode(StatusCode::BadUnexpectedError),
                Variant::Variant(Box::new(Variant::Empty)),
                Variant::Variant(Box::new(Variant::Variant(Box::new(Variant::Int32(1))))),
                Variant::ExtensionObject(Box::new(ExtensionObject::null())),
                Variant::DiagnosticInfo(Box::new(DiagnosticInfo::null())),
                Variant::Array(Box::new(Array { value_type: VariantTypeId::Int32, values: vec![Variant::Int32(1), Variant::Int32(2)], dimensions: None })),
                Variant::Array(Box::new(Array { value_type: VariantTypeId::Int32, values: vec![], dimensions: None })),
            ];
            for t in ["DateTime", "Guid", "NodeId", "ExpandedNodeId", "QualifiedName", "LocalizedText", "DataValue"] {
                for b in grid(t) {
                    v.push(match b {
                        BV::Dt(x) => Variant::DateTime(Box::new(x)),
                        BV::G(x) => Variant::Guid(Box::new(x)),
                        BV::N(x) => Variant::NodeId(Box::new(x)),
                        BV::E(x) => Variant::ExpandedNodeId(Box::new(x)),
                        BV::Q(x) => Variant::QualifiedName(Box::new(x)),
                        BV::Lt(x) => Variant::LocalizedText(Box::new(x)),
                        BV::Dv(x) => Variant::DataValue(Box::new(x)),
                        _ => Variant::Empty,
                    });
                }
            }
            v.into_iter().map(BV::V).collect()
        }
        _ => vec![],
    }
}

// ---------------------------------------------------------------- round trip

enum Out {
    Ok,
    SerPanic(PanicInfo),
    SerErr(String),
    DePanic(PanicInfo, String),
    DeErr(String, String),
    Mismatch(String, String, String),
}

fn dbg_pretty<T: Debug>(v: &T) -> String {
    format!("{:#?}", v)
}

fn equal<T: PartialEq + Debug>(a: &T, b: &T) -> bool {
    // NaN == NaN here: Debug prints every NaN the same way
    a == b || format!("{:?}", a) == format!("{:?}", b)
}

fn roundtrip<T: Serialize + DeserializeOwned + PartialEq + Debug>(v: &T) -> [Out; 2] {
    let via_value = match catch(|| serde_json::to_value(v)) {
        Err(p) => Out::SerPanic(p),
        Ok(Err(e)) => Out::SerErr(e.to_string()),
        Ok(Ok(j)) => {
            let text = j.to_string();
            match catch(|| serde_json::from_value::<T>(j)) {
                Err(p) => Out::DePanic(p, text),
                Ok(Err(e)) => Out::DeErr(e.to_string(), text),
                Ok(Ok(v2)) => {
                    if equal(v, &v2) {
                        Out::Ok
                    } else {
                        Out::Mismatch(dbg_pretty(v), dbg_pretty(&v2), text)
                    }
                }
            }
        }
    };
    let via_text = match catch(|| serde_json::to_string(v)) {
        Err(p) => Out::SerPanic(p),
        Ok(Err(e)) => Out::SerErr(e.to_string()),
        Ok(Ok(text)) => match catch(|| serde_json::from_str::<T>(&text)) {
            Err(p) => Out::DePanic(p, text),
            Ok(Err(e)) => Out::DeErr(e.to_string(), text),
            Ok(Ok(v2)) => {
                if equal(v, &v2) {
                    Out::Ok
                } else {
                    Out::Mismatch(dbg_pretty(v), dbg_pretty(&v2), text)
                }
            }
        },
    };
    [via_value, via_text]
}

fn norm_err(e: &str) -> String {
    let mut s = normalize_msg(e).replace("-#", "#");
    if let Some(i) = s.find(" at line") {
        s.truncate(i);
    }
    s.chars().take(70).collect()
}

fn shape(b: &BV) -> String {
    fn us(s: &UAString) -> &'static str {
        if s.is_null() { "null" } else if s.as_ref().is_empty() { "empty" } else { "text" }
    }
    fn idk(n: &NodeId) -> &'static str {
        match n.identifier {
            Identifier::Numeric(_) => "i",
            Identifier::String(_) => "s",
            Identifier::Guid(_) => "g",
            Identifier::ByteString(_) => "b",
        }
    }
    fn var(v: &Variant, depth: u32) -> String {
        match v {
            Variant::Empty => "Empty".into(),
            Variant::String(s) => format!("String:{}", us(s)),
            Variant::XmlElement(s) => format!("Xml:{}", us(s)),
            Variant::ByteString(b) => format!("ByteString:{}", if b.is_null() { "null" } else if b.is_empty() { "empty" } else { "bytes" }),
            Variant::Float(f) => format!("Float:{}", if f.is_nan() { "nan" } else if f.is_infinite() { "inf" } else { "fin" }),
            Variant::Double(f) => format!("Double:{}", if f.is_nan() { "nan" } else if f.is_infinite() { "inf" } else { "fin" }),
            Variant::NodeId(n) => format!("NodeId:{}", idk(n)),
            Variant::ExpandedNodeId(e) => format!("Expanded:{}{}", idk(&e.node_id), if e.namespace_uri.is_null() { "" } else { "+uri" }),
            Variant::Variant(i) if depth < 2 => format!("Variant({})", var(i, depth + 1)),
            Variant::DataValue(d) if depth < 2 => format!("DataValue({})", d.value.as_ref().map(|x| var(x, depth + 1)).unwrap_or_else(|| "-".into())),
            Variant::Array(a) => format!("Array:{:?}{}", a.value_type, if a.dimensions.is_some() { "+dims" } else { "" }),
            other => format!("{:?}", other.type_id()),
        }
    }
    match b {
        BV::S(s) => us(s).to_string(),
        BV::B(b) => (if b.is_null() { "null" } else if b.is_empty() { "empty" } else { "bytes" }).to_string(),
        BV::G(_) => "guid".into(),
        BV::Dt(d) => (if d.ticks() % 10_000_000 == 0 { "s" } else { "ms" }).to_string(),
        BV::N(n) => format!("{}{}", idk(n), if n.namespace == 0 { ",ns0" } else { "" }),
        BV::E(e) => format!(
            "{}{}{}{}",
            idk(&e.node_id),
            if e.node_id.namespace == 0 { ",ns0" } else { "" },
            if e.namespace_uri.is_null() { "" } else { ",uri" },
            if e.server_index == 0 { "" } else { ",svr" }
        ),
        BV::Sc(s) => (if s.is_good() { "good" } else if s.is_bad() { "bad" } else { "uncertain" }).to_string(),
        BV::Lt(l) => format!("{}/{}", us(&l.locale), us(&l.text)),
        BV::Q(q) => format!("{}{}", us(&q.name), if q.namespace_index == 0 { ",ns0" } else { "" }),
        BV::Dv(d) => format!(
            "v:{} st:{} ts:{}{}",
            d.value.as_ref().map(|x| var(x, 1)).unwrap_or_else(|| "-".into()),
            d.status.is_some() as u8,
            d.source_timestamp.is_some() as u8,
            d.server_timestamp.is_some() as u8
        ),
        BV::V(v) => var(v, 0),
    }
}

const CONTAINERS: [&str; 9] = ["ExpandedNodeId", "NodeId", "DataValue", "LocalizedText", "QualifiedName", "ExtensionObject", "DiagnosticInfo", "Array", "JsonVariant"];

pub struct W;

/// The values directly contained in a value (what a failing value can be narrowed down to)
fn children(b: &BV) -> Vec<BV> {
    match b {
        BV::Dv(d) => d.value.iter().cloned().map(BV::V).collect(),
        BV::V(Variant::Variant(i)) => vec![BV::V((**i).clone())],
        BV::V(Variant::DataValue(d)) => vec![BV::Dv((**d).clone())],
        BV::V(Variant::Array(a)) => a.values.iter().cloned().map(BV::V).collect(),
        BV::V(Variant::NodeId(n)) => vec![BV::N((**n).clone())],
        BV::V(Variant::ExpandedNodeId(n)) => vec![BV::E((**n).clone())],
        BV::V(Variant::QualifiedName(n)) => vec![BV::Q((**n).clone())],
        BV::V(Variant::LocalizedText(n)) => vec![BV::Lt((**n).clone())],
        BV::V(Variant::Guid(n)) => vec![BV::G((**n).clone())],
        BV::V(Variant::DateTime(n)) => vec![BV::Dt((**n).clone())],
        BV::V(Variant::String(n)) => vec![BV::S(n.clone())],
        BV::V(Variant::ByteString(n)) => vec![BV::B(n.clone())],
        BV::V(Variant::StatusCode(n)) => vec![BV::Sc(*n)],
        BV::E(e) => vec![BV::N(e.node_id.clone())],
        _ => vec![],
    }
}

fn type_name(b: &BV) -> &'static str {
    match b {
        BV::S(_) => "UAString",
        BV::B(_) => "ByteString",
        BV::G(_) => "Guid",
        BV::Dt(_) => "DateTime",
        BV::N(_) => "NodeId",
        BV::E(_) => "ExpandedNodeId",
        BV::Sc(_) => "StatusCode",
        BV::Lt(_) => "LocalizedText",
        BV::Q(_) => "QualifiedName",
        BV::Dv(_) => "DataValue",
        BV::V(_) => "Variant",
    }
}

/// The value a case describes: a grid entry or a seeded random value, then the chain of child indices
fn value_of(case: &Value) -> Option<BV> {
    let t = case["t"].as_str()?;
    let mut bv = if let Some(i) = case.get("grid").and_then(|x| x.as_u64()) {
        grid(t).into_iter().nth(i as usize)?
    } else {
        let mut rng = Rng::new(case["seed"].as_u64()?);
        gen_value(t, &mut rng)?
    };
    if let Some(path) = case.get("path").and_then(|p| p.as_array()) {
        for step in path {
            bv = children(&bv).into_iter().nth(step.as_u64()? as usize)?;
        }
    }
    Some(bv)
}

impl Workload for W {
    fn same_failure(&self, a: &Fail, b: &Fail) -> bool {
        // a contained value reports the same family of failure under its own type name and message
        let fam = |k: &str| k.split('|').take(2).collect::<Vec<_>>().join("|");
        fam(&a.kind) == fam(&b.kind)
    }

    fn shrinks(&self, case: &Value) -> Vec<Value> {
        // narrow down to a contained value
        let mut out = Vec::new();
        if let Some(bv) = value_of(case) {
            let n = children(&bv).len();
            let path: Vec<Value> = case.get("path").and_then(|p| p.as_array()).cloned().unwrap_or_default();
            for i in 0..n {
                let mut p = path.clone();
                p.push(json!(i));
                let mut c = case.clone();
                c["path"] = Value::Array(p);
                out.push(c);
            }
        }
        out
    }

    fn eval(&self, case: &Value) -> Eval {
        let bv = match value_of(case) {
            Some(b) => b,
            None => return Eval::fail("bad-case", "harness|bad-case", "cannot build the value"),
        };
        let t = type_name(&bv).to_string();
        let class = format!("{} {}", t, shape(&bv));
        let outs = match &bv {
            BV::S(v) => roundtrip(v),
            BV::B(v) => roundtrip(v),
            BV::G(v) => roundtrip(v),
            BV::Dt(v) => roundtrip(v),
            BV::N(v) => roundtrip(v),
            BV::E(v) => roundtrip(v),
            BV::Sc(v) => roundtrip(v),
            BV::Lt(v) => roundtrip(v),
            BV::Q(v) => roundtrip(v),
            BV::Dv(v) => roundtrip(v),
            BV::V(v) => roundtrip(v),
        };
        let shown: String = format!("{:?}", bv).chars().take(500).collect();
        let mut fails: Vec<(&str, String, String)> = Vec::new(); // (route, kind, detail)
        for (route, o) in ["value", "text"].into_iter().zip(outs.iter()) {
            match o {
                Out::Ok => {}
                Out::SerPanic(p) => fails.push((route, format!("json|serialize-panic|{}", panic_sig(p)), format!("[{}] serialising {} panicked: {} at {}:{}", route, shown, p.msg, p.file, p.line))),
                Out::SerErr(e) => fails.push((route, format!("json|serialize-error|{}", norm_err(e)), format!("[{}] serialising {} failed: {}", route, shown, e))),
                Out::DePanic(p, text) => fails.push((
                    route,
                    format!("json|deserialize-panic|{}", panic_sig(p)),
                    format!("[{}] deserialising {} (from {}) panicked: {} at {}:{}", route, text, shown, p.msg, p.file, p.line),
                )),
                Out::DeErr(e, text) => fails.push((
                    route,
                    format!("json|own-output-rejected|{}|{}", t, norm_err(e)),
                    format!("[{}] {} serialises to {} which is rejected: {}", route, shown, text, e),
                )),
                Out::Mismatch(a, b, text) => {
                    let d = first_diff(a, b, &CONTAINERS);
                    fails.push((
                        route,
                        format!("json|different-value|{}|{} => {}", d.path, d.a, d.b),
                        format!("[{}] {} serialises to {} which deserialises to a different value: at {}: {} became {}", route, shown, text, d.path, d.raw_a, d.raw_b),
                    ));
                }
            }
        }
        let n_ok = 2 - fails.len() as u64;
        let e = if fails.is_empty() {
            Eval::ok(class)
        } else {
            let both = fails.len() == 2 && fails[0].1 == fails[1].1;
            let (route, kind, detail) = fails.remove(0);
            // the same failure on both routes is one finding; otherwise the route is part of its name
            let kind = if both { kind } else { format!("{}|via-{}-only", kind, route) };
            Eval::fail(class, kind, detail)
        };
        e.with("roundtrips_equal", n_ok).with("values", 1)
    }

    fn features(&self, _case: &Value, _fail: &Fail) -> String {
        // the kind carries the path of the first difference / the error text
        "-".into()
    }
}

pub fn c42(args: &Args, rep: &mut Report) {
    rep.max_violations = 120;
    let w = W;
    let mut cases: Vec<Value> = Vec::new();
    if args.replay.is_none() {
        let mut idx = 0usize;
        for t in TOP_TYPES {
            for i in 0..grid(t).len() {
                if idx % args.shards == args.shard {
                    cases.push(json!({"t": t, "grid": i}));
                }
                idx += 1;
            }
        }
        rep.count("grid_cases", cases.len() as u64);
    }
    let mut rng = Rng::new(args.seed ^ 0xC42 ^ ((args.shard as u64) << 32));
    let mut left = if args.replay.is_some() { 0 } else { args.budget(150_000, 16_000_000) };
    let random = std::iter::from_fn(move || {
        if left == 0 {
            return None;
        }
        left -= 1;
        // variants and data values get half of the budget
        let t = match rng.below(20) {
            0..=6 => "Variant",
            7..=9 => "DataValue",
            k => TOP_TYPES[(k as usize - 10) % 9],
        };
        Some(json!({"t": t, "seed": rng.next_u64()}))
    });
    run_all(&w, args, rep, &mut cases.into_iter().chain(random));
}
