//! Pure-function text / conversion workloads: C04 textual identifiers, C05 relative paths,
//! C06 numeric Variant conversion and cast, C41 configuration YAML round trip, C42 JSON round trip.
#[allow(unused_imports)]
pub(crate) use vh_common::{common, gen, pki};
pub mod c04;
pub mod c05;
pub mod c06;
pub mod c41;
pub mod c42;
pub mod p_text;
pub use p_text::dispatch;
