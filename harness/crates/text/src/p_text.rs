//! Dispatch for the text group plus the pieces the five workloads share: the case driver
//! (evaluate, classify, on failure shrink the witness and derive the signature from what could not be
//! shrunk away), string shrinking and panic signatures without payload.
use crate::common::*;
use serde_json::Value;
use std::collections::HashMap;

pub fn dispatch(args: &Args, rep: &mut Report) -> bool {
    match args.prop.as_str() {
        "C04" => crate::c04::c04(args, rep),
        "C05" => crate::c05::c05(args, rep),
        "C06" => crate::c06::c06(args, rep),
        "C41" => crate::c41::c41(args, rep),
        "C42" => crate::c42::c42(args, rep),
        _ => return false,
    }
    true
}

pub fn read_replay(path: &str) -> Option<Value> {
    let s = std::fs::read_to_string(path).ok()?;
    let v: Value = serde_json::from_str(&s).ok()?;
    if v.get("case").is_some() {
        Some(v["case"].clone())
    } else {
        Some(v)
    }
}

/// A failed oracle: `kind` is the stable failure kind (goes into the signature), `detail` is for humans
#[derive(Clone, Debug)]
pub struct Fail {
    pub kind: String,
    pub detail: String,
    /// optional input-class description computed by the oracle, for `Workload::features`
    pub feat: String,
}

/// What one evaluation of a case observed
pub struct Eval {
    /// distinct non-trivial class of the case
    pub class: String,
    pub fail: Option<Fail>,
    /// free-form counters
    pub counts: Vec<(&'static str, u64)>,
    /// what bounds the number of shrinks: at most `shrink_per_key` failures with the same (kind, key) are
    /// minimised. Defaults to the class.
    pub key: Option<String>,
}

impl Eval {
    pub fn ok(class: impl Into<String>) -> Eval {
        Eval { class: class.into(), fail: None, counts: vec![], key: None }
    }
    pub fn fail(class: impl Into<String>, kind: impl Into<String>, detail: impl Into<String>) -> Eval {
        Eval {
            class: class.into(),
            fail: Some(Fail { kind: kind.into(), detail: detail.into(), feat: String::new() }),
            counts: vec![],
            key: None,
        }
    }
    pub fn feat(mut self, f: impl Into<String>) -> Eval {
        if let Some(x) = self.fail.as_mut() {
            x.feat = f.into();
        }
        self
    }
    pub fn key(mut self, k: impl Into<String>) -> Eval {
        self.key = Some(k.into());
        self
    }
    pub fn with(mut self, k: &'static str, n: u64) -> Eval {
        self.counts.push((k, n));
        self
    }
}

/// A workload: evaluates cases against the real code, proposes simpler cases, names a minimal witness
pub trait Workload {
    fn eval(&self, case: &Value) -> Eval;
    /// strictly simpler variants of a case, most aggressive first
    fn shrinks(&self, _case: &Value) -> Vec<Value> {
        vec![]
    }
    /// the part of the signature that names the input class of a (shrunk) failing case
    fn features(&self, case: &Value, fail: &Fail) -> String;
    /// whether a simpler case still shows "the same" failure (default: identical kind)
    fn same_failure(&self, a: &Fail, b: &Fail) -> bool {
        a.kind == b.kind
    }
    /// what bounds the number of shrinks of similar failures (default: the class of the case)
    fn shrink_key(&self, _case: &Value, _fail: &Fail) -> Option<String> {
        None
    }
}

pub struct Driver {
    /// number of failures already shrunk per (kind, class)
    shrunk: HashMap<String, u32>,
    pub shrink_per_key: u32,
    pub shrink_eval_budget: u32,
    /// evaluations all shrinks of this run may spend together
    pub total_eval_budget: u64,
    spent: u64,
}

impl Default for Driver {
    fn default() -> Self {
        Driver { shrunk: HashMap::new(), shrink_per_key: 8, shrink_eval_budget: 3000, total_eval_budget: 400_000, spent: 0 }
    }
}

impl Driver {
    /// Evaluates one case; on failure shrinks it and reports the violation with the signature
    /// `<kind>|<features of the minimal witness>`. Never lets a panic escape.
    pub fn run(&mut self, w: &dyn Workload, case: &Value, rep: &mut Report) {
        rep.begin_case(case);
        let e = match catch(|| w.eval(case)) {
            Ok(e) => e,
            Err(p) => Eval::fail("harness-escape", "uncaught-panic", format!("{} at {}:{}", p.msg, p.file, p.line))
                .with("uncaught_panics", 1),
        };
        rep.case(&e.class);
        rep.sample(case.clone());
        for (k, n) in &e.counts {
            rep.count(k, *n);
        }
        let fail = match e.fail {
            Some(f) => f,
            None => return,
        };
        let key = match w.shrink_key(case, &fail) {
            Some(k) => format!("{}|{}", fail.kind, k),
            None => format!("{}|{}", fail.kind, e.key.as_deref().unwrap_or(&e.class)),
        };
        let seen = self.shrunk.entry(key).or_insert(0);
        *seen += 1;
        if *seen > self.shrink_per_key || self.spent >= self.total_eval_budget {
            // same failure kind on the same class of case as a dozen already minimised witnesses:
            // count it, do not spend time on another shrink
            rep.count("violations_total", 1);
            rep.count("failures_not_minimised", 1);
            return;
        }
        let (min_case, min_fail, steps, evals) = self.shrink(w, case.clone(), fail.clone());
        self.spent += evals as u64;
        rep.count("shrink_steps", steps as u64);
        rep.count("shrink_evaluations", evals as u64);
        let feat = w.features(&min_case, &min_fail);
        let sig = if feat == "-" || feat.is_empty() { min_fail.kind.clone() } else { format!("{}|{}", min_fail.kind, feat) };
        let detail = format!(
            "{} || minimal witness: {} || first seen on: {}",
            min_fail.detail,
            compact(&min_case, 400),
            compact(case, 400)
        );
        rep.violation(sig, detail, min_case);
    }

    fn shrink(&self, w: &dyn Workload, mut cur: Value, mut cur_fail: Fail) -> (Value, Fail, u32, u32) {
        let mut evals = 0u32;
        let mut steps = 0u32;
        'outer: loop {
            for cand in w.shrinks(&cur) {
                if evals >= self.shrink_eval_budget {
                    break 'outer;
                }
                if cand == cur {
                    continue;
                }
                evals += 1;
                let e = match catch(|| w.eval(&cand)) {
                    Ok(e) => e,
                    Err(_) => continue,
                };
                if std::env::var("VH_DEBUG_SHRINK").is_ok() {
                    eprintln!("cand {} -> {:?}", compact(&cand, 3000), e.fail.as_ref().map(|f| &f.kind));
                }
                if let Some(f) = e.fail {
                    if w.same_failure(&cur_fail, &f) {
                        cur = cand;
                        cur_fail = f;
                        steps += 1;
                        continue 'outer;
                    }
                }
            }
            break;
        }
        (cur, cur_fail, steps, evals)
    }
}

pub fn compact(v: &Value, max: usize) -> String {
    let s = v.to_string();
    if s.chars().count() > max {
        let t: String = s.chars().take(max).collect();
        format!("{}...", t)
    } else {
        s
    }
}

/// Simpler strings: the single letter, halves, every single-character deletion, every character
/// replaced by 'a'. Ordered most aggressive first.
pub fn shrink_string(s: &str) -> Vec<String> {
    let chars: Vec<char> = s.chars().collect();
    let mut out: Vec<String> = Vec::new();
    if s != "a" && !s.is_empty() {
        out.push("a".to_string());
    }
    let n = chars.len();
    if n > 3 {
        out.push(chars[..n / 2].iter().collect());
        out.push(chars[n / 2..].iter().collect());
    }
    if n > 1 && n <= 64 {
        for i in 0..n {
            let mut c = chars.clone();
            c.remove(i);
            out.push(c.into_iter().collect());
        }
    }
    if n <= 64 {
        for i in 0..n {
            if chars[i] != 'a' {
                let mut c = chars.clone();
                c[i] = 'a';
                out.push(c.into_iter().collect());
            }
        }
        // canonical representative of "some non-ASCII character"
        for i in 0..n {
            if !chars[i].is_ascii() && chars[i] != 'é' {
                let mut c = chars.clone();
                c[i] = 'é';
                out.push(c.into_iter().collect());
            }
        }
    }
    out
}

/// `shrink_string` plus: every character that belongs to one of the given classes replaced by the
/// representative of its class, so that minimal witnesses do not depend on which member was drawn
pub fn shrink_string_canon(s: &str, classes: &[(&str, char)]) -> Vec<String> {
    let mut out = shrink_string(s);
    let chars: Vec<char> = s.chars().collect();
    if chars.len() <= 64 {
        for i in 0..chars.len() {
            for (set, rep) in classes {
                if chars[i] != *rep && set.contains(chars[i]) {
                    let mut c = chars.clone();
                    c[i] = *rep;
                    out.push(c.into_iter().collect());
                }
            }
        }
    }
    out
}

/// Same as `shrink_string` but never proposes the empty string
pub fn shrink_string_non_empty(s: &str) -> Vec<String> {
    shrink_string(s).into_iter().filter(|x| !x.is_empty()).collect()
}

/// A short literal rendering of a (minimal) string for signatures
pub fn lit(s: &str) -> String {
    let e: String = s.escape_debug().collect();
    if e.chars().count() > 24 {
        let t: String = e.chars().take(24).collect();
        format!("'{}..'", t)
    } else {
        format!("'{}'", e)
    }
}

/// Panic signature without payload: file plus the message up to the first quoted part (panic messages
/// quote the offending input, which may itself contain any character) with digits normalised
pub fn panic_sig(p: &PanicInfo) -> String {
    // (the standard "called `Option::unwrap()` on a `None` value" family carries no payload)
    let cut = if p.msg.starts_with("called `") { p.msg.len() } else { p.msg.find(|c| c == '`' || c == '\'' || c == '"').unwrap_or(p.msg.len()) };
    let q = PanicInfo { file: p.file.clone(), line: p.line, msg: p.msg[..cut].trim_end().to_string() };
    q.signature()
}

/// Canonical smaller numbers for a number: the boundaries of the usual integer widths and decimal lengths
pub fn smaller_numbers(cur: u64) -> Vec<u64> {
    const L: [u64; 24] = [
        0, 1, 2, 9, 10, 99, 100, 127, 128, 255, 256, 999, 1000, 32767, 32768, 65535, 65536, 999_999_999, 1_000_000_000, 2147483647, 2147483648, 4294967294, 4294967295, 4294967296,
    ];
    L.iter().cloned().filter(|x| *x < cur).collect()
}

/// Runs either the replay case or the generated cases through the driver
pub fn run_all(w: &dyn Workload, args: &Args, rep: &mut Report, cases: &mut dyn Iterator<Item = Value>) {
    let mut d = Driver::default();
    if let Some(path) = &args.replay {
        match read_replay(path) {
            Some(case) => d.run(w, &case, rep),
            None => rep.inconclusive("cannot read replay file"),
        }
        return;
    }
    for case in cases {
        d.run(w, &case, rep);
    }
}

// ---------------------------------------------------------------- structural diff of Debug output

pub fn norm_line(l: &str) -> String {
    // strings become "..", digit runs '#'
    let mut out = String::new();
    let mut in_str = false;
    let mut esc = false;
    let mut in_digits = false;
    for c in l.trim().trim_end_matches(',').chars() {
        if in_str {
            if esc {
                esc = false;
            } else if c == '\\' {
                esc = true;
            } else if c == '"' {
                in_str = false;
                out.push_str("..\"");
            }
            continue;
        }
        if c == '"' {
            in_str = true;
            out.push('"');
            continue;
        }
        if c.is_ascii_digit() {
            if !in_digits {
                out.push('#');
                in_digits = true;
            }
        } else {
            in_digits = false;
            out.push(c);
        }
    }
    out
}

pub struct Diff {
    /// enclosing fields, starting at the innermost structured type named in `containers`
    pub path: String,
    /// the differing lines, strings and digits normalised
    pub a: String,
    pub b: String,
    /// the differing lines as printed
    pub raw_a: String,
    pub raw_b: String,
}

/// Where two pretty-printed (`{:#?}`) values first differ
pub fn first_diff(a: &str, b: &str, containers: &[&str]) -> Diff {
    let la: Vec<&str> = a.lines().collect();
    let lb: Vec<&str> = b.lines().collect();
    let i = la.iter().zip(lb.iter()).position(|(x, y)| x != y).unwrap_or(la.len().min(lb.len()));
    let mut stack: Vec<(usize, String)> = Vec::new();
    for l in la.iter().take(i) {
        let indent = l.len() - l.trim_start().len();
        while stack.last().map(|(k, _)| *k >= indent).unwrap_or(false) {
            stack.pop();
        }
        let t = l.trim();
        if t.ends_with('{') || t.ends_with('(') || t.ends_with('[') {
            let mut label = t.trim_end_matches(|c| c == '{' || c == '(' || c == '[' || c == ' ').to_string();
            // an entry of a map prints as "key": Type: the key is data, not structure
            if label.starts_with('"') {
                if let Some(i) = label.rfind("\": ") {
                    label = format!("*: {}", &label[i + 3..]);
                }
            }
            stack.push((indent, label));
        }
    }
    let labels: Vec<String> = stack.into_iter().map(|(_, l)| l).filter(|l| !l.is_empty()).collect();
    // start at the innermost enclosing structured type
    let start = labels.iter().rposition(|l| containers.iter().any(|c| l.ends_with(c))).unwrap_or(0);
    let tail: Vec<String> = labels[start..]
        .iter()
        .map(|l| {
            // "field: Type" -> for the first keep the type, afterwards the field name
            l.clone()
        })
        .collect();
    let mut path = tail.join("/");
    if let Some(first) = labels.get(start) {
        if let Some((_, ty)) = first.split_once(": ") {
            path = std::iter::once(ty.to_string()).chain(tail.iter().skip(1).cloned()).collect::<Vec<_>>().join("/");
        }
    }
    let raw_a = la.get(i).map(|l| l.trim().to_string()).unwrap_or_else(|| "<end>".into());
    let raw_b = lb.get(i).map(|l| l.trim().to_string()).unwrap_or_else(|| "<end>".into());
    Diff { path, a: norm_line(&raw_a), b: norm_line(&raw_b), raw_a, raw_b }
}

