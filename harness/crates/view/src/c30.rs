//! C30: browsing in pages returns the full result exactly once; continuation points are single-use,
//! die on release and on address-space change, and are bounded per session.
use crate::common::*;
use crate::env::{self, Env, Hubs};
use opcua::core::supported_message::SupportedMessage;
use opcua::server::prelude::*;
use opcua::server::session::Session;
use opcua::sync::RwLock;
use opcua::verif::server as hooks;
use serde_json::{json, Value};
use std::collections::BTreeSet;
use std::str::FromStr;
use std::sync::Arc;

const HUB_SIZES: &[usize] = &[0, 1, 2, 3, 5, 8, 16, 40, 254, 255, 256, 300, 520];

struct Ctx {
    env: Env,
    hubs: Hubs,
    env_seed: u64,
    /// what the server announces in ServerCapabilities.MaxBrowseContinuationPoints
    announced_max: usize,
}

fn build(env_seed: u64) -> Ctx {
    let env = Env::new(true);
    let mut rng = Rng::new(env_seed ^ 0x4855);
    let hubs = env::build_hubs(&env, &mut rng, HUB_SIZES);
    let announced_max = {
        let a = env.address_space.read();
        match a
            .get_variable_value(VariableId::Server_ServerCapabilities_MaxBrowseContinuationPoints)
            .ok()
            .and_then(|v| v.value)
        {
            Some(Variant::UInt16(v)) => v as usize,
            Some(Variant::UInt32(v)) => v as usize,
            _ => 0,
        }
    };
    Ctx {
        env,
        hubs,
        env_seed,
        announced_max,
    }
}

#[derive(Clone, Debug)]
struct Desc {
    node: NodeId,
    dir: BrowseDirection,
    ref_type: NodeId,
    subtypes: bool,
    class_mask: u32,
    result_mask: u32,
}

impl Desc {
    fn to_ua(&self) -> BrowseDescription {
        BrowseDescription {
            node_id: self.node.clone(),
            browse_direction: self.dir,
            reference_type_id: self.ref_type.clone(),
            include_subtypes: self.subtypes,
            node_class_mask: self.class_mask,
            result_mask: self.result_mask,
        }
    }
    fn to_json(&self) -> Value {
        json!({"node": self.node.to_string(), "dir": self.dir as i32, "ref_type": self.ref_type.to_string(),
               "subtypes": self.subtypes, "class_mask": self.class_mask, "result_mask": self.result_mask})
    }
    fn from_json(v: &Value) -> Option<Desc> {
        Some(Desc {
            node: NodeId::from_str(v["node"].as_str()?).ok()?,
            dir: match v["dir"].as_i64()? {
                0 => BrowseDirection::Forward,
                1 => BrowseDirection::Inverse,
                2 => BrowseDirection::Both,
                _ => BrowseDirection::Invalid,
            },
            ref_type: NodeId::from_str(v["ref_type"].as_str()?).ok()?,
            subtypes: v["subtypes"].as_bool()?,
            class_mask: v["class_mask"].as_u64()? as u32,
            result_mask: v["result_mask"].as_u64()? as u32,
        })
    }
}

fn dir_name(d: BrowseDirection) -> &'static str {
    match d {
        BrowseDirection::Forward => "fwd",
        BrowseDirection::Inverse => "inv",
        BrowseDirection::Both => "both",
        BrowseDirection::Invalid => "invalid",
    }
}

fn browse(ctx: &Ctx, session: &Arc<RwLock<Session>>, descs: &[Desc], max: u32) -> Result<Result<Vec<BrowseResult>, StatusCode>, PanicInfo> {
    let req = BrowseRequest {
        request_header: env::rh(),
        view: ViewDescription {
            view_id: NodeId::null(),
            timestamp: DateTime::null(),
            view_version: 0,
        },
        requested_max_references_per_node: max,
        nodes_to_browse: Some(descs.iter().map(|d| d.to_ua()).collect()),
    };
    catch(|| {
        match hooks::browse(ctx.env.server_state.clone(), session.clone(), ctx.env.address_space.clone(), &req) {
            SupportedMessage::BrowseResponse(r) => Ok(r.results.unwrap_or_default()),
            SupportedMessage::ServiceFault(f) => Err(f.response_header.service_result),
            _ => Err(StatusCode::BadUnexpectedError),
        }
    })
}

fn browse_next(
    ctx: &Ctx,
    session: &Arc<RwLock<Session>>,
    cps: &[ByteString],
    release: bool,
) -> Result<Result<Option<Vec<BrowseResult>>, StatusCode>, PanicInfo> {
    let req = BrowseNextRequest {
        request_header: env::rh(),
        release_continuation_points: release,
        continuation_points: Some(cps.to_vec()),
    };
    catch(|| match hooks::browse_next(session.clone(), ctx.env.address_space.clone(), &req) {
        SupportedMessage::BrowseNextResponse(r) => Ok(r.results),
        SupportedMessage::ServiceFault(f) => Err(f.response_header.service_result),
        _ => Err(StatusCode::BadUnexpectedError),
    })
}

fn stored(session: &Arc<RwLock<Session>>) -> usize {
    let s = session.read();
    hooks::session_browse_continuation_points(&s)
}

enum Paged {
    /// (status of the first result, concatenated references, number of pages, largest page)
    Done(StatusCode, Vec<ReferenceDescription>, usize, usize),
    Panic(PanicInfo),
    Fault(StatusCode),
    /// paging went on for more rounds than there can be references
    Endless(usize),
    /// a BrowseNext in the chain answered bad
    Broken(StatusCode, usize),
}

/// Browse with `max` per page and BrowseNext until no continuation point remains, for several nodes at once
fn paged(ctx: &Ctx, session: &Arc<RwLock<Session>>, descs: &[Desc], max: u32, round_limit: usize) -> Vec<Paged> {
    let first = match browse(ctx, session, descs, max) {
        Err(p) => return descs.iter().map(|_| Paged::Panic(p.clone())).collect(),
        Ok(Err(sc)) => return descs.iter().map(|_| Paged::Fault(sc)).collect(),
        Ok(Ok(r)) => r,
    };
    if first.len() != descs.len() {
        return descs.iter().map(|_| Paged::Fault(StatusCode::BadUnexpectedError)).collect();
    }
    struct St {
        status: StatusCode,
        refs: Vec<ReferenceDescription>,
        pages: usize,
        largest: usize,
        cp: ByteString,
        broken: Option<StatusCode>,
    }
    let mut st: Vec<St> = first
        .into_iter()
        .map(|r| {
            let refs = r.references.unwrap_or_default();
            St {
                status: r.status_code,
                largest: refs.len(),
                refs,
                pages: 1,
                cp: r.continuation_point,
                broken: None,
            }
        })
        .collect();
    let mut rounds = 0usize;
    loop {
        let open: Vec<usize> = (0..st.len()).filter(|i| !st[*i].cp.is_null() && st[*i].broken.is_none()).collect();
        if open.is_empty() {
            break;
        }
        rounds += 1;
        if rounds > round_limit {
            return st.iter().map(|s| if s.cp.is_null() { Paged::Done(s.status, s.refs.clone(), s.pages, s.largest) } else { Paged::Endless(rounds) }).collect();
        }
        let cps: Vec<ByteString> = open.iter().map(|i| st[*i].cp.clone()).collect();
        match browse_next(ctx, session, &cps, false) {
            Err(p) => return descs.iter().map(|_| Paged::Panic(p.clone())).collect(),
            Ok(Err(sc)) => return descs.iter().map(|_| Paged::Fault(sc)).collect(),
            Ok(Ok(res)) => {
                let res = res.unwrap_or_default();
                for (k, i) in open.iter().enumerate() {
                    match res.get(k) {
                        Some(r) if r.status_code.is_good() => {
                            let refs = r.references.clone().unwrap_or_default();
                            st[*i].largest = st[*i].largest.max(refs.len());
                            st[*i].refs.extend(refs);
                            st[*i].pages += 1;
                            st[*i].cp = r.continuation_point.clone();
                        }
                        Some(r) => st[*i].broken = Some(r.status_code),
                        None => st[*i].broken = Some(StatusCode::BadUnexpectedError),
                    }
                }
            }
        }
    }
    st.into_iter()
        .map(|s| match s.broken {
            Some(sc) => Paged::Broken(sc, s.pages),
            None => Paged::Done(s.status, s.refs, s.pages, s.largest),
        })
        .collect()
}

fn first_difference(full: &[ReferenceDescription], got: &[ReferenceDescription]) -> (&'static str, String) {
    // classify: duplicate / missing / extra / order
    let key = |r: &ReferenceDescription| format!("{}|{}|{}", r.node_id.node_id, r.reference_type_id, r.is_forward);
    let mut seen = BTreeSet::new();
    for r in got {
        if !seen.insert(key(r)) && full.iter().filter(|f| key(f) == key(r)).count() < got.iter().filter(|g| key(g) == key(r)).count() {
            return ("duplicate", format!("reference {} returned more often by paging than by the unlimited browse", key(r)));
        }
    }
    if got.len() < full.len() {
        return ("missing", format!("paging returned {} references, unlimited browse {}", got.len(), full.len()));
    }
    if got.len() > full.len() {
        return ("extra", format!("paging returned {} references, unlimited browse {}", got.len(), full.len()));
    }
    let idx = full.iter().zip(got.iter()).position(|(a, b)| a != b).unwrap_or(0);
    let fs: BTreeSet<String> = full.iter().map(key).collect();
    let gs: BTreeSet<String> = got.iter().map(key).collect();
    if fs == gs {
        ("order-or-content", format!("first difference at index {}: unlimited {:?} vs paged {:?}", idx, full.get(idx).map(key), got.get(idx).map(key)))
    } else {
        ("different-set", format!("first difference at index {}: unlimited {:?} vs paged {:?}", idx, full.get(idx).map(key), got.get(idx).map(key)))
    }
}

fn l_bucket(l: usize) -> &'static str {
    match l {
        0 => "0",
        1 => "1",
        2..=8 => "2-8",
        9..=100 => "9-100",
        101..=254 => "101-254",
        255 => "255",
        256 => "256",
        _ => ">256",
    }
}

fn page_rel(page: u32, l: usize) -> &'static str {
    let p = page as usize;
    if page == 0 {
        "0"
    } else if page == u32::MAX {
        "max"
    } else if p == 1 && l > 1 {
        "1"
    } else if p + 1 == l {
        "L-1"
    } else if p == l {
        "L"
    } else if p == l + 1 {
        "L+1"
    } else if p > l {
        ">L"
    } else if p == 254 || p == 255 || p == 256 {
        "cap"
    } else if l % p == 0 {
        "divides"
    } else {
        "<L"
    }
}

fn filter_kind(d: &Desc) -> String {
    if d.ref_type.is_null() {
        "none".into()
    } else if let Ok(r) = d.ref_type.as_reference_type_id() {
        format!("{:?}", r)
    } else {
        "not-a-reftype".into()
    }
}

/// Part A for one group of descriptions browsed in one request with one page size.
/// Returns number of references seen in the reference list(s).
fn part_a_case(ctx: &Ctx, rep: &mut Report, descs: &[Desc], page: u32) {
    let case = json!({"part": "A", "env_seed": ctx.env_seed.to_string(), "descs": descs.iter().map(|d| d.to_json()).collect::<Vec<_>>(), "page": page,
                      "class": format!("A|{}|{}|n{}", dir_name(descs[0].dir), filter_kind(&descs[0]), descs.len())});
    rep.begin_case(&case);
    let scratch = ctx.env.new_session(false);
    // the reference list: one unlimited Browse per description (followed to exhaustion if the server caps it)
    let full = paged(ctx, &scratch, descs, 0, 2000);
    let session = ctx.env.new_session(false);
    let got = paged(ctx, &session, descs, page, 2000);
    for (i, d) in descs.iter().enumerate() {
        let (fstatus, fref, fpages) = match &full[i] {
            Paged::Done(s, r, p, _) => (*s, r, *p),
            Paged::Panic(p) => {
                rep.case(&format!("A|panic-unlimited|{}", dir_name(d.dir)));
                rep.violation(crate::util::psig(&p), format!("unlimited Browse panicked: {} at {}:{}", p.msg, p.file, p.line), case.clone());
                continue;
            }
            Paged::Fault(sc) => {
                rep.case(&format!("A|fault|{}", sc.name()));
                // the paged request must be refused the same way
                if !matches!(&got[i], Paged::Fault(s2) if s2 == sc) {
                    rep.violation("status-differs|service-fault", format!("unlimited browse faulted with {} but the paged one did not", sc.name()), case.clone());
                }
                continue;
            }
            Paged::Endless(n) => {
                rep.case("A|endless-unlimited");
                rep.violation("paging-does-not-terminate|unlimited", format!("unlimited browse still had a continuation point after {} BrowseNext rounds", n), case.clone());
                continue;
            }
            Paged::Broken(sc, pages) => {
                rep.case("A|broken-unlimited");
                rep.violation("live-cp-rejected|unlimited", format!("BrowseNext of an untouched continuation point answered {} after {} pages", sc.name(), pages), case.clone());
                continue;
            }
        };
        let l = fref.len();
        let class = format!(
            "A|{}|{}|sub{}|cm{}|rm{}|L{}|p{}|n{}|cap{}",
            dir_name(d.dir),
            filter_kind(d),
            d.subtypes as u8,
            if d.class_mask == 0 { "0".to_string() } else if d.class_mask.count_ones() == 1 { "one".to_string() } else { "many".to_string() },
            if d.result_mask == 0x3f { "all" } else if d.result_mask == 0 { "none" } else { "some" },
            l_bucket(l),
            page_rel(page, l),
            descs.len().min(3),
            (fpages > 1) as u8
        );
        rep.case(&class);
        rep.count("a_reference_lists", 1);
        rep.count("a_references_in_lists", l as u64);
        if fpages > 1 {
            rep.count("a_unlimited_browse_capped_by_server", 1);
        }
        match &got[i] {
            Paged::Panic(p) => rep.violation(crate::util::psig(&p), format!("paged Browse/BrowseNext panicked: {} at {}:{}", p.msg, p.file, p.line), case.clone()),
            Paged::Fault(sc) => rep.violation("status-differs|service-fault", format!("paged browse faulted with {} but the unlimited one answered", sc.name()), case.clone()),
            Paged::Endless(n) => rep.violation("paging-does-not-terminate", format!("still a continuation point after {} BrowseNext rounds for {} references", n, l), case.clone()),
            Paged::Broken(sc, pages) => rep.violation(
                "live-cp-rejected|plain-paging",
                format!("BrowseNext of a fresh continuation point answered {} after {} pages (page size {}, {} references)", sc.name(), pages, page, l),
                case.clone(),
            ),
            Paged::Done(s, r, pages, largest) => {
                rep.count("a_pages", *pages as u64);
                if *pages > 1 {
                    rep.count("a_paged_sequences_with_continuation", 1);
                }
                if *s != fstatus {
                    rep.violation("status-differs", format!("unlimited {} paged {}", fstatus.name(), s.name()), case.clone());
                } else if r != fref {
                    let (kind, detail) = first_difference(fref, r);
                    rep.violation(format!("paged-differs|{}", kind), format!("{} (page size {}, {} pages)", detail, page, pages), case.clone());
                } else if page != 0 && *largest > page as usize {
                    rep.violation("page-exceeds-requested-max", format!("a page held {} references, requested at most {}", largest, page), case.clone());
                }
            }
        }
    }
    if stored(&session) > ctx.announced_max && ctx.announced_max > 0 {
        rep.violation("cp-store-exceeds-bound", format!("{} continuation points stored, announced maximum {}", stored(&session), ctx.announced_max), case.clone());
    }
    rep.sample(case);
}

fn ref_types_for_filter() -> Vec<NodeId> {
    let mut v: Vec<NodeId> = vec![NodeId::null()];
    for r in [
        ReferenceTypeId::References,
        ReferenceTypeId::HierarchicalReferences,
        ReferenceTypeId::NonHierarchicalReferences,
        ReferenceTypeId::HasChild,
        ReferenceTypeId::Aggregates,
        ReferenceTypeId::HasComponent,
        ReferenceTypeId::HasOrderedComponent,
        ReferenceTypeId::Organizes,
        ReferenceTypeId::HasProperty,
        ReferenceTypeId::HasSubtype,
        ReferenceTypeId::HasTypeDefinition,
        ReferenceTypeId::HasEventSource,
        ReferenceTypeId::GeneratesEvent,
    ] {
        v.push(r.into());
    }
    v.push(ObjectId::ObjectsFolder.into()); // a node that is not a reference type
    v.push(NodeId::new(7, 4711u32)); // unknown
    v
}

const CLASS_MASKS: &[u32] = &[0, 1, 2, 4, 1 | 2, 2 | 4, 0xff, 8 | 16 | 32 | 64, 128, 0xffff_ff00];
const RESULT_MASKS: &[u32] = &[0x3f, 0, 1, 2, 0x20, 0x1f, 0xffff_ffff];

fn std_nodes() -> Vec<NodeId> {
    vec![
        ObjectId::RootFolder.into(),
        ObjectId::ObjectsFolder.into(),
        ObjectId::TypesFolder.into(),
        ObjectId::Server.into(),
        ObjectId::Server_ServerCapabilities.into(),
        ObjectId::DataTypesFolder.into(),
        ObjectId::ReferenceTypesFolder.into(),
        DataTypeId::BaseDataType.into(),
        DataTypeId::Enumeration.into(),
        DataTypeId::Structure.into(),
        ReferenceTypeId::References.into(),
        ReferenceTypeId::HierarchicalReferences.into(),
        ObjectTypeId::BaseObjectType.into(),
        ObjectTypeId::BaseEventType.into(),
        ObjectTypeId::FolderType.into(),
        VariableTypeId::BaseDataVariableType.into(),
        VariableTypeId::PropertyType.into(),
        ObjectId::ModellingRule_Mandatory.into(),
        VariableId::Server_ServerStatus.into(),
        NodeId::new(0, 999_999u32), // does not exist
        NodeId::null(),
    ]
}

fn random_desc(ctx: &Ctx, rng: &mut Rng, filters: &[NodeId], std: &[NodeId]) -> Desc {
    let node = match rng.below(10) {
        0..=5 => ctx.hubs.hubs[rng.usize(ctx.hubs.hubs.len())].0.clone(),
        6 => ctx.hubs.folder.clone(),
        _ => rng.pick(std).clone(),
    };
    Desc {
        node,
        dir: *rng.pick(&[BrowseDirection::Forward, BrowseDirection::Inverse, BrowseDirection::Both, BrowseDirection::Both, BrowseDirection::Forward, BrowseDirection::Invalid]),
        ref_type: if rng.chance(1, 3) { NodeId::null() } else { rng.pick(filters).clone() },
        subtypes: rng.bool(),
        class_mask: if rng.bool() { 0 } else { *rng.pick(CLASS_MASKS) },
        result_mask: if rng.bool() { 0x3f } else { *rng.pick(RESULT_MASKS) },
    }
}

fn interesting_pages(rng: &mut Rng, l: usize) -> Vec<u32> {
    let l32 = l as u32;
    let mut v = vec![1, 2, 3, l32.saturating_sub(1), l32, l32 + 1, l32 / 2, l32 / 2 + 1, 254, 255, 256, 257, 1000, u32::MAX, u32::MAX - 1];
    v.push(rng.range(1, (l as i64).max(1) + 2) as u32);
    v.push(rng.range(1, 20) as u32);
    v.retain(|p| *p > 0);
    v.sort();
    v.dedup();
    v
}

fn part_a(args: &Args, rep: &mut Report, ctx: &Ctx, rng: &mut Rng) {
    let filters = ref_types_for_filter();
    let std = std_nodes();
    // 1. grid on the small hubs: every page size 1..=L+1 for every direction and filter
    let mut idx = 0u64;
    let dirs = [BrowseDirection::Forward, BrowseDirection::Inverse, BrowseDirection::Both];
    let grid_filters: Vec<NodeId> = vec![
        NodeId::null(),
        ReferenceTypeId::References.into(),
        ReferenceTypeId::HierarchicalReferences.into(),
        ReferenceTypeId::HasChild.into(),
        ReferenceTypeId::HasComponent.into(),
        ReferenceTypeId::Organizes.into(),
        ReferenceTypeId::NonHierarchicalReferences.into(),
    ];
    let grid_masks: &[u32] = if args.thorough() { &[0, 1, 2, 1 | 4] } else { &[0, 1 | 2] };
    for (hub, fwd, inv) in ctx.hubs.hubs.iter() {
        let total = fwd + inv;
        if total > if args.thorough() { 80 } else { 30 } {
            continue;
        }
        for dir in dirs {
            for f in &grid_filters {
                for subtypes in [false, true] {
                    if f.is_null() && subtypes {
                        continue;
                    }
                    for cm in grid_masks {
                        for page in 1..=(total as u32 + 1) {
                            idx += 1;
                            if idx % args.shards as u64 != args.shard as u64 {
                                continue;
                            }
                            let d = Desc {
                                node: hub.clone(),
                                dir,
                                ref_type: f.clone(),
                                subtypes,
                                class_mask: *cm,
                                result_mask: 0x3f,
                            };
                            part_a_case(ctx, rep, &[d], page);
                        }
                    }
                }
            }
        }
    }
    rep.count("a_grid_cases", idx / args.shards as u64);
    // 2. big hubs and standard nodes at interesting page sizes
    let n = args.budget(600, 12_000);
    for _ in 0..n {
        let k = match rng.below(6) {
            0..=2 => 1,
            3 => 2,
            4 => 3,
            _ => 1 + rng.usize(6),
        };
        let descs: Vec<Desc> = (0..k).map(|_| random_desc(ctx, rng, &filters, &std)).collect();
        // length of the first one's list decides the interesting page sizes
        let l = {
            let scratch = ctx.env.new_session(false);
            match paged(ctx, &scratch, &descs[..1], 0, 2000).pop() {
                Some(Paged::Done(_, r, _, _)) => r.len(),
                _ => 0,
            }
        };
        let pages = interesting_pages(rng, l);
        let page = *rng.pick(&pages);
        part_a_case(ctx, rep, &descs, page);
    }
}

// ---------------------------------------------------------------------------------------------
// Part B: histories over continuation points

#[derive(Clone, Copy, PartialEq, Debug)]
enum CpState {
    Live,
    Used,
    Released,
    Stale(&'static str),
    Evicted,
}

struct Cp {
    id: ByteString,
    remaining: Vec<ReferenceDescription>,
    page: usize,
    state: CpState,
}

struct Hist<'a> {
    ctx: &'a Ctx,
    session: Arc<RwLock<Session>>,
    cps: Vec<Cp>,
    /// continuation points the server may have dropped to stay within its bound
    eviction_budget: usize,
    /// points that went stale and may still sit in the server's store until it purges them
    stale_pending: usize,
    ops: Vec<String>,
    added_nodes: Vec<NodeId>,
    added_refs: Vec<(NodeId, NodeId)>,
    serial: u64,
    violations: Vec<(String, String)>,
    obs: std::collections::BTreeMap<&'static str, u64>,
}

impl<'a> Hist<'a> {
    fn obs(&mut self, k: &'static str) {
        *self.obs.entry(k).or_insert(0) += 1;
    }
    fn v(&mut self, sig: impl Into<String>, detail: impl Into<String>) {
        self.violations.push((sig.into(), detail.into()));
    }

    /// Explains continuation points that left the store without being consumed or released: expired
    /// (stale) ones may be purged at any time; anything else only counts as a permitted eviction when
    /// the store was at its bound.
    fn account(&mut self, before: usize, issued: usize, consumed: usize, after: usize) {
        let d = (before + issued).saturating_sub(after + consumed);
        if d == 0 {
            return;
        }
        let max = if self.ctx.announced_max > 0 { self.ctx.announced_max } else { usize::MAX };
        if before + issued >= max {
            self.eviction_budget += d;
            self.obs("b_evictions_observed");
        } else {
            let explained = d.min(self.stale_pending);
            self.stale_pending -= explained;
            if explained > 0 {
                self.obs("b_stale_purges_observed");
            }
        }
    }

    fn check_bound(&mut self, after: &str) {
        let n = stored(&self.session);
        if self.ctx.announced_max > 0 && n > self.ctx.announced_max {
            self.v("cp-store-exceeds-bound", format!("{} continuation points stored after {}, announced maximum {}", n, after, self.ctx.announced_max));
        }
    }

    /// Browse several hubs in one request with a page size that leaves a continuation point
    fn op_browse(&mut self, rng: &mut Rng, count: usize) {
        let mut descs = Vec::new();
        for _ in 0..count {
            let big: Vec<&(NodeId, usize, usize)> = self.ctx.hubs.hubs.iter().filter(|h| h.1 >= 5).collect();
            let h = rng.pick(&big);
            descs.push(Desc {
                node: h.0.clone(),
                dir: *rng.pick(&[BrowseDirection::Forward, BrowseDirection::Both]),
                ref_type: NodeId::null(),
                subtypes: false,
                class_mask: 0,
                result_mask: 0x3f,
            });
        }
        let page = *rng.pick(&[1u32, 1, 2, 3, 4, 7, 100, 254]);
        self.ops.push(format!("browse{}x{}", count, page));
        // reference lists from a scratch session so that the session under test only sees the paged request
        let scratch = self.ctx.env.new_session(false);
        let full = paged(self.ctx, &scratch, &descs, 0, 2000);
        let before = stored(&self.session);
        let res = match browse(self.ctx, &self.session, &descs, page) {
            Err(p) => {
                self.v(crate::util::psig(&p), format!("Browse panicked: {} at {}:{}", p.msg, p.file, p.line));
                return;
            }
            Ok(Err(sc)) => {
                self.v("status-differs|service-fault", format!("Browse of existing hubs faulted: {}", sc.name()));
                return;
            }
            Ok(Ok(r)) => r,
        };
        let mut issued = 0usize;
        for (i, r) in res.iter().enumerate() {
            let fref = match &full[i] {
                Paged::Done(_, r, _, _) => r.clone(),
                _ => continue,
            };
            let got = r.references.clone().unwrap_or_default();
            let want_n = fref.len().min(page as usize);
            if got[..] != fref[..want_n] {
                self.v("paged-differs|first-page", format!("first page of {} differs from the head of the unlimited list", descs[i].node));
            }
            if fref.len() > page as usize {
                if r.continuation_point.is_null() {
                    self.v("paged-differs|missing", format!("{} references, page size {}, but no continuation point", fref.len(), page));
                } else {
                    issued += 1;
                    self.cps.push(Cp {
                        id: r.continuation_point.clone(),
                        remaining: fref[want_n..].to_vec(),
                        page: page as usize,
                        state: CpState::Live,
                    });
                }
            } else if !r.continuation_point.is_null() {
                self.v("paged-differs|extra", "continuation point although everything fitted into the first page".to_string());
            }
        }
        let after = stored(&self.session);
        self.account(before, issued, 0, after);
        self.obs("b_browse_ops");
        self.check_bound("Browse");
    }

    /// BrowseNext over the given continuation-point indices (may repeat an index) in one request
    fn op_next(&mut self, idxs: &[usize], tag: &str) {
        self.ops.push(format!("next{}:{}", idxs.len(), tag));
        let ids: Vec<ByteString> = idxs.iter().map(|i| self.cps[*i].id.clone()).collect();
        let before = stored(&self.session);
        let res = match browse_next(self.ctx, &self.session, &ids, false) {
            Err(p) => {
                self.v(crate::util::psig(&p), format!("BrowseNext panicked: {} at {}:{}", p.msg, p.file, p.line));
                return;
            }
            Ok(Err(sc)) => {
                self.v("status-differs|service-fault", format!("BrowseNext faulted: {}", sc.name()));
                return;
            }
            Ok(Ok(r)) => r.unwrap_or_default(),
        };
        if res.len() != ids.len() {
            self.v("browse-next-result-count", format!("{} continuation points, {} results", ids.len(), res.len()));
            return;
        }
        let mut issued = 0usize;
        let mut consumed = 0usize;
        for (k, i) in idxs.iter().enumerate() {
            let r = &res[k];
            let state = self.cps[*i].state;
            self.obs("b_browse_next_items");
            match state {
                CpState::Live => {
                    if r.status_code.is_good() {
                        let cp = &self.cps[*i];
                        let want_n = cp.remaining.len().min(cp.page);
                        let got = r.references.clone().unwrap_or_default();
                        let page = cp.page;
                        let rest = cp.remaining[want_n..].to_vec();
                        if got[..] != cp.remaining[..want_n] {
                            let (kind, detail) = first_difference(&cp.remaining[..want_n], &got);
                            self.v(format!("live-cp-wrong-page|{}", kind), detail);
                        }
                        consumed += 1;
                        self.cps[*i].state = CpState::Used;
                        if !rest.is_empty() {
                            if r.continuation_point.is_null() {
                                self.v("paged-differs|missing", format!("{} references remain but no continuation point", rest.len()));
                            } else {
                                issued += 1;
                                let new_id = r.continuation_point.clone();
                                // a server may hand the same identifier out again; then it is live again
                                self.cps.push(Cp {
                                    id: new_id,
                                    remaining: rest,
                                    page,
                                    state: CpState::Live,
                                });
                            }
                        } else if !r.continuation_point.is_null() {
                            self.v("paged-differs|extra", "continuation point although nothing remains".to_string());
                        }
                        self.obs("b_live_cp_continued");
                    } else if self.eviction_budget > 0 {
                        self.eviction_budget -= 1;
                        self.cps[*i].state = CpState::Evicted;
                        self.obs("b_live_cp_found_evicted");
                    } else {
                        self.v("live-cp-rejected", format!("an unused, unreleased continuation point answered {} with no address-space change and no overflow", r.status_code.name()));
                        self.cps[*i].state = CpState::Evicted;
                    }
                }
                dead => {
                    // the same identifier may have been handed out again for a later page
                    let id = self.cps[*i].id.clone();
                    let reissued_live = self.cps.iter().any(|c| c.id == id && c.state == CpState::Live);
                    if reissued_live {
                        continue;
                    }
                    let answered = r.status_code.is_good() || r.references.as_ref().map(|v| !v.is_empty()).unwrap_or(false);
                    if answered {
                        let sig = match dead {
                            CpState::Used => "used-cp-answers".to_string(),
                            CpState::Released => "released-cp-answers".to_string(),
                            CpState::Stale(kind) => format!("stale-cp-answers|after-{}", kind),
                            CpState::Evicted => "evicted-cp-answers".to_string(),
                            CpState::Live => unreachable!(),
                        };
                        if dead == CpState::Evicted {
                            // a point we only assumed evicted may in fact still be there: not a violation
                            self.obs("b_assumed_evicted_but_alive");
                        } else {
                            self.v(sig, format!("BrowseNext answered {} with {} references for a continuation point that is {:?}", r.status_code.name(), r.references.as_ref().map(|v| v.len()).unwrap_or(0), dead));
                        }
                    } else {
                        match dead {
                            CpState::Used => self.obs("b_used_cp_refused"),
                            CpState::Released => self.obs("b_released_cp_refused"),
                            CpState::Stale(_) => self.obs("b_stale_cp_refused"),
                            _ => {}
                        }
                    }
                }
            }
        }
        let after = stored(&self.session);
        self.account(before, issued, consumed, after);
        self.check_bound("BrowseNext");
    }

    fn op_release(&mut self, idxs: &[usize]) {
        self.ops.push(format!("release{}", idxs.len()));
        let ids: Vec<ByteString> = idxs.iter().map(|i| self.cps[*i].id.clone()).collect();
        match browse_next(self.ctx, &self.session, &ids, true) {
            Err(p) => self.v(crate::util::psig(&p), format!("BrowseNext(release) panicked: {} at {}:{}", p.msg, p.file, p.line)),
            Ok(Err(sc)) => self.v("release-failed", format!("BrowseNext(release) faulted: {}", sc.name())),
            Ok(Ok(r)) => {
                if r.map(|v| v.iter().any(|x| x.references.as_ref().map(|r| !r.is_empty()).unwrap_or(false))).unwrap_or(false) {
                    self.v("release-returned-references", "BrowseNext with releaseContinuationPoints returned references".to_string());
                }
                for i in idxs {
                    if self.cps[*i].state == CpState::Live {
                        self.cps[*i].state = CpState::Released;
                    }
                }
                self.obs("b_release_ops");
            }
        }
        self.check_bound("release");
    }

    /// A node-management request that is answered Good makes every live point stale
    fn op_edit(&mut self, rng: &mut Rng) {
        let c = rng.below(4);
        self.op_edit_kind(rng, c)
    }

    fn op_edit_kind(&mut self, rng: &mut Rng, choice: u64) {
        let env = &self.ctx.env;
        let editor = env.new_session(true);
        self.serial += 1;
        let kind: &'static str;
        let good: bool;
        let choice = if choice == 2 && self.added_nodes.is_empty() { 0 } else if choice == 3 && self.added_refs.is_empty() { 1 } else { choice };
        match choice {
            0 => {
                kind = "AddNodes";
                let parent = rng.pick(&self.ctx.hubs.spare).clone();
                let id = NodeId::new(env.ns, format!("added_{}_{}", std::process::id(), NodeId::next_numeric(0)));
                let attrs = ObjectAttributes {
                    specified_attributes: (AttributesMask::DISPLAY_NAME | AttributesMask::DESCRIPTION | AttributesMask::EVENT_NOTIFIER | AttributesMask::WRITE_MASK | AttributesMask::USER_WRITE_MASK).bits(),
                    display_name: LocalizedText::from("added"),
                    description: LocalizedText::from("added"),
                    write_mask: 0,
                    user_write_mask: 0,
                    event_notifier: 0,
                };
                let req = AddNodesRequest {
                    request_header: env::rh(),
                    nodes_to_add: Some(vec![AddNodesItem {
                        parent_node_id: ExpandedNodeId::new(parent),
                        reference_type_id: ReferenceTypeId::Organizes.into(),
                        requested_new_node_id: ExpandedNodeId::new(id.clone()),
                        // namespace 0: AddNodes panics on any other browse-name namespace (reported under C33), and this
                        // workload is about the continuation points, not about AddNodes
                        browse_name: QualifiedName::new(0, format!("added{}", self.serial)),
                        node_class: NodeClass::Object,
                        node_attributes: ExtensionObject::from_encodable(ObjectId::ObjectAttributes_Encoding_DefaultBinary, &attrs),
                        type_definition: ExpandedNodeId::new(NodeId::from(&ObjectTypeId::BaseObjectType)),
                    }]),
                };
                let r = catch(|| hooks::add_nodes(env.server_state.clone(), editor.clone(), env.address_space.clone(), &req));
                good = match r {
                    Ok(SupportedMessage::AddNodesResponse(r)) => r.results.map(|v| v.iter().all(|x| x.status_code.is_good())).unwrap_or(false),
                    Ok(_) => false,
                    Err(p) => {
                        self.v(crate::util::psig(&p), format!("AddNodes panicked: {} at {}:{}", p.msg, p.file, p.line));
                        false
                    }
                };
                if good {
                    self.added_nodes.push(id);
                }
            }
            1 => {
                kind = "AddReferences";
                let a = rng.pick(&self.ctx.hubs.spare).clone();
                let mut b = rng.pick(&self.ctx.hubs.spare).clone();
                if a == b {
                    b = self.ctx.hubs.folder.clone();
                }
                let req = AddReferencesRequest {
                    request_header: env::rh(),
                    references_to_add: Some(vec![AddReferencesItem {
                        source_node_id: a.clone(),
                        reference_type_id: ReferenceTypeId::HasEventSource.into(),
                        is_forward: true,
                        target_server_uri: UAString::null(),
                        target_node_id: ExpandedNodeId::new(b.clone()),
                        target_node_class: NodeClass::Object,
                    }]),
                };
                let r = catch(|| hooks::add_references(env.server_state.clone(), editor.clone(), env.address_space.clone(), &req));
                good = match r {
                    Ok(SupportedMessage::AddReferencesResponse(r)) => r.results.map(|v| v.iter().all(|x| x.is_good())).unwrap_or(false),
                    Ok(_) => false,
                    Err(p) => {
                        self.v(crate::util::psig(&p), format!("AddReferences panicked: {} at {}:{}", p.msg, p.file, p.line));
                        false
                    }
                };
                if good {
                    self.added_refs.push((a, b));
                }
            }
            2 => {
                kind = "DeleteNodes";
                let id = self.added_nodes.pop().unwrap();
                let req = DeleteNodesRequest {
                    request_header: env::rh(),
                    nodes_to_delete: Some(vec![DeleteNodesItem {
                        node_id: id,
                        delete_target_references: true,
                    }]),
                };
                let r = catch(|| hooks::delete_nodes(env.server_state.clone(), editor.clone(), env.address_space.clone(), &req));
                good = match r {
                    Ok(SupportedMessage::DeleteNodesResponse(r)) => r.results.map(|v| v.iter().all(|x| x.is_good())).unwrap_or(false),
                    Ok(_) => false,
                    Err(p) => {
                        self.v(crate::util::psig(&p), format!("DeleteNodes panicked: {} at {}:{}", p.msg, p.file, p.line));
                        false
                    }
                };
            }
            _ => {
                kind = "DeleteReferences";
                let (a, b) = self.added_refs.pop().unwrap();
                let req = DeleteReferencesRequest {
                    request_header: env::rh(),
                    references_to_delete: Some(vec![DeleteReferencesItem {
                        source_node_id: a,
                        reference_type_id: ReferenceTypeId::HasEventSource.into(),
                        is_forward: true,
                        target_node_id: ExpandedNodeId::new(b),
                        delete_bidirectional: false,
                    }]),
                };
                let r = catch(|| hooks::delete_references(env.server_state.clone(), editor.clone(), env.address_space.clone(), &req));
                good = match r {
                    Ok(SupportedMessage::DeleteReferencesResponse(r)) => r.results.map(|v| v.iter().all(|x| x.is_good())).unwrap_or(false),
                    Ok(_) => false,
                    Err(p) => {
                        self.v(crate::util::psig(&p), format!("DeleteReferences panicked: {} at {}:{}", p.msg, p.file, p.line));
                        false
                    }
                };
            }
        }
        self.ops.push(format!("edit:{}:{}", kind, if good { "good" } else { "bad" }));
        if good {
            self.obs("b_edits_good");
            for c in self.cps.iter_mut() {
                if c.state == CpState::Live {
                    c.state = CpState::Stale(kind);
                    self.stale_pending += 1;
                }
            }
        }
    }
}

fn run_history(ctx: &Ctx, hist_seed: u64, shape: u64) -> (Vec<String>, Vec<(String, String)>, std::collections::BTreeMap<&'static str, u64>) {
    let mut rng = Rng::new(hist_seed);
    let mut h = Hist {
        ctx,
        session: ctx.env.new_session(false),
        cps: Vec::new(),
        eviction_budget: 0,
        stale_pending: 0,
        ops: Vec::new(),
        added_nodes: Vec::new(),
        added_refs: Vec::new(),
        serial: hist_seed & 0xffff,
        violations: Vec::new(),
        obs: Default::default(),
    };
    if shape >= 10 {
        // directed minimal histories: [add first for the delete kinds,] Browse leaving a point, one edit, BrowseNext
        let kind = shape - 10;
        if kind >= 2 {
            h.op_edit_kind(&mut rng, kind - 2);
        }
        h.op_browse(&mut rng, 1);
        h.op_edit_kind(&mut rng, kind);
        if !h.cps.is_empty() {
            h.op_next(&[0], "after-edit");
        }
        return (h.ops, h.violations, h.obs);
    }
    let steps = 6 + rng.usize(30);
    // shape 0: free mix; 1: overflow (more points than the bound); 2: edit-heavy; 3: reuse-heavy
    if shape == 1 {
        let want = ctx.announced_max.max(4) + 1 + rng.usize(12);
        let mut left = want;
        while left > 0 {
            let k = left.min(1 + rng.usize(30));
            h.op_browse(&mut rng, k);
            left -= k;
        }
    }
    for _ in 0..steps {
        let live: Vec<usize> = (0..h.cps.len()).filter(|i| h.cps[*i].state == CpState::Live).collect();
        let dead: Vec<usize> = (0..h.cps.len()).filter(|i| h.cps[*i].state != CpState::Live).collect();
        let roll = rng.below(100);
        let (w_browse, w_next_live, w_next_dead, w_multi, w_release, _w_edit) = match shape {
            2 => (25, 20, 20, 10, 5, 20),
            3 => (20, 25, 35, 12, 6, 2),
            1 => (15, 35, 15, 20, 10, 5),
            _ => (25, 30, 15, 12, 8, 10),
        };
        let mut acc = w_browse;
        if roll < acc || h.cps.is_empty() {
            let k = if rng.chance(1, 5) { 2 + rng.usize(4) } else { 1 };
            h.op_browse(&mut rng, k);
            continue;
        }
        acc += w_next_live;
        if roll < acc {
            if let Some(i) = pick_opt(&mut rng, &live) {
                h.op_next(&[i], "live");
            }
            continue;
        }
        acc += w_next_dead;
        if roll < acc {
            if let Some(i) = pick_opt(&mut rng, &dead) {
                let tag = format!("{:?}", h.cps[i].state);
                h.op_next(&[i], &tag.split('(').next().unwrap_or("dead").to_lowercase());
            }
            continue;
        }
        acc += w_multi;
        if roll < acc {
            // several in one request: a mix, possibly the same live point twice
            let mut idxs = Vec::new();
            let n = 2 + rng.usize(4);
            for _ in 0..n {
                let pool = if rng.chance(2, 3) && !live.is_empty() { &live } else if !dead.is_empty() { &dead } else { &live };
                if let Some(i) = pick_opt(&mut rng, pool) {
                    idxs.push(i);
                }
            }
            let mut tag = "mix".to_string();
            if rng.chance(1, 3) {
                if let Some(i) = pick_opt(&mut rng, &live) {
                    idxs.retain(|x| *x != i);
                    idxs.push(i);
                    idxs.push(i);
                    tag = "twice".to_string();
                }
            }
            // an index that appears twice is live only the first time: handle by splitting the model update
            if !idxs.is_empty() {
                next_with_repeats(&mut h, &idxs, &tag);
            }
            continue;
        }
        acc += w_release;
        if roll < acc {
            let mut idxs = Vec::new();
            for _ in 0..(1 + rng.usize(3)) {
                let pool = if rng.bool() && !live.is_empty() { &live } else { &dead };
                if let Some(i) = pick_opt(&mut rng, pool) {
                    if !idxs.contains(&i) {
                        idxs.push(i);
                    }
                }
            }
            if !idxs.is_empty() {
                h.op_release(&idxs);
            }
            continue;
        }
        h.op_edit(&mut rng);
    }
    // every point that is not live must be refused at the end as well, in one sweep
    let dead: Vec<usize> = (0..h.cps.len()).filter(|i| !matches!(h.cps[*i].state, CpState::Live | CpState::Evicted)).collect();
    for chunk in dead.chunks(10) {
        h.op_next(chunk, "final-dead");
    }
    h.check_bound("end of history");
    (h.ops, h.violations, h.obs)
}

/// op_next assumes every listed live point is live when its turn comes; when the same index is listed
/// twice the second occurrence must be judged as Used. Do that by giving the model the same order of
/// events the server sees: the model update in op_next is sequential over idxs, so it already is.
fn next_with_repeats(h: &mut Hist, idxs: &[usize], tag: &str) {
    h.op_next(idxs, tag);
}

fn pick_opt(rng: &mut Rng, v: &[usize]) -> Option<usize> {
    if v.is_empty() {
        None
    } else {
        Some(v[rng.usize(v.len())])
    }
}

fn shape_class(ops: &[String], shape: u64) -> String {
    // which kinds of events the history contained, and in which order the notable ones first happened
    let mut kinds: Vec<String> = Vec::new();
    for o in ops {
        let k = if o.starts_with("browse") {
            if o.starts_with("browse1x") { "b1".to_string() } else { "bN".to_string() }
        } else if o.starts_with("next") {
            format!("n:{}", o.split(':').nth(1).unwrap_or(""))
        } else if o.starts_with("release") {
            "rel".to_string()
        } else {
            o.clone()
        };
        if !kinds.contains(&k) {
            kinds.push(k);
        }
    }
    format!("B|s{}|{}", shape, kinds.join(","))
}

fn part_b(args: &Args, rep: &mut Report, ctx: &Ctx, rng: &mut Rng) {
    if args.shard == 0 {
        for kind in 0..4u64 {
            for _ in 0..3 {
                let hist_seed = rng.next_u64();
                run_b_case(ctx, rep, hist_seed, 10 + kind);
            }
        }
    }
    let n = args.budget(1200, 30_000);
    for i in 0..n {
        let hist_seed = rng.next_u64();
        let shape = match i % 8 {
            0 => 1,
            1 | 2 => 2,
            3 => 3,
            _ => 0,
        };
        run_b_case(ctx, rep, hist_seed, shape);
    }
}

fn run_b_case(ctx: &Ctx, rep: &mut Report, hist_seed: u64, shape: u64) {
    let mut case = json!({"part": "B", "env_seed": ctx.env_seed.to_string(), "hist_seed": hist_seed.to_string(), "shape": shape, "class": format!("B|s{}", shape)});
    rep.begin_case(&case);
    let (ops, violations, obs) = run_history(ctx, hist_seed, shape);
    case["ops"] = json!(ops);
    rep.case(&shape_class(&ops, shape));
    rep.count("b_histories", 1);
    rep.count("b_history_steps", ops.len() as u64);
    for (k, v) in obs {
        rep.count(k, v);
    }
    for (sig, detail) in violations {
        rep.violation(sig, detail, case.clone());
    }
    rep.sample(case);
}

pub fn run(args: &Args, rep: &mut Report) {
    if let Some(path) = &args.replay {
        let v: Value = match std::fs::read_to_string(path).ok().and_then(|s| serde_json::from_str(&s).ok()) {
            Some(v) => v,
            None => {
                rep.inconclusive("replay file unreadable");
                return;
            }
        };
        let case = if v.get("case").is_some() { v["case"].clone() } else { v.clone() };
        let env_seed: u64 = case["env_seed"].as_str().and_then(|s| s.parse().ok()).unwrap_or(1);
        let ctx = build(env_seed);
        if case["part"] == "A" {
            let descs: Vec<Desc> = case["descs"].as_array().map(|a| a.iter().filter_map(Desc::from_json).collect()).unwrap_or_default();
            if descs.is_empty() {
                rep.inconclusive("replay case has no descriptions");
                return;
            }
            part_a_case(&ctx, rep, &descs, case["page"].as_u64().unwrap_or(1) as u32);
        } else {
            let hist_seed: u64 = case["hist_seed"].as_str().and_then(|s| s.parse().ok()).unwrap_or(1);
            run_b_case(&ctx, rep, hist_seed, case["shape"].as_u64().unwrap_or(0));
        }
        return;
    }
    let env_seed = args.seed ^ 0xC30 ^ ((args.shard as u64) << 32);
    let ctx = build(env_seed);
    if ctx.announced_max == 0 {
        rep.inconclusive("server does not announce MaxBrowseContinuationPoints; the bound cannot be checked");
    }
    if args.shard == 0 {
        rep.count("announced_max_browse_continuation_points", ctx.announced_max as u64);
    }
    let mut rng = Rng::new(env_seed ^ 0x5151);
    part_a(args, rep, &ctx, &mut rng);
    part_b(args, rep, &ctx, &mut rng);
}
