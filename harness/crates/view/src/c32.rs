//! C32: attribute reads and writes obey access rights and never crash. Shadow map of expected
//! values over histories of Write / Read (with and without index ranges) through the real AttributeService.
use crate::common::*;
use crate::env::{self, Env};
use crate::gen;
use opcua::core::supported_message::SupportedMessage;
use opcua::server::prelude::*;
use opcua::server::session::Session;
use opcua::sync::RwLock;
use opcua::verif::server as hooks;
use serde_json::{json, Value};
use std::collections::BTreeMap;
use std::sync::Arc;

/// The declared data type of a generated variable
#[derive(Clone, Copy, Debug, PartialEq)]
enum DKind {
    Builtin(VariantTypeId),
    Number,
    Integer,
    UInteger,
    BaseDataType,
}

fn dt_of(t: VariantTypeId) -> Option<DataTypeId> {
    Some(match t {
        VariantTypeId::Boolean => DataTypeId::Boolean,
        VariantTypeId::SByte => DataTypeId::SByte,
        VariantTypeId::Byte => DataTypeId::Byte,
        VariantTypeId::Int16 => DataTypeId::Int16,
        VariantTypeId::UInt16 => DataTypeId::UInt16,
        VariantTypeId::Int32 => DataTypeId::Int32,
        VariantTypeId::UInt32 => DataTypeId::UInt32,
        VariantTypeId::Int64 => DataTypeId::Int64,
        VariantTypeId::UInt64 => DataTypeId::UInt64,
        VariantTypeId::Float => DataTypeId::Float,
        VariantTypeId::Double => DataTypeId::Double,
        VariantTypeId::String => DataTypeId::String,
        VariantTypeId::DateTime => DataTypeId::DateTime,
        VariantTypeId::Guid => DataTypeId::Guid,
        VariantTypeId::StatusCode => DataTypeId::StatusCode,
        VariantTypeId::ByteString => DataTypeId::ByteString,
        VariantTypeId::XmlElement => DataTypeId::XmlElement,
        VariantTypeId::QualifiedName => DataTypeId::QualifiedName,
        VariantTypeId::LocalizedText => DataTypeId::LocalizedText,
        VariantTypeId::NodeId => DataTypeId::NodeId,
        VariantTypeId::ExpandedNodeId => DataTypeId::ExpandedNodeId,
        VariantTypeId::DataValue => DataTypeId::DataValue,
        VariantTypeId::DiagnosticInfo => DataTypeId::DiagnosticInfo,
        VariantTypeId::Variant => DataTypeId::BaseDataType,
        _ => return None,
    })
}

impl DKind {
    fn data_type(&self) -> DataTypeId {
        match self {
            DKind::Builtin(t) => dt_of(*t).unwrap_or(DataTypeId::BaseDataType),
            DKind::Number => DataTypeId::Number,
            DKind::Integer => DataTypeId::Integer,
            DKind::UInteger => DataTypeId::UInteger,
            DKind::BaseDataType => DataTypeId::BaseDataType,
        }
    }
    fn name(&self) -> String {
        match self {
            DKind::Builtin(t) => format!("{:?}", t),
            o => format!("{:?}", o),
        }
    }
    /// Is a value whose elements have built-in type `t` of this data type or of a subtype of it
    /// (standard type hierarchy of Part 3 / Part 5)
    fn accepts(&self, t: VariantTypeId) -> bool {
        use VariantTypeId::*;
        match self {
            DKind::BaseDataType => true,
            DKind::Builtin(d) => *d == t,
            DKind::Integer => matches!(t, SByte | Int16 | Int32 | Int64),
            DKind::UInteger => matches!(t, Byte | UInt16 | UInt32 | UInt64),
            DKind::Number => matches!(t, SByte | Int16 | Int32 | Int64 | Byte | UInt16 | UInt32 | UInt64 | Float | Double),
        }
    }
}

#[derive(Clone)]
struct VarSpec {
    id: NodeId,
    name: String,
    d: DKind,
    rank: i32,
    ual: u8,
    al: u8,
    write_mask: u32,
    initial: Variant,
    /// what the value looks like, for the class strings
    shape: &'static str,
}

struct Model {
    shadow: Variant,
    ual: u8,
}

struct Ctx {
    env: Env,
    vars: Vec<VarSpec>,
    /// nodes of every class, for attribute totality
    zoo: Vec<(NodeId, &'static str)>,
    session: Arc<RwLock<Session>>,
}

fn arr(t: VariantTypeId, values: Vec<Variant>) -> Variant {
    Variant::Array(Box::new(Array {
        value_type: t,
        values,
        dimensions: None,
    }))
}

fn build() -> Ctx {
    let env = Env::new(false);
    let ns = env.ns;
    let mut specs: Vec<VarSpec> = Vec::new();
    let mut add = |name: &str, d: DKind, rank: i32, ual: u8, al: u8, wm: u32, v: Variant, shape: &'static str| {
        specs.push(VarSpec {
            id: NodeId::new(ns, format!("c32_{}", name)),
            name: name.to_string(),
            d,
            rank,
            ual,
            al,
            write_mask: wm,
            initial: v,
            shape,
        });
    };
    use VariantTypeId as T;
    let b = DKind::Builtin;
    // scalars of every built-in type, read/write
    let mut r = Rng::new(0xC32);
    for t in gen::SCALAR_TYPES.iter().filter(|t| dt_of(**t).is_some() && **t != T::Variant && **t != T::String && **t != T::ByteString) {
        add(&format!("s_{:?}", t), b(*t), -1, 3, 3, 0, gen::scalar_of(&mut r, *t, 0), "scalar");
    }
    // strings: ASCII, 2/3/4-byte UTF-8, empty, null
    add("str_ascii", b(T::String), -1, 3, 3, 0, Variant::from("Hello, OPC UA world"), "str-ascii");
    add("str_latin", b(T::String), -1, 3, 3, 0, Variant::from("héllo wörld ß"), "str-nonascii");
    add("str_cjk", b(T::String), -1, 3, 3, 0, Variant::from("日本語テキスト"), "str-nonascii");
    add("str_emoji", b(T::String), -1, 3, 3, 0, Variant::from("a😀b🎉c"), "str-nonascii");
    add("str_mixed", b(T::String), -1, 3, 3, 0, Variant::from("abc€def"), "str-nonascii");
    add("str_empty", b(T::String), -1, 3, 3, 0, Variant::from(""), "str-empty");
    add("str_null", b(T::String), -1, 3, 3, 0, Variant::String(UAString::null()), "str-null");
    add("str_one", b(T::String), -1, 3, 3, 0, Variant::from("x"), "str-ascii");
    // byte strings
    add("bs_ascii", b(T::ByteString), -1, 3, 3, 0, Variant::ByteString(ByteString::from(b"0123456789".to_vec())), "bs");
    add("bs_bin", b(T::ByteString), -1, 3, 3, 0, Variant::ByteString(ByteString::from(vec![0u8, 0xff, 0x80, 0xc3, 0x28, 0xe2, 0x82])), "bs");
    add("bs_empty", b(T::ByteString), -1, 3, 3, 0, Variant::ByteString(ByteString::from(Vec::<u8>::new())), "bs-empty");
    add("bs_null", b(T::ByteString), -1, 3, 3, 0, Variant::ByteString(ByteString::null()), "bs-null");
    // arrays
    add("a_i32_0", b(T::Int32), 1, 3, 3, 0, arr(T::Int32, vec![]), "arr-0");
    add("a_i32_1", b(T::Int32), 1, 3, 3, 0, arr(T::Int32, vec![Variant::Int32(7)]), "arr-1");
    add("a_i32_5", b(T::Int32), 1, 3, 3, 0, arr(T::Int32, (0..5).map(Variant::Int32).collect()), "arr-n");
    add("a_i32_40", b(T::Int32), 1, 3, 3, 0, arr(T::Int32, (0..40).map(Variant::Int32).collect()), "arr-n");
    add("a_f64_4", b(T::Double), 1, 3, 3, 0, arr(T::Double, vec![Variant::Double(0.5), Variant::Double(f64::NAN), Variant::Double(-0.0), Variant::Double(f64::INFINITY)]), "arr-n");
    add(
        "a_str_4",
        b(T::String),
        1,
        3,
        3,
        0,
        arr(T::String, vec![Variant::from("a"), Variant::from("héllo"), Variant::String(UAString::null()), Variant::from("日本")]),
        "arr-str",
    );
    add("a_bool_3", b(T::Boolean), 1, 3, 3, 0, arr(T::Boolean, vec![Variant::Boolean(true), Variant::Boolean(false), Variant::Boolean(true)]), "arr-n");
    add("a_byte_6", b(T::Byte), 1, 3, 3, 0, arr(T::Byte, (1..=6u8).map(Variant::Byte).collect()), "arr-byte");
    add("a_byte_any", b(T::Byte), -2, 3, 3, 0, arr(T::Byte, (1..=3u8).map(Variant::Byte).collect()), "arr-byte");
    add("a_byte_scalar", b(T::Byte), -1, 3, 3, 0, Variant::Byte(9), "scalar");
    add("a_bs_2", b(T::ByteString), 1, 3, 3, 0, arr(T::ByteString, vec![Variant::ByteString(ByteString::from(vec![1u8, 2])), Variant::ByteString(ByteString::null())]), "arr-n");
    add(
        "a_i32_2x3",
        b(T::Int32),
        2,
        3,
        3,
        0,
        Variant::Array(Box::new(Array {
            value_type: T::Int32,
            values: (0..6).map(Variant::Int32).collect(),
            dimensions: Some(vec![2, 3]),
        })),
        "arr-multidim",
    );
    // abstract data types
    add("n_number", DKind::Number, -1, 3, 3, 0, Variant::Double(1.5), "scalar-abstract");
    add("n_integer", DKind::Integer, -1, 3, 3, 0, Variant::Int16(-3), "scalar-abstract");
    add("n_uinteger", DKind::UInteger, -1, 3, 3, 0, Variant::UInt64(3), "scalar-abstract");
    add("n_base", DKind::BaseDataType, -2, 3, 3, 0, Variant::from("anything"), "scalar-abstract");
    add("n_number_arr", DKind::Number, 1, 3, 3, 0, arr(T::Int32, (0..4).map(Variant::Int32).collect()), "arr-abstract");
    add("n_base_arr", DKind::BaseDataType, 1, 3, 3, 0, arr(T::Variant, (0..3).map(|i| Variant::Variant(Box::new(Variant::Int32(i)))).collect()), "arr-abstract");
    add("n_empty", b(T::Int32), -1, 3, 3, 0, Variant::Empty, "empty");
    // access level grid on three shapes
    for ual in 0..4u8 {
        for al in 0..4u8 {
            add(&format!("acc_i32_{}_{}", ual, al), b(T::Int32), -1, ual, al, 0, Variant::Int32(100 + ual as i32 * 10 + al as i32), "scalar");
            add(&format!("acc_str_{}_{}", ual, al), b(T::String), -1, ual, al, 0, Variant::from("access"), "str-ascii");
            add(&format!("acc_arr_{}_{}", ual, al), b(T::Int32), 1, ual, al, 0, arr(T::Int32, (0..4).map(Variant::Int32).collect()), "arr-n");
        }
    }
    // history bits and everything set
    add("acc_hist", b(T::Int32), -1, 0x0c, 0x0c, 0, Variant::Int32(1), "scalar");
    add("acc_all", b(T::Int32), -1, 0xff, 0xff, 0, Variant::Int32(2), "scalar");
    add("acc_write_only_hist", b(T::Int32), -1, 0x0a, 0x0f, 0, Variant::Int32(3), "scalar");
    // variables whose access level attributes may be written through the service
    let wm = (WriteMask::ACCESS_LEVEL | WriteMask::USER_ACCESS_LEVEL).bits();
    add("wm_i32", b(T::Int32), -1, 3, 3, wm, Variant::Int32(5), "scalar");
    add("wm_arr", b(T::Int32), 1, 1, 1, wm, arr(T::Int32, (0..3).map(Variant::Int32).collect()), "arr-n");
    add("wm_str", b(T::String), -1, 0, 0, wm, Variant::from("wm"), "str-ascii");
    drop(add);

    let folder = NodeId::new(ns, "c32");
    let mut zoo: Vec<(NodeId, &'static str)> = Vec::new();
    {
        let mut a = env.address_space.write();
        ObjectBuilder::new(&folder, QualifiedName::new(ns, "c32"), "c32")
            .is_folder()
            .organized_by(ObjectId::ObjectsFolder)
            .insert(&mut a);
        for s in &specs {
            let mut v = Variable::new_data_value(&s.id, QualifiedName::new(ns, s.name.clone()), s.name.clone(), s.d.data_type(), Some(s.rank), None, Variant::Empty);
            v.set_user_access_level(UserAccessLevel::from_bits_truncate(s.ual));
            v.set_access_level(AccessLevel::from_bits_truncate(s.al));
            if s.write_mask != 0 {
                v.set_write_mask(WriteMask::from_bits_truncate(s.write_mask));
            }
            let now = DateTime::now();
            let _ = v.set_value_direct(s.initial.clone(), StatusCode::Good, &now, &now);
            a.insert(v, Some(&[(&folder, &ReferenceTypeId::Organizes, ReferenceDirection::Inverse)]));
        }
        // one node of every other class, with no write mask and with every bit
        for (k, wmask) in [(0u32, 0u32), (1, 0xffff_ffff)] {
            let id = |n: &str| NodeId::new(ns, format!("zoo_{}_{}", n, k));
            let mut o = Object::new(&id("object"), QualifiedName::new(ns, "zo"), "zo", EventNotifier::empty());
            let mut ot = ObjectType::new(&id("objecttype"), QualifiedName::new(ns, "zot"), "zot", false);
            let mut rt = ReferenceType::new(&id("reftype"), QualifiedName::new(ns, "zrt"), "zrt", Some(LocalizedText::from("inv")), false, false);
            let mut vt = VariableType::new(&id("vartype"), QualifiedName::new(ns, "zvt"), "zvt", DataTypeId::Int32.into(), false, -1);
            let mut dt = DataType::new(&id("datatype"), QualifiedName::new(ns, "zdt"), "zdt", false);
            let mut vw = View::new(&id("view"), QualifiedName::new(ns, "zv"), "zv", EventNotifier::empty(), false);
            let mut m = opcua::server::address_space::method::Method::new(&id("method"), QualifiedName::new(ns, "zm"), "zm", true, true);
            m.set_callback(Box::new(env::Echo));
            if wmask != 0 {
                o.set_write_mask(WriteMask::from_bits_truncate(wmask));
                ot.set_write_mask(WriteMask::from_bits_truncate(wmask));
                rt.set_write_mask(WriteMask::from_bits_truncate(wmask));
                vt.set_write_mask(WriteMask::from_bits_truncate(wmask));
                dt.set_write_mask(WriteMask::from_bits_truncate(wmask));
                vw.set_write_mask(WriteMask::from_bits_truncate(wmask));
                m.set_write_mask(WriteMask::from_bits_truncate(wmask));
            }
            let refs = [(&folder, &ReferenceTypeId::Organizes, ReferenceDirection::Inverse)];
            a.insert(o, Some(&refs));
            a.insert(ot, Some(&refs));
            a.insert(rt, Some(&refs));
            a.insert(vt, Some(&refs));
            a.insert(dt, Some(&refs));
            a.insert(vw, Some(&refs));
            a.insert(m, Some(&refs));
            for (n, c) in [("object", "Object"), ("objecttype", "ObjectType"), ("reftype", "ReferenceType"), ("vartype", "VariableType"), ("datatype", "DataType"), ("view", "View"), ("method", "Method")] {
                zoo.push((id(n), c));
            }
            // a variable of the zoo: every attribute may be written on it, it is not shadowed
            let mut zv = Variable::new_data_value(&id("variable"), QualifiedName::new(ns, "zvar"), "zvar", DataTypeId::Int32, Some(-1), None, Variant::Int32(1));
            zv.set_user_access_level(UserAccessLevel::from_bits_truncate(3));
            zv.set_access_level(AccessLevel::from_bits_truncate(3));
            if wmask != 0 {
                zv.set_write_mask(WriteMask::from_bits_truncate(wmask));
            }
            a.insert(zv, Some(&refs));
            zoo.push((id("variable"), "Variable"));
        }
        zoo.push((ObjectId::Server.into(), "Object"));
        zoo.push((VariableId::Server_ServerStatus_CurrentTime.into(), "Variable"));
        zoo.push((VariableId::Server_NamespaceArray.into(), "Variable"));
        zoo.push((VariableId::Server_ServerStatus.into(), "Variable"));
        zoo.push((NodeId::new(ns, "does-not-exist"), "Missing"));
        zoo.push((NodeId::null(), "Missing"));
    }
    let session = env.new_session(false);
    Ctx {
        env,
        vars: specs,
        zoo,
        session,
    }
}

fn reset(ctx: &Ctx) -> Vec<Model> {
    let mut a = ctx.env.address_space.write();
    let now = DateTime::now();
    ctx.vars
        .iter()
        .map(|s| {
            if let Some(v) = a.find_variable_mut(s.id.clone()) {
                let _ = v.set_value_direct(s.initial.clone(), StatusCode::Good, &now, &now);
                v.set_user_access_level(UserAccessLevel::from_bits_truncate(s.ual));
                v.set_access_level(AccessLevel::from_bits_truncate(s.al));
            }
            Model {
                shadow: s.initial.clone(),
                ual: s.ual,
            }
        })
        .collect()
}

fn stored(ctx: &Ctx, id: &NodeId) -> Option<Variant> {
    let a = ctx.env.address_space.read();
    a.find_variable(id.clone())
        .map(|v| v.value(TimestampsToReturn::Neither, NumericRange::None, &QualifiedName::null(), 0.0))
        .and_then(|dv| dv.value)
}

fn enc(v: &Variant) -> Vec<u8> {
    v.encode_to_vec()
}

fn same(a: &Variant, b: &Variant) -> bool {
    enc(a) == enc(b)
}

/// The server stores a ByteString written to a Byte array variable as an array of Byte (Part 4 allows
/// the two to be used interchangeably); compare those modulo that representation.
fn canon(v: &Variant, spec: &VarSpec) -> Variant {
    if spec.d == DKind::Builtin(VariantTypeId::Byte) && matches!(spec.rank, -3 | -2 | 1) {
        if let Variant::ByteString(bs) = v {
            let bytes = bs.value.clone().unwrap_or_default();
            return arr(VariantTypeId::Byte, bytes.into_iter().map(Variant::Byte).collect());
        }
    }
    v.clone()
}

fn elem_type(v: &Variant) -> Option<VariantTypeId> {
    match v {
        Variant::Empty => None,
        Variant::Array(a) => Some(a.value_type),
        o => Some(o.type_id()),
    }
}

/// Type compatibility of a written value with a variable, by the standard data type hierarchy. Value
/// rank is not judged (see the report: the server accepts arrays for scalar variables).
fn compatible(v: &Variant, spec: &VarSpec) -> Option<bool> {
    let t = elem_type(v)?;
    if t == VariantTypeId::ExtensionObject {
        // structures: no generated variable has a structure data type except BaseDataType
        return Some(spec.d == DKind::BaseDataType);
    }
    if spec.d.accepts(t) {
        return Some(true);
    }
    // ByteString for a Byte array
    if t == VariantTypeId::ByteString && !matches!(v, Variant::Array(_)) && spec.d == DKind::Builtin(VariantTypeId::Byte) && matches!(spec.rank, -3 | -2 | 1 | 0) {
        return Some(true);
    }
    Some(false)
}

/// The harness' own reading of a one-dimensional index range: "n" or "n:m" with n < m
fn parse_range(s: &str) -> Option<(u64, u64)> {
    let num = |x: &str| -> Option<u64> {
        if x.is_empty() || x.len() > 10 || !x.bytes().all(|b| b.is_ascii_digit()) {
            return None;
        }
        let v: u64 = x.parse().ok()?;
        if v > u32::MAX as u64 {
            None
        } else {
            Some(v)
        }
    };
    match s.split_once(':') {
        None => num(s).map(|n| (n, n)),
        Some((a, b)) => {
            let (a, b) = (num(a)?, num(b)?);
            if a < b {
                Some((a, b))
            } else {
                None
            }
        }
    }
}

/// Elements of a value that index ranges address unambiguously: one-dimensional arrays, ASCII strings,
/// byte strings. None for everything else (scalars, multi-dimensional arrays, non-ASCII strings, nulls).
fn elements(v: &Variant) -> Option<(Vec<Vec<u8>>, &'static str)> {
    match v {
        Variant::Array(a) => {
            if a.dimensions.as_ref().map(|d| d.len() > 1).unwrap_or(false) {
                None
            } else {
                Some((a.values.iter().map(enc).collect(), "array"))
            }
        }
        Variant::String(s) => {
            let s = s.value().as_ref()?.clone();
            if s.is_ascii() {
                Some((s.bytes().map(|b| vec![b]).collect(), "string"))
            } else {
                None
            }
        }
        Variant::ByteString(b) => b.value.as_ref().map(|b| (b.iter().map(|x| vec![*x]).collect(), "bytestring")),
        _ => None,
    }
}

const RANGE_JUNK: &[&str] = &[
    " ", "-1", "a", "1:", ":1", "1:1", "2:1", "0:0", "1,2", "0:1,0:1", "0,0", "1:2:3", "٣", "0x1", "+1", " 1", "1 ", "1;2", "00000000001", "4294967296", "0:4294967296", "4294967295",
    "4294967294:4294967295", "0:4294967295", "99999999999999999999", "1,", ",", "1,1,1,1", "0:1,", "１",
];

fn gen_range(rng: &mut Rng, len: usize) -> String {
    let l = len as i64;
    match rng.below(14) {
        0 => RANGE_JUNK[rng.usize(RANGE_JUNK.len())].to_string(),
        1 => "0".to_string(),
        2 => format!("{}", (l - 1).max(0)),
        3 => format!("{}", l),
        4 => format!("{}", l + 1),
        5 => format!("0:{}", (l - 1).max(1)),
        6 => format!("0:{}", l.max(1)),
        7 => format!("{}:{}", (l - 1).max(0), l.max(1) + rng.range(0, 3)),
        8 => format!("{}:{}", l, l + 1 + rng.range(0, 5)),
        9 => {
            let a = rng.range(0, (l - 1).max(0));
            let b = rng.range(a + 1, (l + 2).max(a + 1));
            format!("{}:{}", a, b)
        }
        10 => format!("{}", rng.range(0, l + 1)),
        11 => {
            // leading zeros are permitted by the grammar
            format!("0{}:00{}", rng.range(0, 2), rng.range(3, 6))
        }
        12 => format!("{}:{}", rng.range(0, 3), *rng.pick(&[4294967295u64, 4294967294, 65536, 2147483648])),
        _ => format!("{}", *rng.pick(&[4294967295u64, 2147483647, 2147483648, 65535, 255, 256])),
    }
}

fn gen_value_for(rng: &mut Rng, spec: &VarSpec, cur: &Variant, span: Option<usize>) -> (Variant, &'static str) {
    use VariantTypeId as T;
    let own_t: T = match spec.d {
        DKind::Builtin(t) => t,
        DKind::Number => *rng.pick(&[T::Int32, T::Double, T::Byte, T::Int64]),
        DKind::Integer => *rng.pick(&[T::SByte, T::Int16, T::Int32, T::Int64]),
        DKind::UInteger => *rng.pick(&[T::Byte, T::UInt16, T::UInt32, T::UInt64]),
        DKind::BaseDataType => *rng.pick(gen::SCALAR_TYPES),
    };
    let cur_len = match cur {
        Variant::Array(a) => a.values.len(),
        _ => 3,
    };
    let arr_len = |rng: &mut Rng| -> usize {
        match span {
            Some(s) => match rng.below(6) {
                0 => s.saturating_sub(1),
                1 => s + 1,
                2 => 0,
                _ => s,
            },
            None => match rng.below(5) {
                0 => 0,
                1 => 1,
                2 => cur_len + 1,
                _ => cur_len,
            },
        }
    };
    let other_t = |rng: &mut Rng| -> T {
        loop {
            let t = *rng.pick(gen::SCALAR_TYPES);
            if t != own_t {
                return t;
            }
        }
    };
    let is_array_var = matches!(cur, Variant::Array(_)) || spec.rank >= 1;
    match rng.below(20) {
        0..=8 => {
            // matching type, matching shape
            if is_array_var || span.is_some() && !matches!(own_t, T::String | T::ByteString) {
                let n = arr_len(rng);
                (arr(own_t, (0..n).map(|_| gen::scalar_of(rng, own_t, 1)).collect()), "match-array")
            } else if own_t == T::String && span.is_some() {
                let n = arr_len(rng);
                (Variant::from((0..n).map(|_| (b'a' + rng.below(26) as u8) as char).collect::<String>()), "match-string")
            } else if own_t == T::ByteString && span.is_some() {
                let n = arr_len(rng);
                (Variant::ByteString(ByteString::from(rng.bytes(n))), "match-bytestring")
            } else {
                (gen::scalar_of(rng, own_t, 1), "match-scalar")
            }
        }
        9 | 10 => {
            // matching type, other shape (array for a scalar variable and the reverse)
            if is_array_var {
                (gen::scalar_of(rng, own_t, 1), "match-type-scalar-for-array")
            } else {
                let n = arr_len(rng);
                (arr(own_t, (0..n).map(|_| gen::scalar_of(rng, own_t, 1)).collect()), "match-type-array-for-scalar")
            }
        }
        11..=13 => {
            let t = other_t(rng);
            (gen::scalar_of(rng, t, 1), "other-scalar")
        }
        14 | 15 => {
            let t = other_t(rng);
            let n = arr_len(rng).max(1);
            (arr(t, (0..n).map(|_| gen::scalar_of(rng, t, 1)).collect()), "other-array")
        }
        16 => (Variant::Empty, "empty"),
        17 => {
            // byte string for byte arrays and for everything else
            (Variant::ByteString(gen::byte_string(rng, 8)), "bytestring")
        }
        18 => {
            // multi-dimensional of own type
            let dims = vec![2u32, 1 + rng.below(3) as u32];
            let n = (dims[0] * dims[1]) as usize;
            (
                Variant::Array(Box::new(Array {
                    value_type: own_t,
                    values: (0..n).map(|_| gen::scalar_of(rng, own_t, 1)).collect(),
                    dimensions: Some(dims),
                })),
                "match-multidim",
            )
        }
        _ => (gen::variant(rng, 2), "arbitrary"),
    }
}

fn do_read(ctx: &Ctx, items: Vec<ReadValueId>, max_age: f64, ttr: TimestampsToReturn) -> Result<Result<Vec<DataValue>, StatusCode>, PanicInfo> {
    let req = ReadRequest {
        request_header: env::rh(),
        max_age,
        timestamps_to_return: ttr,
        nodes_to_read: Some(items),
    };
    catch(|| match hooks::read(ctx.env.server_state.clone(), ctx.session.clone(), ctx.env.address_space.clone(), &req) {
        SupportedMessage::ReadResponse(r) => Ok(r.results.unwrap_or_default()),
        SupportedMessage::ServiceFault(f) => Err(f.response_header.service_result),
        _ => Err(StatusCode::BadUnexpectedError),
    })
}

fn do_write(ctx: &Ctx, items: Vec<WriteValue>) -> Result<Result<Vec<StatusCode>, StatusCode>, PanicInfo> {
    let req = WriteRequest {
        request_header: env::rh(),
        nodes_to_write: Some(items),
    };
    catch(|| match hooks::write(ctx.env.server_state.clone(), ctx.session.clone(), ctx.env.address_space.clone(), &req) {
        SupportedMessage::WriteResponse(r) => Ok(r.results.unwrap_or_default()),
        SupportedMessage::ServiceFault(f) => Err(f.response_header.service_result),
        _ => Err(StatusCode::BadUnexpectedError),
    })
}

fn short(v: &Variant) -> String {
    let s = format!("{:?}", v);
    if s.len() > 160 {
        let mut e = 160;
        while !s.is_char_boundary(e) {
            e -= 1;
        }
        format!("{}…", &s[..e])
    } else {
        s
    }
}

struct Hist<'a> {
    ctx: &'a Ctx,
    models: Vec<Model>,
    ops: Vec<Value>,
    violations: Vec<(String, String)>,
    obs: BTreeMap<String, u64>,
    classes: Vec<String>,
}

impl<'a> Hist<'a> {
    fn obs(&mut self, k: &str) {
        *self.obs.entry(k.to_string()).or_insert(0) += 1;
    }
    fn v(&mut self, sig: impl Into<String>, detail: impl Into<String>) {
        self.violations.push((sig.into(), detail.into()));
    }

    /// After a write item: the stored value (and what the Read service returns) against the expectation
    fn check_after_write(&mut self, i: usize, expected: &Variant, what: &str, sig_kind: &str, wdesc: &str) {
        let spec = self.ctx.vars[i].clone();
        let st = stored(self.ctx, &spec.id).unwrap_or(Variant::Empty);
        if !same(&st, expected) {
            self.v(
                format!("{}|{}|{}", sig_kind, spec.shape, what),
                format!("variable {} ({}): {}; stored value now {} expected {}", spec.name, spec.d.name(), wdesc, short(&st), short(expected)),
            );
            // continue from what is really there
            self.models[i].shadow = st;
            return;
        }
        if self.models[i].ual & 1 != 0 {
            let item = ReadValueId {
                node_id: spec.id.clone(),
                attribute_id: AttributeId::Value as u32,
                index_range: UAString::null(),
                data_encoding: QualifiedName::null(),
            };
            match do_read(self.ctx, vec![item], 0.0, TimestampsToReturn::Neither) {
                Err(p) => self.v(crate::util::psig(&p), format!("Read of {} panicked: {} at {}:{}", spec.name, p.msg, p.file, p.line)),
                Ok(Err(sc)) => self.v("read-faulted", format!("plain Read faulted with {}", sc.name())),
                Ok(Ok(r)) => {
                    let got = r.get(0).and_then(|d| d.value.clone()).unwrap_or(Variant::Empty);
                    if !same(&got, expected) {
                        self.v(
                            format!("{}|{}|{}|via-read", sig_kind, spec.shape, what),
                            format!("variable {}: {}; Read returns {} expected {}", spec.name, wdesc, short(&got), short(expected)),
                        );
                    } else {
                        self.obs("reads_confirming_shadow");
                    }
                }
            }
        }
    }

    fn op_write(&mut self, rng: &mut Rng, with_range: bool) {
        let n_items = if rng.chance(1, 5) { 2 + rng.usize(4) } else { 1 };
        let mut items = Vec::new();
        let mut meta = Vec::new();
        for _ in 0..n_items {
            let i = rng.usize(self.ctx.vars.len());
            let spec = &self.ctx.vars[i];
            let cur = self.models[i].shadow.clone();
            let len = elements(&cur).map(|e| e.0.len()).unwrap_or(match &cur {
                Variant::String(s) => s.as_ref().len(),
                Variant::Array(a) => a.values.len(),
                _ => 1,
            });
            let range = if with_range { gen_range(rng, len) } else { String::new() };
            let span = parse_range(&range).map(|(a, b)| (b - a + 1).min(64) as usize);
            let (value, vkind) = gen_value_for(rng, spec, &cur, if with_range { span.or(Some(1)) } else { None });
            let dv = match rng.below(8) {
                0 => DataValue {
                    value: Some(value.clone()),
                    status: Some(StatusCode::BadUnexpectedError),
                    source_timestamp: Some(DateTime::now()),
                    source_picoseconds: Some(1),
                    server_timestamp: Some(DateTime::from(0i64)),
                    server_picoseconds: None,
                },
                1 => DataValue {
                    value: None,
                    status: None,
                    source_timestamp: None,
                    source_picoseconds: None,
                    server_timestamp: None,
                    server_picoseconds: None,
                },
                _ => DataValue::value_only(value.clone()),
            };
            items.push(WriteValue {
                node_id: spec.id.clone(),
                attribute_id: AttributeId::Value as u32,
                index_range: if with_range { UAString::from(range.clone()) } else if rng.chance(1, 10) { UAString::from("") } else { UAString::null() },
                value: dv.clone(),
            });
            meta.push((i, range, value, vkind, dv.value.is_some()));
        }
        self.ops.push(json!({"op": if with_range {"write-range"} else {"write"}, "items": meta.iter().map(|m| json!({"var": self.ctx.vars[m.0].name, "range": m.1, "value": short(&m.2), "kind": m.3, "has_value": m.4})).collect::<Vec<_>>()}));
        let res = match do_write(self.ctx, items) {
            Err(p) => {
                let m = &meta[0];
                self.classes.push(format!("W|panic|{}|{}", self.ctx.vars[m.0].shape, m.3));
                self.v(crate::util::psig(&p), format!("Write panicked: {} at {}:{} (first item: variable {} range '{}' value {})", p.msg, p.file, p.line, self.ctx.vars[m.0].name, m.1, short(&m.2)));
                // resynchronise every touched shadow
                for m in &meta {
                    if let Some(st) = stored(self.ctx, &self.ctx.vars[m.0].id) {
                        self.models[m.0].shadow = st;
                    }
                }
                return;
            }
            Ok(Err(sc)) => {
                self.v("write-faulted", format!("Write of {} items faulted with {}", meta.len(), sc.name()));
                return;
            }
            Ok(Ok(r)) => r,
        };
        if res.len() != meta.len() {
            self.v("write-result-count", format!("{} items, {} results", meta.len(), res.len()));
            return;
        }
        // items are applied in order; evaluate them in order against the evolving shadow. Because a
        // later item may touch the same variable, only the final state can be compared with what is
        // stored: do the comparison per item only when the variable occurs once in the request.
        for (k, (i, range, value, vkind, has_value)) in meta.iter().enumerate() {
            let i = *i;
            let spec = self.ctx.vars[i].clone();
            let status = res[k];
            let unique = meta.iter().filter(|m| m.0 == i).count() == 1;
            let writable = self.models[i].ual & 2 != 0;
            let old = self.models[i].shadow.clone();
            let rkind = if !with_range { "norange" } else if parse_range(range).is_some() { "range" } else { "junkrange" };
            self.classes.push(format!(
                "W|{}|{}|{}|{}|w{}|{}",
                spec.shape,
                spec.d.name(),
                vkind,
                rkind,
                writable as u8,
                if status.is_good() { "good".to_string() } else { status.name().to_string() }
            ));
            self.obs("write_items");
            let wdesc = format!("Write(range '{}', value {}) answered {}", range, short(value), status.name());
            if status.is_good() {
                self.obs(if with_range { "range_writes_accepted" } else { "writes_accepted" });
                if !writable {
                    self.v(
                        format!("write-accepted-without-write-access|ual{}", self.models[i].ual & 3),
                        format!("variable {} has user access level {:#x} (access level {:#x}); {}", spec.name, self.models[i].ual, spec.al, wdesc),
                    );
                }
                if !*has_value {
                    self.v("write-accepted-without-value", format!("variable {}: a WriteValue without a value answered Good", spec.name));
                }
                match compatible(value, &spec) {
                    Some(false) => self.v(
                        format!("write-accepted-type-mismatch|{}{}", if matches!(value, Variant::Array(_)) { "array" } else { "scalar" }, if with_range { "|range" } else { "" }),
                        format!("variable {} of data type {} accepted a value of type {:?}: {}", spec.name, spec.d.name(), elem_type(value).unwrap(), wdesc),
                    ),
                    Some(true) => {
                        let is_arr = matches!(value, Variant::Array(_));
                        if !with_range && ((is_arr && spec.rank == -1) || (!is_arr && spec.rank >= 1 && !matches!(value, Variant::ByteString(_)))) {
                            self.obs("note_value_rank_mismatch_accepted");
                        }
                    }
                    None => {}
                }
                // expected new value
                let expected: Option<Variant> = if !*has_value {
                    None
                } else if !with_range || range.is_empty() {
                    Some(canon(value, &spec))
                } else if let Some((lo, hi)) = parse_range(range) {
                    let w = canon(value, &spec);
                    match (&old, &w) {
                        (Variant::Array(oa), Variant::Array(wa)) if oa.dimensions.as_ref().map(|d| d.len() <= 1).unwrap_or(true) => {
                            let mut na = oa.clone();
                            for (j, e) in wa.values.iter().enumerate() {
                                let idx = lo as usize + j;
                                if idx as u64 <= hi && idx < na.values.len() {
                                    na.values[idx] = e.clone();
                                }
                            }
                            Some(Variant::Array(na))
                        }
                        _ => None,
                    }
                } else {
                    None
                };
                match expected {
                    Some(e) => {
                        self.models[i].shadow = e.clone();
                        if unique {
                            self.check_after_write(i, &e, rkind, "good-write-not-observed", &wdesc);
                        }
                    }
                    None => {
                        // accepted, but the harness has no model for what it means: follow the server
                        self.obs("good_writes_without_model");
                        if let Some(st) = stored(self.ctx, &spec.id) {
                            self.models[i].shadow = st;
                        }
                    }
                }
            } else {
                self.obs("writes_rejected");
                if unique {
                    self.check_after_write(i, &old, rkind, "rejected-write-changed-value", &wdesc);
                }
            }
        }
        // variables written more than once in the request: compare the final state
        let mut seen = Vec::new();
        for m in &meta {
            if meta.iter().filter(|x| x.0 == m.0).count() > 1 && !seen.contains(&m.0) {
                seen.push(m.0);
                let e = self.models[m.0].shadow.clone();
                self.check_after_write(m.0, &e, "multi", "good-write-not-observed", "several writes to the same variable in one request");
            }
        }
    }

    /// Read of the Value attribute with an index range against the shadow
    fn op_read_range(&mut self, rng: &mut Rng) {
        let n_items = if rng.chance(1, 4) { 2 + rng.usize(6) } else { 1 };
        let mut items = Vec::new();
        let mut meta = Vec::new();
        for _ in 0..n_items {
            let i = rng.usize(self.ctx.vars.len());
            let spec = &self.ctx.vars[i];
            let cur = &self.models[i].shadow;
            let len = match cur {
                Variant::String(s) => s.as_ref().len(),
                Variant::ByteString(b) => b.value.as_ref().map(|v| v.len()).unwrap_or(0),
                Variant::Array(a) => a.values.len(),
                _ => 1,
            };
            let range = if rng.chance(1, 8) { String::new() } else { gen_range(rng, len) };
            let enc_name = match rng.below(12) {
                0 => QualifiedName::new(0, "Default Binary"),
                1 => QualifiedName::new(0, "Default XML"),
                2 => QualifiedName::new(1, "Default Binary"),
                _ => QualifiedName::null(),
            };
            items.push(ReadValueId {
                node_id: spec.id.clone(),
                attribute_id: AttributeId::Value as u32,
                index_range: if range.is_empty() && rng.bool() { UAString::null() } else { UAString::from(range.clone()) },
                data_encoding: enc_name.clone(),
            });
            meta.push((i, range, enc_name));
        }
        let ttr = *rng.pick(&[TimestampsToReturn::Neither, TimestampsToReturn::Both, TimestampsToReturn::Source, TimestampsToReturn::Server]);
        let max_age = *rng.pick(&[0.0, 1.0, 1e9, f64::MAX, f64::INFINITY, f64::NAN, 0.5]);
        self.ops.push(json!({"op": "read-range", "items": meta.iter().map(|m| json!({"var": self.ctx.vars[m.0].name, "range": m.1})).collect::<Vec<_>>(), "max_age": format!("{}", max_age)}));
        let res = match do_read(self.ctx, items.clone(), max_age, ttr) {
            Err(p) => {
                // which item was it? Reads change nothing, so each can be asked on its own
                let mut k = 0;
                for (j, it) in items.iter().enumerate() {
                    if do_read(self.ctx, vec![it.clone()], max_age, ttr).is_err() {
                        k = j;
                        break;
                    }
                }
                let m = &meta[k];
                self.classes.push(format!("R|panic|{}", self.ctx.vars[m.0].shape));
                self.v(
                    crate::util::psig(&p),
                    format!("Read panicked: {} at {}:{} (variable {} = {}, index range '{}')", p.msg, p.file, p.line, self.ctx.vars[m.0].name, short(&self.models[m.0].shadow), m.1),
                );
                return;
            }
            Ok(Err(sc)) => {
                self.v("read-faulted", format!("Read faulted with {}", sc.name()));
                return;
            }
            Ok(Ok(r)) => r,
        };
        if res.len() != meta.len() {
            self.v("read-result-count", format!("{} items, {} results", meta.len(), res.len()));
            return;
        }
        for (k, (i, range, enc_name)) in meta.iter().enumerate() {
            let spec = self.ctx.vars[*i].clone();
            let dv = &res[k];
            let good = dv.status.map(|s| s.is_good()).unwrap_or(true) && dv.value.is_some();
            let readable = self.models[*i].ual & 1 != 0;
            let cur = self.models[*i].shadow.clone();
            self.obs("range_read_items");
            let parsed = parse_range(range);
            let el = elements(&cur);
            let rel = match (&parsed, &el) {
                _ if range.is_empty() => "none",
                (None, _) => "junk",
                (Some(_), None) => "not-indexable",
                (Some((lo, hi)), Some((e, _))) => {
                    let l = e.len() as u64;
                    if *lo >= l {
                        "outside"
                    } else if *hi >= l {
                        "partial"
                    } else if lo == hi {
                        "index"
                    } else {
                        "inside"
                    }
                }
            };
            self.classes.push(format!("R|{}|{}|r{}|{}|{}", spec.shape, rel, readable as u8, if good { "good".to_string() } else { dv.status.map(|s| s.name().to_string()).unwrap_or("none".into()) }, if enc_name.is_null() { "enc0" } else { "enc" }));
            if !readable || !(enc_name.is_null() || (enc_name.namespace_index == 0 && enc_name.name.as_ref() == "Default Binary")) {
                if good && !readable {
                    self.obs("note_value_read_without_read_access");
                }
                continue;
            }
            if range.is_empty() {
                if !good || !same(dv.value.as_ref().unwrap(), &cur) {
                    self.v(format!("good-write-not-observed|{}|plain-read", spec.shape), format!("variable {}: Read returns {:?} / {:?}, shadow {}", spec.name, dv.status, dv.value.as_ref().map(short), short(&cur)));
                }
                continue;
            }
            let (lo, hi) = match parsed {
                Some(p) => p,
                None => continue,
            };
            let (e, ekind) = match el {
                Some(e) => e,
                None => continue,
            };
            let l = e.len() as u64;
            let got: Option<Vec<Vec<u8>>> = if good { elements(dv.value.as_ref().unwrap()).map(|x| x.0) } else { None };
            if lo < l {
                let want: Vec<Vec<u8>> = e[lo as usize..=(hi.min(l - 1)) as usize].to_vec();
                if good {
                    if got.as_ref() != Some(&want) {
                        self.v(
                            format!("range-read-wrong|{}|{}", ekind, rel),
                            format!("variable {} = {}: Read with range '{}' returned {}", spec.name, short(&cur), range, dv.value.as_ref().map(short).unwrap_or_default()),
                        );
                    } else {
                        self.obs("range_reads_matching_shadow");
                    }
                } else if hi < l {
                    self.v(
                        format!("range-read-refused-in-bounds|{}", ekind),
                        format!("variable {} = {}: Read with in-bounds range '{}' answered {:?}", spec.name, short(&cur), range, dv.status),
                    );
                } else {
                    self.obs("partial_range_reads_refused");
                }
            } else if good && got.map(|g| !g.is_empty()).unwrap_or(true) {
                self.v(
                    format!("range-read-out-of-bounds-answered|{}", ekind),
                    format!("variable {} = {} ({} elements): Read with range '{}' answered Good with {}", spec.name, short(&cur), l, range, dv.value.as_ref().map(short).unwrap_or_default()),
                );
            } else {
                self.obs("out_of_bounds_range_reads_refused");
            }
        }
    }

    /// Any attribute id (valid and invalid) of any node, with and without index range: totality
    fn op_read_any(&mut self, rng: &mut Rng) {
        let n_items = 1 + rng.usize(12);
        let mut items = Vec::new();
        let mut meta = Vec::new();
        for _ in 0..n_items {
            let (node, class) = if rng.chance(2, 3) {
                let z = &self.ctx.zoo[rng.usize(self.ctx.zoo.len())];
                (z.0.clone(), z.1)
            } else {
                (self.ctx.vars[rng.usize(self.ctx.vars.len())].id.clone(), "Variable")
            };
            let attr = gen_attr(rng);
            let range = match rng.below(6) {
                0 => gen_range(rng, 3),
                1 => "0".to_string(),
                _ => String::new(),
            };
            items.push(ReadValueId {
                node_id: node,
                attribute_id: attr,
                index_range: if range.is_empty() { UAString::null() } else { UAString::from(range.clone()) },
                data_encoding: if rng.chance(1, 10) { gen::qualified_name(rng) } else { QualifiedName::null() },
            });
            meta.push((class, attr, !range.is_empty()));
        }
        let ttr = *rng.pick(&[TimestampsToReturn::Neither, TimestampsToReturn::Both, TimestampsToReturn::Source, TimestampsToReturn::Server, TimestampsToReturn::Invalid]);
        let max_age = *rng.pick(&[0.0, 0.0, 0.0, 1.0, -1.0, f64::NAN, f64::NEG_INFINITY, 2147483647.0, 2147483648.0]);
        self.ops.push(json!({"op": "read-any", "n": n_items}));
        match do_read(self.ctx, items, max_age, ttr) {
            Err(p) => {
                self.classes.push("RA|panic".to_string());
                self.v(crate::util::psig(&p), format!("Read panicked: {} at {}:{} (items: {:?})", p.msg, p.file, p.line, meta));
            }
            Ok(Err(sc)) => {
                self.classes.push(format!("RA|fault|{}", sc.name()));
                self.obs("read_service_faults");
            }
            Ok(Ok(r)) => {
                if r.len() != meta.len() {
                    self.v("read-result-count", format!("{} items, {} results", meta.len(), r.len()));
                }
                for (k, m) in meta.iter().enumerate() {
                    let st = r.get(k).and_then(|d| d.status).map(|s| s.name().to_string()).unwrap_or("Good".into());
                    self.classes.push(format!("RA|{}|a{}|r{}|{}", m.0, if m.1 <= 28 { m.1 } else { 99 }, m.2 as u8, st));
                    self.obs("attribute_read_items");
                }
            }
        }
    }

    /// Writes of any attribute with any value to the zoo nodes (never to shadowed variables' Value): totality
    fn op_write_any(&mut self, rng: &mut Rng) {
        let n_items = 1 + rng.usize(5);
        let mut items = Vec::new();
        let mut meta = Vec::new();
        for _ in 0..n_items {
            let z = &self.ctx.zoo[rng.usize(self.ctx.zoo.len())];
            let attr = gen_attr(rng);
            let value = gen_attr_value(rng, attr);
            let range = match rng.below(8) {
                0 => gen_range(rng, 3),
                1 => "0".to_string(),
                _ => String::new(),
            };
            items.push(WriteValue {
                node_id: z.0.clone(),
                attribute_id: attr,
                index_range: if range.is_empty() { UAString::null() } else { UAString::from(range.clone()) },
                value: if rng.chance(1, 12) { DataValue::null() } else { DataValue::value_only(value.clone()) },
            });
            meta.push((z.1, attr, !range.is_empty(), short(&value)));
        }
        self.ops.push(json!({"op": "write-any", "items": meta.iter().map(|m| json!([m.0, m.1, m.2, m.3])).collect::<Vec<_>>()}));
        match do_write(self.ctx, items) {
            Err(p) => {
                self.classes.push("WA|panic".to_string());
                self.v(crate::util::psig(&p), format!("Write panicked: {} at {}:{} (items: {:?})", p.msg, p.file, p.line, meta));
            }
            Ok(Err(sc)) => {
                self.classes.push(format!("WA|fault|{}", sc.name()));
            }
            Ok(Ok(r)) => {
                if r.len() != meta.len() {
                    self.v("write-result-count", format!("{} items, {} results", meta.len(), r.len()));
                }
                for (k, m) in meta.iter().enumerate() {
                    let st = r.get(k).map(|s| s.name().to_string()).unwrap_or("?".into());
                    self.classes.push(format!("WA|{}|a{}|r{}|{}", m.0, if m.1 <= 28 { m.1 } else { 99 }, m.2 as u8, st));
                    self.obs("attribute_write_items");
                }
            }
        }
    }

    /// Change AccessLevel / UserAccessLevel of a shadowed variable through the service (where its write
    /// mask allows) and follow it in the model, so that later writes are judged against the new level
    fn op_write_access(&mut self, rng: &mut Rng) {
        let cands: Vec<usize> = (0..self.ctx.vars.len()).filter(|i| self.ctx.vars[*i].write_mask != 0).collect();
        let i = cands[rng.usize(cands.len())];
        let spec = self.ctx.vars[i].clone();
        let user = rng.bool();
        let level = *rng.pick(&[0u8, 1, 2, 3, 3, 0x0f, 0xff]);
        let value = if rng.chance(1, 6) { Variant::Int32(level as i32) } else { Variant::Byte(level) };
        let item = WriteValue {
            node_id: spec.id.clone(),
            attribute_id: if user { AttributeId::UserAccessLevel as u32 } else { AttributeId::AccessLevel as u32 },
            index_range: UAString::null(),
            value: DataValue::value_only(value.clone()),
        };
        self.ops.push(json!({"op": "write-access", "var": spec.name, "user": user, "value": short(&value)}));
        match do_write(self.ctx, vec![item]) {
            Err(p) => self.v(crate::util::psig(&p), format!("Write panicked: {} at {}:{}", p.msg, p.file, p.line)),
            Ok(Err(sc)) => self.v("write-faulted", format!("Write faulted with {}", sc.name())),
            Ok(Ok(r)) => {
                let st = r.get(0).copied().unwrap_or(StatusCode::BadUnexpectedError);
                self.classes.push(format!("WU|{}|{}|{}", user, matches!(value, Variant::Byte(_)), st.name()));
                // follow the server's attribute as it is now
                let a = self.ctx.env.address_space.read();
                if let Some(v) = a.find_variable(spec.id.clone()) {
                    self.models[i].ual = v.user_access_level().bits();
                }
                self.obs("access_level_writes");
            }
        }
    }
}

fn gen_attr(rng: &mut Rng) -> u32 {
    match rng.below(10) {
        0 => *rng.pick(&[0u32, 28, 29, 100, 1000, u32::MAX, i32::MAX as u32, 0x8000_0000]),
        1 => 13,
        _ => rng.range(1, 27) as u32,
    }
}

/// A value of the type the attribute expects (mostly), or something else
fn gen_attr_value(rng: &mut Rng, attr: u32) -> Variant {
    if rng.chance(1, 3) {
        return gen::variant(rng, 2);
    }
    match attr {
        1 => Variant::NodeId(Box::new(gen::node_id(rng))),
        2 => Variant::Int32(*rng.pick(&[0, 1, 2, 4, 8, 16, 32, 64, 128, 3, -1, i32::MAX])),
        3 => Variant::QualifiedName(Box::new(gen::qualified_name(rng))),
        4 | 5 | 10 => Variant::LocalizedText(Box::new(gen::localized_text(rng))),
        6 | 7 | 27 => Variant::UInt32(gen::u32_i(rng)),
        8 | 9 | 11 | 20 | 21 | 22 => Variant::Boolean(rng.bool()),
        12 | 17 | 18 => Variant::Byte(gen::u8_i(rng)),
        13 => gen::variant(rng, 2),
        14 => Variant::NodeId(Box::new(gen::node_id(rng))),
        15 => Variant::Int32(*rng.pick(&[-3, -2, -1, 0, 1, 2, i32::MIN, i32::MAX])),
        16 => {
            let n = rng.usize(4);
            arr(VariantTypeId::UInt32, (0..n).map(|_| Variant::UInt32(gen::u32_i(rng))).collect())
        }
        19 => Variant::Double(gen::f64_interesting(rng)),
        26 => Variant::UInt16(gen::u16_i(rng)),
        _ => gen::variant(rng, 1),
    }
}

fn run_history(ctx: &Ctx, rep: &mut Report, hist_seed: u64) {
    let mut case = json!({"hist_seed": hist_seed.to_string(), "class": "history"});
    rep.begin_case(&case);
    let mut rng = Rng::new(hist_seed);
    let mut h = Hist {
        ctx,
        models: reset(ctx),
        ops: Vec::new(),
        violations: Vec::new(),
        obs: BTreeMap::new(),
        classes: Vec::new(),
    };
    let steps = 8 + rng.usize(24);
    for _ in 0..steps {
        match rng.below(100) {
            0..=29 => h.op_write(&mut rng, false),
            30..=51 => h.op_write(&mut rng, true),
            52..=73 => h.op_read_range(&mut rng),
            74..=83 => h.op_read_any(&mut rng),
            84..=93 => h.op_write_any(&mut rng),
            _ => h.op_write_access(&mut rng),
        }
    }
    case["ops"] = json!(h.ops);
    for c in &h.classes {
        rep.case(c);
    }
    rep.count("histories", 1);
    for (k, v) in &h.obs {
        rep.count(k, *v);
    }
    for (sig, detail) in h.violations {
        rep.violation(sig, detail, case.clone());
    }
    rep.sample(json!({"hist_seed": hist_seed.to_string(), "ops": case["ops"].as_array().map(|a| a.iter().take(4).cloned().collect::<Vec<_>>())}));
}

/// The full grid: every attribute id 0..=29 (and some invalid ones) x every zoo node and variable shape x
/// index range {none, "0", "0:1", junk}: Read and a Write of a plausible value must answer without panic
fn grid(ctx: &Ctx, rep: &mut Report) {
    let mut rng = Rng::new(0xC32_0001);
    let _ = reset(ctx);
    let mut nodes: Vec<(NodeId, String)> = ctx.zoo.iter().map(|z| (z.0.clone(), z.1.to_string())).collect();
    for name in ["str_cjk", "a_i32_5", "bs_bin", "a_i32_2x3", "acc_i32_0_0", "n_empty", "str_null"] {
        if let Some(s) = ctx.vars.iter().find(|s| s.name == name) {
            nodes.push((s.id.clone(), format!("var:{}", s.shape)));
        }
    }
    let attrs: Vec<u32> = (0..=29).chain([100, u32::MAX]).collect();
    for (node, class) in &nodes {
        for &attr in &attrs {
            for range in ["", "0", "0:1", "1:3", "x", "0,0"] {
                let case = json!({"grid": true, "node": node.to_string(), "attr": attr, "range": range, "class": format!("G|{}|a{}|{}", class, attr, range)});
                rep.begin_case(&case);
                let item = ReadValueId {
                    node_id: node.clone(),
                    attribute_id: attr,
                    index_range: if range.is_empty() { UAString::null() } else { UAString::from(range) },
                    data_encoding: QualifiedName::null(),
                };
                let r = do_read(ctx, vec![item], 0.0, TimestampsToReturn::Both);
                let rs = match &r {
                    Err(p) => {
                        rep.violation(crate::util::psig(&p), format!("Read panicked: {} at {}:{}", p.msg, p.file, p.line), case.clone());
                        "panic".to_string()
                    }
                    Ok(Err(sc)) => sc.name().to_string(),
                    Ok(Ok(v)) => {
                        if v.len() != 1 {
                            rep.violation("read-result-count", format!("1 item, {} results", v.len()), case.clone());
                        }
                        v.get(0).and_then(|d| d.status).map(|s| s.name().to_string()).unwrap_or("Good".into())
                    }
                };
                // do not write Value of shadowed variables or standard nodes here; the zoo nodes take everything
                let is_zoo = node.namespace == ctx.env.ns && node.to_string().contains("zoo_");
                let ws = if is_zoo {
                    let value = gen_attr_value(&mut rng, attr);
                    let item = WriteValue {
                        node_id: node.clone(),
                        attribute_id: attr,
                        index_range: if range.is_empty() { UAString::null() } else { UAString::from(range) },
                        value: DataValue::value_only(value),
                    };
                    match do_write(ctx, vec![item]) {
                        Err(p) => {
                            rep.violation(crate::util::psig(&p), format!("Write panicked: {} at {}:{}", p.msg, p.file, p.line), case.clone());
                            "panic".to_string()
                        }
                        Ok(Err(sc)) => sc.name().to_string(),
                        Ok(Ok(v)) => v.get(0).map(|s| s.name().to_string()).unwrap_or("none".into()),
                    }
                } else {
                    "-".to_string()
                };
                rep.case(&format!("G|{}|a{}|{}|{}|{}", class, attr, range, rs, ws));
                rep.count("grid_cases", 1);
            }
        }
    }
}

pub fn run(args: &Args, rep: &mut Report) {
    let ctx = build();
    if let Some(path) = &args.replay {
        let v: Value = match std::fs::read_to_string(path).ok().and_then(|s| serde_json::from_str(&s).ok()) {
            Some(v) => v,
            None => {
                rep.inconclusive("replay file unreadable");
                return;
            }
        };
        let case = if v.get("case").is_some() { v["case"].clone() } else { v.clone() };
        if case.get("grid").is_some() {
            grid(&ctx, rep);
        } else {
            let hist_seed: u64 = case["hist_seed"].as_str().and_then(|s| s.parse().ok()).unwrap_or(1);
            run_history(&ctx, rep, hist_seed);
        }
        return;
    }
    if args.shard == 0 {
        grid(&ctx, rep);
    }
    let mut rng = Rng::new(args.seed ^ 0xC32 ^ ((args.shard as u64) << 32));
    let n = args.budget(3000, 80_000);
    for _ in 0..n {
        let hist_seed = rng.next_u64();
        run_history(&ctx, rep, hist_seed);
    }
    let c = |k: &str| rep.counters.get(k).copied().unwrap_or(0);
    if c("writes_accepted") == 0 || c("range_writes_accepted") == 0 || c("range_reads_matching_shadow") == 0 {
        rep.inconclusive(format!(
            "nothing to judge: {} plain writes accepted, {} range writes accepted, {} range reads matched",
            c("writes_accepted"),
            c("range_writes_accepted"),
            c("range_reads_matching_shadow")
        ));
    }
}
