//! C33: no well-formed request from an authenticated client crashes the server. Random request
//! sequences of every service through the real message handler (TcpTransport::verif_handle_message) on a
//! real Server, followed by subscription ticks in virtual time; batches run in child processes so that a
//! stack overflow or abort is attributed to the request in flight.
use crate::c33_gen::{self as g, Client, Pools, G, SERVICES};
use crate::common::*;
use crate::env::{self, Env, ENDPOINT_URL};
use crate::gen;
use crate::util::{psig, shorten};
use opcua::core::supported_message::SupportedMessage;
use opcua::server::comms::tcp_transport::{TcpTransport, VerifOut, VerifOutbox};
use opcua::server::comms::transport::Transport;
use opcua::server::prelude::*;
use opcua::verif::server as hooks;
use serde_json::{json, Value};
use std::collections::{BTreeMap, BTreeSet};
use std::io::Write;

use std::sync::atomic::{AtomicU64, Ordering};

/// 0 = idle, otherwise the instant (ms since process start) at which the call into the server began
static CALL_STARTED_MS: AtomicU64 = AtomicU64::new(0);
static CUR_SEQ: AtomicU64 = AtomicU64::new(0);
/// Cycle kinds that this shard has already reported as fatal several times: a server in which one of
/// them appears is not driven any further (the sequence ends and the server is rebuilt)
static AVOID: std::sync::OnceLock<Vec<String>> = std::sync::OnceLock::new();

fn now_ms() -> u64 {
    static START: std::sync::OnceLock<std::time::Instant> = std::sync::OnceLock::new();
    START.get_or_init(std::time::Instant::now).elapsed().as_millis() as u64 + 1
}

fn enter_call() {
    CALL_STARTED_MS.store(now_ms(), Ordering::SeqCst);
}

fn leave_call() {
    CALL_STARTED_MS.store(0, Ordering::SeqCst);
}

/// A call into the server that has not come back after `limit_ms` ends the child with exit code 97;
/// the parent reads the request in flight from the progress lines.
fn start_watchdog(limit_ms: u64) {
    std::thread::spawn(move || loop {
        std::thread::sleep(std::time::Duration::from_millis(100));
        let t = CALL_STARTED_MS.load(Ordering::SeqCst);
        if t != 0 && now_ms().saturating_sub(t) > limit_ms {
            progress(&format!("H {}", now_ms().saturating_sub(t)));
            std::process::exit(97);
        }
    });
}

struct World {
    env: Env,
    transport: TcpTransport,
    outbox: VerifOutbox,
    pools: Pools,
    req_id: u32,
    events_folder: NodeId,
}

fn build_world() -> World {
    let env = Env::new(true);
    let ns = env.ns;
    let mut p = Pools::default();
    let events_folder = NodeId::new(ns, "events");
    {
        let mut a = env.address_space.write();
        let w = NodeId::new(ns, "w");
        ObjectBuilder::new(&w, QualifiedName::new(ns, "w"), "w").is_folder().organized_by(ObjectId::ObjectsFolder).insert(&mut a);
        ObjectBuilder::new(&events_folder, QualifiedName::new(ns, "events"), "events").is_folder().organized_by(w.clone()).insert(&mut a);
        p.objects.push(w.clone());
        // objects with every kind of identifier
        let o_ids = vec![NodeId::new(ns, "o0"), NodeId::new(ns, 7000u32), NodeId::new(ns, Guid::from_bytes([7u8; 16])), NodeId::new(ns, ByteString::from(vec![1u8, 2, 3]))];
        for (i, id) in o_ids.iter().enumerate() {
            let mut b = ObjectBuilder::new(id, QualifiedName::new(ns, format!("o{}", i)), format!("o{}", i)).organized_by(w.clone()).has_type_definition(ObjectTypeId::BaseObjectType);
            if i == 0 {
                b = b.event_notifier(EventNotifier::SUBSCRIBE_TO_EVENTS);
            }
            b.insert(&mut a);
            p.objects.push(id.clone());
        }
        p.event_sources.push(o_ids[0].clone());
        p.event_sources.push(ObjectId::Server.into());
        let vars: Vec<(&str, DataTypeId, i32, Variant, bool)> = vec![
            ("v_i32", DataTypeId::Int32, -1, Variant::Int32(1), true),
            ("v_f64", DataTypeId::Double, -1, Variant::Double(1.5), true),
            ("v_str", DataTypeId::String, -1, Variant::from("héllo wörld"), true),
            ("v_bs", DataTypeId::ByteString, -1, Variant::ByteString(ByteString::from(vec![1u8, 2, 3, 4])), true),
            ("v_bool", DataTypeId::Boolean, -1, Variant::Boolean(true), true),
            ("v_dt", DataTypeId::DateTime, -1, Variant::DateTime(Box::new(DateTime::now())), true),
            ("v_num", DataTypeId::Number, -1, Variant::Int16(3), true),
            ("v_any", DataTypeId::BaseDataType, -2, Variant::from("x"), true),
            ("v_ro", DataTypeId::Int32, -1, Variant::Int32(5), false),
        ];
        for (name, dt, rank, v, writable) in vars {
            let id = NodeId::new(ns, name);
            let mut var = Variable::new_data_value(&id, QualifiedName::new(ns, name), name, dt, Some(rank), None, v);
            if writable {
                var.set_user_access_level(UserAccessLevel::CURRENT_READ | UserAccessLevel::CURRENT_WRITE);
                var.set_access_level(AccessLevel::CURRENT_READ | AccessLevel::CURRENT_WRITE);
                var.set_write_mask(WriteMask::from_bits_truncate(0xffff_ffff));
            }
            a.insert(var, Some(&[(&o_ids[1], &ReferenceTypeId::HasComponent, ReferenceDirection::Inverse)]));
            p.variables.push(id);
        }
        let arrs: Vec<(&str, DataTypeId, Variant)> = vec![
            ("v_arr_i32", DataTypeId::Int32, Variant::from(vec![1i32, 2, 3, 4, 5])),
            ("v_arr_str", DataTypeId::String, Variant::from(vec!["a".to_string(), "日本".to_string()])),
            ("v_bytes", DataTypeId::Byte, Variant::from(vec![1u8, 2, 3])),
        ];
        for (name, dt, v) in arrs {
            let id = NodeId::new(ns, name);
            let mut var = Variable::new_data_value(&id, QualifiedName::new(ns, name), name, dt, Some(1), None, v);
            var.set_user_access_level(UserAccessLevel::CURRENT_READ | UserAccessLevel::CURRENT_WRITE);
            var.set_access_level(AccessLevel::CURRENT_READ | AccessLevel::CURRENT_WRITE);
            a.insert(var, Some(&[(&o_ids[2], &ReferenceTypeId::HasProperty, ReferenceDirection::Inverse)]));
            p.variables.push(id);
        }
        let m = NodeId::new(ns, "m_echo");
        MethodBuilder::new(&m, QualifiedName::new(ns, "m_echo"), "m_echo").component_of(o_ids[1].clone()).callback(Box::new(env::Echo)).insert(&mut a);
        p.methods.push((o_ids[1].clone(), m));
        let vw = NodeId::new(ns, "view0");
        ViewBuilder::new(&vw, QualifiedName::new(ns, "view0"), "view0").organized_by(ObjectId::ViewsFolder).insert(&mut a);
        p.views.push(vw);
    }
    p.methods.push((ObjectId::Server.into(), MethodId::Server_GetMonitoredItems.into()));
    p.methods.push((ObjectId::Server.into(), MethodId::Server_ResendData.into()));
    for o in [ObjectId::RootFolder, ObjectId::ObjectsFolder, ObjectId::TypesFolder, ObjectId::ViewsFolder, ObjectId::Server, ObjectId::Server_ServerCapabilities, ObjectId::Server_ServerDiagnostics, ObjectId::Server_VendorServerInfo, ObjectId::Server_ServerRedundancy, ObjectId::Server_ServerCapabilities_OperationLimits] {
        p.objects.push(o.into());
    }
    for v in [
        VariableId::Server_ServerStatus,
        VariableId::Server_ServerStatus_State,
        VariableId::Server_ServerStatus_CurrentTime,
        VariableId::Server_ServerStatus_BuildInfo,
        VariableId::Server_NamespaceArray,
        VariableId::Server_ServerArray,
        VariableId::Server_ServiceLevel,
        VariableId::Server_Auditing,
        VariableId::Server_ServerCapabilities_MaxBrowseContinuationPoints,
        VariableId::Server_ServerDiagnostics_EnabledFlag,
        VariableId::Server_ServerDiagnostics_ServerDiagnosticsSummary,
    ] {
        p.variables.push(v.into());
    }
    for r in [
        ReferenceTypeId::References,
        ReferenceTypeId::NonHierarchicalReferences,
        ReferenceTypeId::HierarchicalReferences,
        ReferenceTypeId::HasChild,
        ReferenceTypeId::Organizes,
        ReferenceTypeId::HasEventSource,
        ReferenceTypeId::HasModellingRule,
        ReferenceTypeId::HasEncoding,
        ReferenceTypeId::HasDescription,
        ReferenceTypeId::HasTypeDefinition,
        ReferenceTypeId::GeneratesEvent,
        ReferenceTypeId::Aggregates,
        ReferenceTypeId::HasSubtype,
        ReferenceTypeId::HasProperty,
        ReferenceTypeId::HasComponent,
        ReferenceTypeId::HasNotifier,
        ReferenceTypeId::HasOrderedComponent,
    ] {
        p.ref_types.push(r.into());
    }
    for d in [
        DataTypeId::BaseDataType,
        DataTypeId::Number,
        DataTypeId::Integer,
        DataTypeId::UInteger,
        DataTypeId::Int32,
        DataTypeId::Int16,
        DataTypeId::Byte,
        DataTypeId::Double,
        DataTypeId::String,
        DataTypeId::ByteString,
        DataTypeId::Boolean,
        DataTypeId::DateTime,
        DataTypeId::Structure,
        DataTypeId::Enumeration,
        DataTypeId::LocalizedText,
    ] {
        p.data_types.push(d.into());
    }
    for t in [ObjectTypeId::BaseObjectType, ObjectTypeId::FolderType, ObjectTypeId::BaseEventType, ObjectTypeId::AuditEventType, ObjectTypeId::ServerType, ObjectTypeId::DataTypeEncodingType] {
        p.object_types.push(t.into());
    }
    for t in [VariableTypeId::BaseVariableType, VariableTypeId::BaseDataVariableType, VariableTypeId::PropertyType, VariableTypeId::ServerStatusType] {
        p.variable_types.push(t.into());
    }
    p.protected = vec![ObjectId::Server.into(), VariableId::Server_ServerStatus.into(), VariableId::Server_ServerStatus_State.into()];
    let transport = env.server.new_transport();
    World {
        env,
        transport,
        outbox: VerifOutbox::new(),
        pools: p,
        req_id: 1,
        events_folder,
    }
}

enum Sent {
    Panic(PanicInfo),
    /// the handler returned an error instead of queueing a response
    Refused(StatusCode),
    Responses(Vec<SupportedMessage>),
}

impl World {
    fn send(&mut self, msg: &SupportedMessage) -> Sent {
        self.req_id += 1;
        let id = self.req_id;
        let _ = self.outbox.drain();
        enter_call();
        let r = catch(|| self.transport.verif_handle_message(id, msg, &self.outbox));
        leave_call();
        match r {
            Err(p) => Sent::Panic(p),
            Ok(Err(sc)) => Sent::Refused(sc),
            Ok(Ok(())) => Sent::Responses(
                self.outbox
                    .drain()
                    .into_iter()
                    .filter_map(|o| match o {
                        VerifOut::Message(_, m) => Some(m),
                        VerifOut::Quit => None,
                    })
                    .collect(),
            ),
        }
    }

    /// CreateSession + ActivateSession (anonymous) through the handler
    fn establish(&mut self) -> Result<Client, String> {
        let create = CreateSessionRequest {
            request_header: RequestHeader::new(&NodeId::null(), &DateTime::now(), 1),
            client_description: ApplicationDescription {
                application_uri: UAString::from("urn:vh:client"),
                product_uri: UAString::from("urn:vh:client"),
                application_name: LocalizedText::from("vh"),
                application_type: ApplicationType::Client,
                gateway_server_uri: UAString::null(),
                discovery_profile_uri: UAString::null(),
                discovery_urls: None,
            },
            server_uri: UAString::null(),
            endpoint_url: UAString::from(ENDPOINT_URL),
            session_name: UAString::from("vh"),
            client_nonce: ByteString::from(vec![7u8; 32]),
            client_certificate: ByteString::null(),
            requested_session_timeout: 3_600_000.0,
            max_response_message_size: 0,
        };
        let token = match self.send(&create.into()) {
            Sent::Responses(r) => match r.into_iter().next() {
                Some(SupportedMessage::CreateSessionResponse(r)) => r.authentication_token,
                Some(SupportedMessage::ServiceFault(f)) => return Err(format!("CreateSession faulted: {}", f.response_header.service_result.name())),
                o => return Err(format!("CreateSession answered {:?}", o.map(|m| g::service_of(&m)))),
            },
            Sent::Panic(p) => return Err(format!("CreateSession panicked: {} at {}:{}", p.msg, p.file, p.line)),
            Sent::Refused(sc) => return Err(format!("CreateSession refused: {}", sc.name())),
        };
        let activate = ActivateSessionRequest {
            request_header: RequestHeader::new(&token, &DateTime::now(), 2),
            client_signature: SignatureData::null(),
            client_software_certificates: None,
            locale_ids: None,
            user_identity_token: ExtensionObject::from_encodable(ObjectId::AnonymousIdentityToken_Encoding_DefaultBinary, &AnonymousIdentityToken { policy_id: UAString::from("anonymous") }),
            user_token_signature: SignatureData::null(),
        };
        match self.send(&activate.into()) {
            Sent::Responses(r) => match r.into_iter().next() {
                Some(SupportedMessage::ActivateSessionResponse(_)) => {}
                Some(SupportedMessage::ServiceFault(f)) => return Err(format!("ActivateSession faulted: {}", f.response_header.service_result.name())),
                _ => return Err("ActivateSession answered something else".into()),
            },
            Sent::Panic(p) => return Err(format!("ActivateSession panicked: {} at {}:{}", p.msg, p.file, p.line)),
            Sent::Refused(sc) => return Err(format!("ActivateSession refused: {}", sc.name())),
        }
        Ok(Client {
            token,
            handle: 10,
            ns: self.env.ns,
            ..Default::default()
        })
    }

    fn close(&mut self, c: &Client) {
        let req = CloseSessionRequest {
            request_header: RequestHeader::new(&c.token, &DateTime::now(), 3),
            delete_subscriptions: true,
        };
        let _ = self.send(&req.into());
        // whatever is left (sessions created by random CreateSession requests): drop them
        let sm = self.transport.session_manager();
        let mut sm = sm.write();
        sm.sessions.clear();
    }

    /// A Read of a node every server has; Ok(true) = answered Good, Ok(false) = the node was deleted by the client
    fn probe(&mut self, c: &Client) -> Result<bool, String> {
        let req = ReadRequest {
            request_header: RequestHeader::new(&c.token, &DateTime::now(), 4),
            max_age: 0.0,
            timestamps_to_return: TimestampsToReturn::Neither,
            nodes_to_read: Some(vec![ReadValueId {
                node_id: VariableId::Server_ServerStatus_State.into(),
                attribute_id: AttributeId::Value as u32,
                index_range: UAString::null(),
                data_encoding: QualifiedName::null(),
            }]),
        };
        match self.send(&req.into()) {
            Sent::Responses(r) => match r.into_iter().next() {
                Some(SupportedMessage::ReadResponse(r)) => {
                    let dv = r.results.and_then(|v| v.into_iter().next());
                    match dv {
                        Some(dv) if dv.status.map(|s| s.is_good()).unwrap_or(true) && dv.value.is_some() => Ok(true),
                        Some(dv) if dv.status == Some(StatusCode::BadNodeIdUnknown) => Ok(false),
                        Some(dv) => Err(format!("probe Read returned status {:?}", dv.status)),
                        None => Err("probe Read returned no result".into()),
                    }
                }
                Some(SupportedMessage::ServiceFault(f)) => Err(format!("fault:{}", f.response_header.service_result.name())),
                _ => Err("probe Read got no ReadResponse".into()),
            },
            Sent::Panic(p) => Err(format!("probe Read panicked: {} at {}:{}", p.msg, p.file, p.line)),
            Sent::Refused(sc) => Err(format!("probe Read refused: {}", sc.name())),
        }
    }
}

fn response_kind(m: &SupportedMessage) -> String {
    match m {
        SupportedMessage::ServiceFault(f) => format!("fault:{}", f.response_header.service_result.name()),
        other => {
            let s = format!("{:?}", other);
            s.split('(').next().unwrap_or("?").to_string()
        }
    }
}

/// What the client learns from a response
fn learn(c: &mut Client, req: &SupportedMessage, resp: &SupportedMessage) {
    match (req, resp) {
        (_, SupportedMessage::CreateSubscriptionResponse(r)) => c.subs.push(r.subscription_id),
        (SupportedMessage::CreateMonitoredItemsRequest(q), SupportedMessage::CreateMonitoredItemsResponse(r)) => {
            for x in r.results.iter().flatten() {
                if x.status_code.is_good() {
                    c.items.push((q.subscription_id, x.monitored_item_id));
                }
            }
        }
        (_, SupportedMessage::BrowseResponse(r)) => {
            for x in r.results.iter().flatten() {
                if !x.continuation_point.is_null() {
                    c.cps.push(x.continuation_point.clone());
                }
            }
        }
        (_, SupportedMessage::BrowseNextResponse(r)) => {
            for x in r.results.iter().flatten() {
                if !x.continuation_point.is_null() {
                    c.cps.push(x.continuation_point.clone());
                }
            }
        }
        (_, SupportedMessage::AddNodesResponse(r)) => {
            for x in r.results.iter().flatten() {
                if x.status_code.is_good() {
                    c.added.push(x.added_node_id.clone());
                }
            }
        }
        (_, SupportedMessage::PublishResponse(r)) => {
            c.seqs.push((r.subscription_id, r.notification_message.sequence_number));
            for s in r.available_sequence_numbers.iter().flatten() {
                c.seqs.push((r.subscription_id, *s));
            }
        }
        _ => {}
    }
    if c.seqs.len() > 64 {
        c.seqs.drain(0..32);
    }
    if c.cps.len() > 32 {
        c.cps.drain(0..16);
    }
}

struct Finding {
    signature: String,
    detail: String,
    req_index: i64,
    service: String,
}

#[derive(Default)]
struct SeqReport {
    classes: Vec<String>,
    findings: Vec<Finding>,
    counts: BTreeMap<String, u64>,
    requests: Vec<String>,
}

impl SeqReport {
    fn count(&mut self, k: &str, n: u64) {
        *self.counts.entry(k.to_string()).or_insert(0) += n;
    }
}

fn progress(line: &str) {
    let out = std::io::stdout();
    let mut o = out.lock();
    let _ = writeln!(o, "{}", line);
    let _ = o.flush();
}

/// One sequence: fresh session, k requests, tick phase, probe, close. Returns true when the world must be rebuilt.
fn run_sequence(w: &mut World, seq_seed: u64, seq: u64, rep: &mut SeqReport, only_request: Option<&SupportedMessage>) -> bool {
    let mut rng = Rng::new(seq_seed);
    let mut client = match w.establish() {
        Ok(c) => c,
        Err(e) => {
            rep.findings.push(Finding {
                signature: "harness|cannot-establish-session".into(),
                detail: e,
                req_index: -1,
                service: "CreateSession".into(),
            });
            return true;
        }
    };
    let mut dirty = false;
    // shape of the sequence
    let flow = rng.below(10);
    let k = 3 + rng.usize(10);
    let mut plan: Vec<(String, bool)> = Vec::new();
    if flow < 4 {
        // a subscription with items first, so that the later requests and the ticks have something to work on
        plan.push(("CreateSubscription".into(), false));
        plan.push(("CreateMonitoredItems".into(), false));
        if rng.bool() {
            plan.push(("CreateMonitoredItems".into(), false));
        }
        plan.push(("Publish".into(), false));
    } else if flow < 6 {
        plan.push(("AddNodes".into(), false));
        plan.push(("AddReferences".into(), false));
    }
    const HEAVY: &[&str] = &["AddNodes", "AddReferences", "DeleteNodes", "DeleteReferences", "CreateMonitoredItems", "ModifyMonitoredItems", "Write", "Read", "Call", "Browse", "TranslateBrowsePathsToNodeIds", "HistoryRead", "HistoryUpdate", "Publish", "Republish", "SetTriggering"];
    for _ in 0..k {
        let s = if rng.chance(3, 5) { *rng.pick(HEAVY) } else { *rng.pick(SERVICES) };
        plan.push((s.to_string(), rng.chance(1, 6)));
    }
    // every seventh sequence starts with a directed combination
    if seq % 11 == 3 {
        const DIRECTED: &[&[&str]] = &[
            &["subscription", "publish-future-timestamp"],
            &["addnodes-browse-name-namespace"],
            &["addnodes-unknown-namespace"],
            &["addnodes-plain", "addnodes-variable-without-dimensions"],
            &["addrefs-self"],
            &["addrefs-reftype-cycle", "browse-with-subtypes"],
            &["addrefs-datatype-cycle", "write-abstract-typed"],
            &["addrefs-aggregates-cycle-1", "addrefs-aggregates-cycle-2", "delete-in-cycle"],
            &["subscription", "event-item-element-index"],
            &["subscription", "event-item-missing-operands"],
            &["subscription", "event-item-self-reference"],
            &["subscription", "event-item-unsupported-operator"],
            &["read-nonascii-range"],
            // the cheap ones once more, so that the combinations that end a child process are the minority
            &["subscription", "publish-future-timestamp"],
            &["addnodes-plain", "addnodes-variable-without-dimensions"],
            &["subscription", "event-item-element-index"],
            &["subscription", "event-item-missing-operands"],
            &["subscription", "event-item-unsupported-operator"],
            &["addrefs-self"],
            &["addnodes-browse-name-namespace"],
        ];
        let d = DIRECTED[((seq / 11) as usize + rng.usize(DIRECTED.len())) % DIRECTED.len()];
        let mut front: Vec<(String, bool)> = d.iter().map(|t| (format!("@{}", t), false)).collect();
        plan.truncate(3);
        front.extend(plan);
        plan = front;
    }
    let single: Vec<(String, bool)> = vec![("single".into(), false)];
    let plan = if only_request.is_some() { single } else { plan };
    for (idx, (service, use_driven)) in plan.iter().enumerate() {
        client.handle += 1;
        let (msg, source) = if let Some(m) = only_request {
            (m.clone(), "replayed")
        } else if let Some(tag) = service.strip_prefix('@') {
            let mut gg = G {
                rng: &mut rng,
                c: &client,
                p: &w.pools,
            };
            (gg.directed(tag), "directed")
        } else {
            let mut d = None;
            if *use_driven {
                d = g::driven(&mut rng, service, &client.token);
            }
            match d {
                Some(m) => (m, "driven"),
                None => {
                    let mut gg = G {
                        rng: &mut rng,
                        c: &client,
                        p: &w.pools,
                    };
                    (gg.request(service), "built")
                }
            }
        };
        let service = g::service_of(&msg);
        let dbg = format!("{:?}", msg);
        rep.requests.push(shorten(&dbg, 1500));
        progress(&format!("R {} {} {} {}", seq, idx, service, shorten(&dbg, 300).replace('\n', " ")));
        let sent = w.send(&msg);
        rep.count("requests", 1);
        match sent {
            Sent::Panic(p) => {
                rep.classes.push(format!("{}|{}|panic", service, source));
                rep.findings.push(Finding {
                    signature: psig(&p),
                    detail: format!("{} request panicked: {} at {}:{}\nrequest: {}", service, p.msg, p.file, p.line, shorten(&dbg, 3000)),
                    req_index: idx as i64,
                    service: service.to_string(),
                });
                dirty = true;
                break;
            }
            Sent::Refused(sc) => {
                rep.classes.push(format!("{}|{}|refused:{}", service, source, sc.name()));
                rep.findings.push(Finding {
                    signature: format!("no-response|{}|handler-error", service),
                    detail: format!("handle_message returned {} for a {} request instead of a response\nrequest: {}", sc.name(), service, shorten(&dbg, 2000)),
                    req_index: idx as i64,
                    service: service.to_string(),
                });
            }
            Sent::Responses(rs) => {
                if rs.is_empty() {
                    if service == "Publish" {
                        rep.classes.push(format!("{}|{}|queued", service, source));
                        rep.count("publish_requests_queued", 1);
                    } else {
                        rep.classes.push(format!("{}|{}|no-response", service, source));
                        rep.findings.push(Finding {
                            signature: format!("no-response|{}", service),
                            detail: format!("no response and no fault was queued for a {} request\nrequest: {}", service, shorten(&dbg, 2000)),
                            req_index: idx as i64,
                            service: service.to_string(),
                        });
                    }
                }
                for r in &rs {
                    rep.classes.push(format!("{}|{}|{}", service, source, response_kind(r)));
                    rep.count("responses", 1);
                    learn(&mut client, &msg, r);
                }
                if service == "AddReferences" || service == "AddNodes" {
                    let st = cycle_state(w, &client);
                    if st != "none" {
                        progress(&format!("C {}", st));
                        rep.count("requests_leaving_a_reference_cycle", 1);
                        if AVOID.get().map(|a| st.split('+').any(|k| a.iter().any(|x| x == k))).unwrap_or(false) {
                            rep.count("sequences_ended_at_a_known_fatal_cycle", 1);
                            dirty = true;
                            break;
                        }
                    }
                }
            }
        }
    }
    // tick phase in virtual time
    if !dirty && only_request.is_none() {
        if let Some(p) = tick_phase(w, &mut rng, &mut client, rep) {
            rep.findings.push(Finding {
                signature: psig(&p.0),
                detail: format!("{} panicked after the requests of this sequence: {} at {}:{}\nrequests: {}", p.1, p.0.msg, p.0.file, p.0.line, rep.requests.iter().map(|r| shorten(r, 600)).collect::<Vec<_>>().join("\n  ")),
                req_index: -2,
                service: p.1,
            });
            dirty = true;
        }
    }
    // keeps serving?
    let mut probe = w.probe(&client);
    if let Err(e) = &probe {
        if e.starts_with("fault:BadSession") {
            // the sequence itself closed or de-activated the session (CloseSession, a failed ActivateSession): take a new one
            rep.count("session_reestablished_for_probe", 1);
            match w.establish() {
                Ok(c2) => {
                    probe = w.probe(&c2);
                    w.close(&c2);
                }
                Err(e2) => probe = Err(format!("cannot establish a session any more: {}", e2)),
            }
        }
    }
    match probe {
        Ok(true) => rep.count("probe_reads_good", 1),
        Ok(false) => {
            rep.count("probe_node_deleted_by_client", 1);
            dirty = true;
        }
        Err(e) => {
            rep.findings.push(Finding {
                signature: "stops-serving|probe-read".into(),
                detail: format!("after the sequence a Read of Server_ServerStatus_State is not answered: {}\nrequests: {}", e, rep.requests.iter().map(|r| shorten(r, 600)).collect::<Vec<_>>().join("\n  ")),
                req_index: -3,
                service: "Read".into(),
            });
            dirty = true;
        }
    }
    w.close(&client);
    dirty
}

/// Ticks of the session's subscriptions at increasing virtual times, with application-side value changes,
/// raised events and publish requests in between. Returns the first panic.
fn tick_phase(w: &mut World, rng: &mut Rng, client: &mut Client, rep: &mut SeqReport) -> Option<(PanicInfo, String)> {
    let sm = w.transport.session_manager();
    let session = {
        let sm = sm.read();
        sm.find_session_by_token(&client.token)
    };
    let session = match session {
        Some(s) => s,
        None => return None,
    };
    let mut vnow = chrono::Utc::now() + chrono::Duration::milliseconds(20);
    let ticks = 2 + rng.usize(8);
    for _ in 0..ticks {
        // application side: a value changes, an event is raised
        if rng.chance(2, 3) {
            let id = w.pools.variables[rng.usize(w.pools.variables.len().min(9))].clone();
            let v = match rng.below(3) {
                0 => Variant::Int32(rng.next_u32() as i32),
                1 => Variant::Double(gen::f64_interesting(rng)),
                _ => Variant::from(gen::string(rng, 8)),
            };
            let t = DateTime::from(vnow);
            let mut a = w.env.address_space.write();
            a.set_variable_value(id, v, &t, &t);
        }
        if rng.chance(1, 2) {
            let ns = w.env.ns;
            let source = w.pools.event_sources[0].clone();
            let folder = w.events_folder.clone();
            let t = DateTime::from(vnow);
            let r = catch(|| {
                let mut a = w.env.address_space.write();
                let id = NodeId::next_numeric(ns);
                let mut ev = BaseEventType::new(id, ObjectTypeId::BaseEventType, "ev", "ev", folder, t)
                    .source_node(source)
                    .source_name("o0")
                    .message("something happened")
                    .severity(1 + rng.below(999) as u16);
                let _ = ev.raise(&mut a);
            });
            if r.is_ok() {
                rep.count("events_raised", 1);
            }
        }
        if rng.chance(2, 3) {
            w.req_id += 1;
            let rid = w.req_id;
            let req = {
                let mut gg = G {
                    rng,
                    c: client,
                    p: &w.pools,
                };
                let mut h = RequestHeader::new(&client.token, &DateTime::from(vnow), rid);
                h.timeout_hint = *gg.rng.pick(&[0u32, 1, 100, 30_000, u32::MAX]);
                PublishRequest {
                    request_header: h,
                    subscription_acknowledgements: gg.acks(),
                }
            };
            enter_call();
            let r = catch(|| hooks::async_publish(&vnow, session.clone(), w.env.address_space.clone(), rid, &req));
            leave_call();
            match r {
                Err(p) => return Some((p, "Publish (virtual time)".into())),
                Ok(Some(m)) => {
                    learn(client, &SupportedMessage::Invalid(ObjectId::PublishRequest_Encoding_DefaultBinary), &m);
                }
                Ok(None) => {}
            }
            rep.count("tick_phase_publish_requests", 1);
        }
        progress(&format!("R {} tick tick virtual-time tick of the session's subscriptions", CUR_SEQ.load(Ordering::SeqCst)));
        enter_call();
        let r = catch(|| {
            let mut s = session.write();
            let a = w.env.address_space.read();
            let _ = hooks::session_tick_subscriptions(&mut s, &vnow, &a, true);
            hooks::session_expire_stale_publish_requests(&mut s, &vnow);
            hooks::session_take_publish_responses(&mut s)
        });
        leave_call();
        match r {
            Err(p) => return Some((p, "subscription tick".into())),
            Ok(resps) => {
                rep.count("ticks", 1);
                for (_, m) in resps {
                    if let SupportedMessage::PublishResponse(pr) = &m {
                        rep.count("publish_responses", 1);
                        let n = pr.notification_message.notification_data.as_ref().map(|v| v.len()).unwrap_or(0);
                        if n > 0 {
                            rep.count("publish_responses_with_notifications", 1);
                        }
                    }
                    learn(client, &SupportedMessage::Invalid(ObjectId::PublishRequest_Encoding_DefaultBinary), &m);
                }
            }
        }
        let step = *rng.pick(&[1i64, 10, 50, 100, 100, 250, 1000, 5000, 31_000, 600_000]);
        vnow += chrono::Duration::milliseconds(step);
    }
    None
}

fn seq_seed(batch_seed: u64, seq: u64) -> u64 {
    batch_seed ^ seq.wrapping_mul(0x9E37_79B9_7F4A_7C15) ^ 0xC33
}

/// Cycles a client can have built with AddReferences / AddNodes and that the server's unguarded
/// traversals run into. Looked for with the server's own non-recursive lookup (exact reference type,
/// no subtypes), so that a crash or hang can be attributed to its root cause.
fn cycle_state(w: &World, client: &Client) -> String {
    use std::collections::HashMap;
    let a = w.env.address_space.read();
    let p = &w.pools;
    let mut starts: Vec<NodeId> = Vec::new();
    for v in [&p.ref_types, &p.data_types, &p.object_types, &p.variable_types, &p.objects, &p.variables, &client.added] {
        starts.extend(v.iter().cloned());
    }
    let find = |types: &[ReferenceTypeId]| -> Option<NodeId> {
        // iterative depth-first search, 1 = on the stack, 2 = done
        let mut color: HashMap<NodeId, u8> = HashMap::new();
        for s in &starts {
            if color.contains_key(s) {
                continue;
            }
            let mut stack: Vec<(NodeId, Vec<NodeId>)> = Vec::new();
            let next = |n: &NodeId| -> Vec<NodeId> {
                let mut out = Vec::new();
                for t in types {
                    if let Some(r) = a.find_references(n, Some((*t, false))) {
                        out.extend(r.into_iter().map(|r| r.target_node));
                    }
                }
                out
            };
            color.insert(s.clone(), 1);
            stack.push((s.clone(), next(s)));
            while let Some((n, mut todo)) = stack.pop() {
                if let Some(m) = todo.pop() {
                    stack.push((n, todo));
                    match color.get(&m) {
                        Some(1) => return Some(m),
                        Some(_) => {}
                        None => {
                            color.insert(m.clone(), 1);
                            let nm = next(&m);
                            stack.push((m, nm));
                        }
                    }
                } else {
                    color.insert(n, 2);
                }
                if stack.len() > 100_000 {
                    return None;
                }
            }
        }
        None
    };
    let mut out: Vec<String> = Vec::new();
    if let Some(n) = find(&[ReferenceTypeId::HasSubtype]) {
        out.push(match a.find_node(&n).map(|x| x.node_class()) {
            Some(NodeClass::ReferenceType) => "HasSubtype-cycle-of-reference-types".to_string(),
            Some(NodeClass::DataType) => "HasSubtype-cycle-of-data-types".to_string(),
            _ => "HasSubtype-cycle".to_string(),
        });
    }
    if find(&[ReferenceTypeId::Aggregates, ReferenceTypeId::HasComponent, ReferenceTypeId::HasProperty, ReferenceTypeId::HasOrderedComponent, ReferenceTypeId::HasHistoricalConfiguration]).is_some() {
        out.push("aggregates-cycle".to_string());
    }
    if out.is_empty() {
        "none".to_string()
    } else {
        out.join("+")
    }
}

/// Child process: sequences start..start+count of a batch. One "S" line per finished sequence.
pub fn child_main(rest: &[String]) -> i32 {
    let batch_seed: u64 = rest.get(0).and_then(|s| s.parse().ok()).unwrap_or(1);
    let start: u64 = rest.get(1).and_then(|s| s.parse().ok()).unwrap_or(0);
    let count: u64 = rest.get(2).and_then(|s| s.parse().ok()).unwrap_or(1);
    let limit_ms: u64 = rest.get(3).and_then(|s| s.parse().ok()).unwrap_or(5000);
    let avoid: Vec<String> = rest.get(4).map(|s| s.split(',').filter(|x| !x.is_empty()).map(|x| x.to_string()).collect()).unwrap_or_default();
    let _ = AVOID.set(avoid);
    start_watchdog(limit_ms);
    let mut w = build_world();
    let mut seen: BTreeSet<String> = BTreeSet::new();
    for seq in start..start + count {
        let mut rep = SeqReport::default();
        CUR_SEQ.store(seq, Ordering::SeqCst);
        progress(&format!("B {}", seq));
        let dirty = run_sequence(&mut w, seq_seed(batch_seed, seq), seq, &mut rep, None);
        // does each new panic also happen when the sequence meets a fresh server?
        let mut fresh: BTreeMap<String, bool> = BTreeMap::new();
        let new_sigs: Vec<String> = rep.findings.iter().filter(|f| f.signature.starts_with("panic|") && seen.insert(f.signature.clone())).map(|f| f.signature.clone()).collect();
        if !new_sigs.is_empty() && seq != start {
            progress("Q fresh-server rerun");
            let mut w2 = build_world();
            let mut rep2 = SeqReport::default();
            let _ = run_sequence(&mut w2, seq_seed(batch_seed, seq), seq, &mut rep2, None);
            for sig in new_sigs {
                fresh.insert(sig.clone(), rep2.findings.iter().any(|f| f.signature == sig));
            }
        }
        let v = json!({
            "seq": seq,
            "classes": rep.classes,
            "counts": rep.counts,
            "findings": rep.findings.iter().map(|f| json!({
                "signature": f.signature, "detail": f.detail, "req_index": f.req_index, "service": f.service,
                "fresh_server": if seq == start { Some(&true) } else { fresh.get(&f.signature) },
            })).collect::<Vec<_>>(),
        });
        progress(&format!("S {}", v));
        if dirty {
            w = build_world();
            progress("C none");
        }
    }
    progress("E done");
    0
}

struct BatchOutcome {
    /// sequences that finished, with their S records
    finished: Vec<Value>,
    /// (sequence, service, request text) in flight when the child ended early
    in_flight: Option<(u64, String, String)>,
    /// why the child ended early: "hang", "signal N|hint", or something the harness cannot judge
    died: Option<String>,
    cycle_state: String,
    next_seq: u64,
}

fn run_batch_child(batch_seed: u64, start: u64, count: u64, limit_ms: u64, avoid: &str) -> BatchOutcome {
    // the parent's own watchdog is only a backstop for a child that is stuck outside a server call
    let backstop = 60_000 + count * 2_000 + limit_ms;
    let r = run_child(&["view-c33".into(), batch_seed.to_string(), start.to_string(), count.to_string(), limit_ms.to_string(), avoid.to_string()], &[], backstop, 4096);
    let mut finished = Vec::new();
    let mut last_r: Option<(u64, String, String)> = None;
    let mut current: Option<u64> = None;
    let mut done = false;
    let mut hung = false;
    let mut cycle = "none".to_string();
    let mut cycle_at_request = "none".to_string();
    for line in r.stdout.lines() {
        if let Some(rest) = line.strip_prefix("S ") {
            if let Ok(v) = serde_json::from_str::<Value>(rest) {
                finished.push(v);
            }
            last_r = None;
            current = None;
        } else if let Some(rest) = line.strip_prefix("B ") {
            current = rest.trim().parse().ok();
            last_r = None;
        } else if let Some(rest) = line.strip_prefix("C ") {
            cycle = rest.trim().to_string();
        } else if let Some(rest) = line.strip_prefix("R ") {
            let mut it = rest.splitn(4, ' ');
            let seq: u64 = it.next().and_then(|s| s.parse().ok()).unwrap_or(0);
            let _idx = it.next();
            let service = it.next().unwrap_or("?").to_string();
            let text = it.next().unwrap_or("").to_string();
            last_r = Some((seq, service, text));
            cycle_at_request = cycle.clone();
        } else if line.starts_with("H ") {
            hung = true;
        } else if line.starts_with("E done") {
            done = true;
        }
    }
    let died = if done {
        None
    } else if hung && r.exit_code == Some(97) {
        Some("hang".to_string())
    } else if r.timed_out {
        Some("backstop watchdog".to_string())
    } else if let Some(sig) = r.signal {
        let hint = if r.stderr_tail.contains("overflowed its stack") { "stack-overflow" } else { "abort" };
        Some(format!("signal {}|{}", sig, hint))
    } else {
        Some(format!("exit {:?}: {}", r.exit_code, shorten(&r.stderr_tail, 300)))
    };
    let next_seq = match (&died, current, &last_r) {
        (Some(_), Some(c), _) => c + 1,
        (Some(_), None, Some(l)) => l.0 + 1,
        _ => start + count,
    };
    BatchOutcome {
        in_flight: if died.is_some() { last_r.or(current.map(|c| (c, "between-requests".to_string(), String::new()))) } else { None },
        finished,
        died,
        cycle_state: cycle_at_request,
        next_seq,
    }
}

fn merge_sequence(rep: &mut Report, batch_seed: u64, start: u64, v: &Value, only_seq: Option<u64>) {
    let seq = v["seq"].as_u64().unwrap_or(0);
    if let Some(o) = only_seq {
        if o != seq {
            return;
        }
    }
    for c in v["classes"].as_array().into_iter().flatten() {
        if let Some(s) = c.as_str() {
            rep.case(s);
        }
    }
    for (k, n) in v["counts"].as_object().into_iter().flatten() {
        rep.count(k, n.as_u64().unwrap_or(0));
    }
    rep.count("sequences", 1);
    for f in v["findings"].as_array().into_iter().flatten() {
        let sig = f["signature"].as_str().unwrap_or("?").to_string();
        let case = json!({"batch_seed": batch_seed.to_string(), "start": start, "seq": seq, "req_index": f["req_index"], "service": f["service"],
                          "reproduces_on_fresh_server": f["fresh_server"], "class": format!("{}|finding", f["service"].as_str().unwrap_or("?"))});
        if sig.starts_with("harness|") {
            rep.inconclusive(format!("{}: {}", sig, f["detail"].as_str().unwrap_or("")));
        } else {
            rep.violation(sig, f["detail"].as_str().unwrap_or("").to_string(), case);
        }
    }
}

const CALL_LIMIT_MS: u64 = 5_000;
const CALL_LIMIT_CONFIRM_MS: u64 = 15_000;

/// Runs sequences start..end of a batch, restarting the child after a crash or a hang
/// After this many hangs with one cause in a shard the cause is passed to the children as "known fatal"
const HANGS_BEFORE_AVOIDING: u64 = 3;

fn avoid_list(hang_counts: &BTreeMap<String, u64>) -> String {
    hang_counts.iter().filter(|(k, n)| **n >= HANGS_BEFORE_AVOIDING && k.contains("cycle")).map(|(k, _)| k.clone()).collect::<Vec<_>>().join(",")
}

fn run_batch(rep: &mut Report, batch_seed: u64, start: u64, end: u64, only_seq: Option<u64>, confirmed_hangs: &mut BTreeSet<String>, hang_counts: &mut BTreeMap<String, u64>) {
    let mut at = start;
    let mut restarts = 0;
    while at < end {
        let count = end - at;
        let case = json!({"batch_seed": batch_seed.to_string(), "start": at, "count": count, "class": "batch"});
        rep.begin_case(&case);
        // a replay must meet the same inputs as the run it replays: no avoiding there
        let avoid = if only_seq.is_some() { String::new() } else { avoid_list(hang_counts) };
        let out = run_batch_child(batch_seed, at, count, CALL_LIMIT_MS, &avoid);
        for v in &out.finished {
            merge_sequence(rep, batch_seed, at, v, only_seq);
        }
        let why = match &out.died {
            None => break,
            Some(w) => w.clone(),
        };
        restarts += 1;
        rep.count("child_processes_ended_early", 1);
        let (seq, service, text) = out.in_flight.clone().unwrap_or((at, "?".into(), String::new()));
        // the root cause named in the signature: the cycle kind that the failing traversal runs into
        let has = |k: &str| out.cycle_state.split('+').any(|x| x == k);
        let cause = if out.cycle_state == "none" {
            service.clone()
        } else if why == "hang" {
            if has("HasSubtype-cycle-of-reference-types") {
                "HasSubtype-cycle-of-reference-types".to_string()
            } else {
                out.cycle_state.split('+').next().unwrap_or("").to_string()
            }
        } else if service == "DeleteNodes" && has("aggregates-cycle") {
            "aggregates-cycle".to_string()
        } else if has("HasSubtype-cycle-of-data-types") {
            "HasSubtype-cycle-of-data-types".to_string()
        } else {
            out.cycle_state.split('+').next().unwrap_or("").to_string()
        };
        let case = json!({"batch_seed": batch_seed.to_string(), "start": at, "seq": seq, "service": service, "address_space_state": out.cycle_state, "class": format!("{}|{}", service, why)});
        rep.case(&format!("{}|ended|{}|{}", service, why.split('|').next().unwrap_or(""), out.cycle_state));
        let mut why = why;
        let mut hang_confirmed = false;
        if why == "hang" {
            let sig = format!("hang|{}", cause);
            if confirmed_hangs.contains(&sig) {
                hang_confirmed = true;
            } else {
                // once more in a fresh process with a longer limit before saying anything
                let again = run_batch_child(batch_seed, at, seq + 1 - at, CALL_LIMIT_CONFIRM_MS, &avoid);
                match again.died.as_deref() {
                    Some("hang") => hang_confirmed = true,
                    // given more time the call ran out of stack: that is what it is then
                    Some(w) if w.starts_with("signal") => why = w.to_string(),
                    _ => {}
                }
            }
        }
        if why == "hang" {
            let sig = format!("hang|{}", cause);
            if hang_confirmed {
                confirmed_hangs.insert(sig.clone());
                *hang_counts.entry(cause.clone()).or_insert(0) += 1;
                rep.count("hangs", 1);
                rep.violation(
                    sig,
                    format!(
                        "a call into the server for a {} request did not return (address space at that point: {}). Limit per call {} ms, confirmed in a second process with {} ms;                          a normal call takes well under 10 ms. This verdict rests on a watchdog, not on a step count.\nrequest in flight: {}",
                        service, out.cycle_state, CALL_LIMIT_MS, CALL_LIMIT_CONFIRM_MS, text
                    ),
                    case,
                );
            } else {
                // The same request returned when it was run again in a fresh process with a longer limit, so
                // this was a slow call (loaded machine), not a call that does not return: the property held
                // for it. Counted and noted, never a verdict and never a reason to withhold one.
                rep.count("slow_calls_that_returned_on_the_rerun", 1);
                rep.note(format!("a {} call exceeded {} ms once but returned on the rerun ({} ms limit)", service, CALL_LIMIT_MS, CALL_LIMIT_CONFIRM_MS));
            }
        } else if why.starts_with("signal") {
            rep.count("crashes", 1);
            rep.violation(
                format!("crash|{}|{}", why, cause),
                format!("the process died ({}) while a {} request was being handled (address space at that point: {})\nrequest in flight: {}", why, service, out.cycle_state, text),
                case,
            );
        } else {
            rep.inconclusive(format!("child ended without finishing: {} (in flight: {} {})", why, service, shorten(&text, 200)));
        }
        at = out.next_seq.max(at + 1);
        if restarts > 40 {
            rep.inconclusive("too many child restarts in one batch");
            break;
        }
    }
}

pub fn run(args: &Args, rep: &mut Report) {
    let mut confirmed = BTreeSet::new();
    let mut hang_counts: BTreeMap<String, u64> = BTreeMap::new();
    if let Some(path) = &args.replay {
        let v: Value = match std::fs::read_to_string(path).ok().and_then(|s| serde_json::from_str(&s).ok()) {
            Some(v) => v,
            None => {
                rep.inconclusive("replay file unreadable");
                return;
            }
        };
        let case = if v.get("case").is_some() { v["case"].clone() } else { v.clone() };
        let batch_seed: u64 = case["batch_seed"].as_str().and_then(|s| s.parse().ok()).unwrap_or(1);
        let start = case["start"].as_u64().unwrap_or(0);
        let seq = case["seq"].as_u64().unwrap_or(start);
        run_batch(rep, batch_seed, start, seq + 1, Some(seq), &mut confirmed, &mut hang_counts);
        return;
    }
    let mut rng = Rng::new(args.seed ^ 0xC33 ^ ((args.shard as u64) << 32));
    let total = args.budget(1000, 24_000);
    let per_batch = 125u64;
    let mut left = total;
    while left > 0 {
        let n = left.min(per_batch);
        let batch_seed = rng.next_u64();
        run_batch(rep, batch_seed, 0, n, None, &mut confirmed, &mut hang_counts);
        left -= n;
        rep.count("batches", 1);
    }
    if rep.counters.get("requests").copied().unwrap_or(0) == 0 {
        rep.inconclusive("no request was handled");
    }
}
