//! Structure-aware request generators for C33: every service of the message handler, with fields drawn
//! from what the client knows (real node ids, subscription ids, monitored item ids, continuation points)
//! mixed with boundary and junk values; plus decoder-driven arbitrary request structures.
#![allow(clippy::too_many_lines)]

use crate::common::Rng;
use crate::env::ENDPOINT_URL;
use crate::gen::{self, BiasedReader};
use opcua::core::supported_message::SupportedMessage;
use opcua::server::prelude::*;

/// What a client can know from earlier responses and from browsing
#[derive(Default, Clone)]
pub struct Client {
    pub token: NodeId,
    pub handle: u32,
    pub subs: Vec<u32>,
    pub items: Vec<(u32, u32)>,
    pub cps: Vec<ByteString>,
    pub added: Vec<NodeId>,
    pub seqs: Vec<(u32, u32)>,
    pub ns: u16,
}

#[derive(Default, Clone)]
pub struct Pools {
    pub objects: Vec<NodeId>,
    pub variables: Vec<NodeId>,
    pub methods: Vec<(NodeId, NodeId)>,
    pub ref_types: Vec<NodeId>,
    pub data_types: Vec<NodeId>,
    pub object_types: Vec<NodeId>,
    pub variable_types: Vec<NodeId>,
    pub views: Vec<NodeId>,
    pub event_sources: Vec<NodeId>,
    /// may never be deleted: the probe node and what holds it
    pub protected: Vec<NodeId>,
}

pub const SERVICES: &[&str] = &[
    "GetEndpoints",
    "RegisterServer",
    "RegisterServer2",
    "FindServers",
    "CreateSession",
    "ActivateSession",
    "CloseSession",
    "Cancel",
    "AddNodes",
    "AddReferences",
    "DeleteNodes",
    "DeleteReferences",
    "Browse",
    "BrowseNext",
    "TranslateBrowsePathsToNodeIds",
    "RegisterNodes",
    "UnregisterNodes",
    "QueryFirst",
    "QueryNext",
    "Read",
    "HistoryRead",
    "Write",
    "HistoryUpdate",
    "Call",
    "CreateMonitoredItems",
    "ModifyMonitoredItems",
    "SetMonitoringMode",
    "SetTriggering",
    "DeleteMonitoredItems",
    "CreateSubscription",
    "ModifySubscription",
    "SetPublishingMode",
    "DeleteSubscriptions",
    "TransferSubscriptions",
    "Publish",
    "Republish",
];

pub struct G<'a> {
    pub rng: &'a mut Rng,
    pub c: &'a Client,
    pub p: &'a Pools,
}

fn pick<T: Clone>(rng: &mut Rng, v: &[T]) -> Option<T> {
    if v.is_empty() {
        None
    } else {
        Some(v[rng.usize(v.len())].clone())
    }
}

impl<'a> G<'a> {
    pub fn header(&mut self) -> RequestHeader {
        let token = match self.rng.below(40) {
            0 => NodeId::null(),
            1 => gen::node_id(self.rng),
            _ => self.c.token.clone(),
        };
        RequestHeader {
            authentication_token: token,
            timestamp: if self.rng.chance(1, 8) { gen::date_time(self.rng) } else { DateTime::now() },
            request_handle: self.c.handle,
            return_diagnostics: DiagnosticBits::from_bits_truncate(if self.rng.chance(1, 4) { self.rng.next_u32() } else { 0 }),
            audit_entry_id: if self.rng.chance(1, 8) { gen::ua_string(self.rng, 12) } else { UAString::null() },
            timeout_hint: *self.rng.pick(&[0u32, 1, 1000, 60_000, u32::MAX]),
            additional_header: if self.rng.chance(1, 10) { gen::extension_object(self.rng, 1) } else { ExtensionObject::null() },
        }
    }

    pub fn any_node(&mut self) -> NodeId {
        let r = self.rng.below(20);
        let p = self.p;
        let v = match r {
            0..=3 => pick(self.rng, &p.objects),
            4..=8 => pick(self.rng, &p.variables),
            9 => pick(self.rng, &p.methods).map(|m| m.1),
            10 => pick(self.rng, &p.ref_types),
            11 => pick(self.rng, &p.data_types),
            12 => pick(self.rng, &p.object_types),
            13 => pick(self.rng, &p.variable_types),
            14 => pick(self.rng, &p.views),
            15 | 16 => pick(self.rng, &self.c.added),
            17 => pick(self.rng, &p.event_sources),
            _ => None,
        };
        v.unwrap_or_else(|| gen::node_id(self.rng))
    }

    pub fn variable(&mut self) -> NodeId {
        if self.rng.chance(5, 6) {
            pick(self.rng, &self.p.variables).unwrap_or_else(NodeId::null)
        } else {
            self.any_node()
        }
    }

    pub fn ref_type(&mut self) -> NodeId {
        match self.rng.below(10) {
            0 => NodeId::null(),
            1 => self.any_node(),
            _ => pick(self.rng, &self.p.ref_types).unwrap_or_else(NodeId::null),
        }
    }

    pub fn expanded(&mut self, n: NodeId) -> ExpandedNodeId {
        ExpandedNodeId {
            node_id: n,
            namespace_uri: if self.rng.chance(1, 12) { gen::ua_string(self.rng, 10) } else { UAString::null() },
            server_index: if self.rng.chance(1, 12) { *self.rng.pick(&[1u32, u32::MAX]) } else { 0 },
        }
    }

    pub fn new_node_id(&mut self) -> NodeId {
        let ns = match self.rng.below(30) {
            0 => 0,
            1 => 1,
            2 => gen::ns_index(self.rng),
            3 => self.c.ns + 1,
            4 => self.c.ns + 2,
            _ => self.c.ns,
        };
        match self.rng.below(6) {
            0 => NodeId::new(ns, self.rng.next_u32()),
            1 => NodeId::new(ns, gen::guid(self.rng)),
            2 => NodeId::new(ns, gen::byte_string(self.rng, 8)),
            3 => NodeId::new(ns, gen::ua_string(self.rng, 10)),
            _ => NodeId::new(ns, format!("new{}", self.rng.next_u32())),
        }
    }

    pub fn browse_name(&mut self) -> QualifiedName {
        const ODD: &[&str] = &["a/b", "a.b", "<x>", "x&y", "#1", "!n", ":", "1:2", "/", ".", "<", ">", "a<b>c", "&", "", " ", "名前", "a\u{0}b", "%", "x#!<>./&:"];
        // mostly namespace 0: AddNodes panics on every other browse-name namespace, which would hide the rest of it
        let ns = match self.rng.below(20) {
            0 => 1,
            1 => gen::ns_index(self.rng),
            2 => self.c.ns,
            _ => 0,
        };
        let name = match self.rng.below(8) {
            0 => UAString::null(),
            1 | 2 => UAString::from(*self.rng.pick(ODD)),
            3 => gen::ua_string(self.rng, 16),
            _ => UAString::from(format!("n{}", self.rng.below(100_000))),
        };
        QualifiedName {
            namespace_index: ns,
            name,
        }
    }

    pub fn range(&mut self) -> UAString {
        match self.rng.below(10) {
            0..=5 => UAString::null(),
            6 => UAString::from("0"),
            7 => UAString::from(format!("{}:{}", self.rng.below(4), 4 + self.rng.below(30))),
            8 => UAString::from(*self.rng.pick(&["1:1", "5:2", "x", "0,1", "0:1,0:1", "4294967295", "4294967296", "-1", ""])),
            _ => UAString::from(format!("{}", self.rng.below(60))),
        }
    }

    pub fn attribute(&mut self) -> u32 {
        match self.rng.below(10) {
            0 => *self.rng.pick(&[0u32, 28, 1000, u32::MAX]),
            1..=5 => 13,
            6 => 12,
            _ => self.rng.range(1, 27) as u32,
        }
    }

    pub fn read_value_id(&mut self) -> ReadValueId {
        let attr = self.attribute();
        ReadValueId {
            node_id: if attr == 13 { self.variable() } else if attr == 12 && self.rng.chance(2, 3) { pick(self.rng, &self.p.event_sources).unwrap_or_else(NodeId::null) } else { self.any_node() },
            attribute_id: attr,
            index_range: self.range(),
            data_encoding: match self.rng.below(12) {
                0 => QualifiedName::new(0, "Default Binary"),
                1 => gen::qualified_name(self.rng),
                _ => QualifiedName::null(),
            },
        }
    }

    pub fn sub_id(&mut self) -> u32 {
        match self.rng.below(10) {
            0 => *self.rng.pick(&[0u32, 1, u32::MAX, 999_999]),
            1 => self.rng.next_u32(),
            _ => pick(self.rng, &self.c.subs).unwrap_or(1),
        }
    }

    pub fn item_ids(&mut self, sub: u32) -> Option<Vec<u32>> {
        if self.rng.chance(1, 15) {
            return None;
        }
        let n = match self.rng.below(6) {
            0 => 0,
            1 | 2 => 1,
            _ => 1 + self.rng.usize(5),
        };
        let known: Vec<u32> = self.c.items.iter().filter(|i| i.0 == sub).map(|i| i.1).collect();
        Some(
            (0..n)
                .map(|_| match self.rng.below(8) {
                    0 => *self.rng.pick(&[0u32, u32::MAX, 12345]),
                    1 => pick(self.rng, &self.c.items).map(|i| i.1).unwrap_or(1),
                    _ => pick(self.rng, &known).unwrap_or(1),
                })
                .collect(),
        )
    }

    pub fn f64_param(&mut self) -> f64 {
        match self.rng.below(10) {
            0 => gen::f64_interesting(self.rng),
            1 => -1.0,
            2 => 0.0,
            3 => 1e300,
            _ => *self.rng.pick(&[1.0, 50.0, 100.0, 250.0, 1000.0]),
        }
    }

    pub fn u32_param(&mut self) -> u32 {
        match self.rng.below(8) {
            0 => 0,
            1 => u32::MAX,
            2 => gen::u32_i(self.rng),
            3 => 1,
            _ => self.rng.below(40) as u32,
        }
    }

    pub fn simple_attribute_operand(&mut self) -> SimpleAttributeOperand {
        const FIELDS: &[&str] = &["EventId", "EventType", "SourceNode", "SourceName", "Time", "ReceiveTime", "Message", "Severity", "LocalTime", "Nope"];
        let n = match self.rng.below(8) {
            0 => 0,
            1 => 2,
            2 => 3,
            _ => 1,
        };
        let path: Vec<QualifiedName> = (0..n)
            .map(|_| match self.rng.below(8) {
                0 => gen::qualified_name(self.rng),
                1 => QualifiedName::null(),
                _ => QualifiedName::new(if self.rng.chance(1, 10) { self.c.ns } else { 0 }, *self.rng.pick(FIELDS)),
            })
            .collect();
        SimpleAttributeOperand {
            type_definition_id: match self.rng.below(8) {
                0 => NodeId::null(),
                1 => self.any_node(),
                2 => pick(self.rng, &self.p.object_types).unwrap_or_else(NodeId::null),
                _ => ObjectTypeId::BaseEventType.into(),
            },
            browse_path: if self.rng.chance(1, 10) { None } else { Some(path) },
            attribute_id: match self.rng.below(6) {
                0 => 1,
                1 => self.attribute(),
                _ => 13,
            },
            index_range: if self.rng.chance(1, 8) { self.range() } else { UAString::null() },
        }
    }

    pub fn operand(&mut self, n_elements: usize, depth: u32) -> ExtensionObject {
        match self.rng.below(12) {
            0..=3 => ExtensionObject::from_encodable(ObjectId::LiteralOperand_Encoding_DefaultBinary, &LiteralOperand { value: gen::variant(self.rng, depth.min(1)) }),
            4..=6 => ExtensionObject::from_encodable(ObjectId::SimpleAttributeOperand_Encoding_DefaultBinary, &self.simple_attribute_operand()),
            7 | 8 => {
                let index = match self.rng.below(6) {
                    0 => 0,
                    1 => n_elements as u32,
                    2 => u32::MAX,
                    _ => self.rng.below(n_elements.max(1) as u64) as u32,
                };
                ExtensionObject::from_encodable(ObjectId::ElementOperand_Encoding_DefaultBinary, &ElementOperand { index })
            }
            9 => ExtensionObject::from_encodable(
                ObjectId::AttributeOperand_Encoding_DefaultBinary,
                &AttributeOperand {
                    node_id: self.any_node(),
                    alias: gen::ua_string(self.rng, 6),
                    browse_path: self.relative_path(),
                    attribute_id: self.attribute(),
                    index_range: self.range(),
                },
            ),
            10 => ExtensionObject::null(),
            _ => gen::extension_object(self.rng, 1),
        }
    }

    pub fn content_filter(&mut self) -> ContentFilter {
        if self.rng.chance(1, 8) {
            return ContentFilter { elements: None };
        }
        let n = match self.rng.below(6) {
            0 => 0,
            1 | 2 => 1,
            _ => 1 + self.rng.usize(5),
        };
        const OPS: &[FilterOperator] = &[
            FilterOperator::Equals,
            FilterOperator::IsNull,
            FilterOperator::GreaterThan,
            FilterOperator::LessThan,
            FilterOperator::GreaterThanOrEqual,
            FilterOperator::LessThanOrEqual,
            FilterOperator::Like,
            FilterOperator::Not,
            FilterOperator::Between,
            FilterOperator::InList,
            FilterOperator::And,
            FilterOperator::Or,
            FilterOperator::Cast,
            FilterOperator::InView,
            FilterOperator::OfType,
            FilterOperator::RelatedTo,
            FilterOperator::BitwiseAnd,
            FilterOperator::BitwiseOr,
        ];
        let elements = (0..n)
            .map(|_| {
                let op = *self.rng.pick(OPS);
                let need = match op {
                    FilterOperator::IsNull | FilterOperator::Not => 1,
                    FilterOperator::Between => 3,
                    FilterOperator::InList => 2 + self.rng.usize(3),
                    _ => 2,
                };
                let k = match self.rng.below(8) {
                    0 => 0,
                    1 => need.saturating_sub(1),
                    2 => need + 1,
                    _ => need,
                };
                ContentFilterElement {
                    filter_operator: op,
                    filter_operands: if self.rng.chance(1, 12) { None } else { Some((0..k).map(|_| self.operand(n, 1)).collect()) },
                }
            })
            .collect();
        ContentFilter { elements: Some(elements) }
    }

    pub fn event_filter(&mut self) -> EventFilter {
        let n = self.rng.usize(5);
        EventFilter {
            select_clauses: if self.rng.chance(1, 10) { None } else { Some((0..n).map(|_| self.simple_attribute_operand()).collect()) },
            where_clause: self.content_filter(),
        }
    }

    pub fn monitoring_filter(&mut self, for_events: bool) -> ExtensionObject {
        let r = self.rng.below(12);
        if for_events && r < 9 || r == 9 {
            return ExtensionObject::from_encodable(ObjectId::EventFilter_Encoding_DefaultBinary, &self.event_filter());
        }
        match r {
            0..=3 => ExtensionObject::null(),
            4..=7 => ExtensionObject::from_encodable(
                ObjectId::DataChangeFilter_Encoding_DefaultBinary,
                &DataChangeFilter {
                    trigger: *self.rng.pick(&[DataChangeTrigger::Status, DataChangeTrigger::StatusValue, DataChangeTrigger::StatusValueTimestamp]),
                    deadband_type: *self.rng.pick(&[0u32, 1, 2, 3, u32::MAX]),
                    deadband_value: self.f64_param(),
                },
            ),
            8 => ExtensionObject::from_encodable(
                ObjectId::AggregateFilter_Encoding_DefaultBinary,
                &AggregateFilter {
                    start_time: gen::date_time(self.rng),
                    aggregate_type: self.any_node(),
                    processing_interval: self.f64_param(),
                    aggregate_configuration: AggregateConfiguration {
                        use_server_capabilities_defaults: self.rng.bool(),
                        treat_uncertain_as_bad: self.rng.bool(),
                        percent_data_bad: gen::u8_i(self.rng),
                        percent_data_good: gen::u8_i(self.rng),
                        use_sloped_extrapolation: self.rng.bool(),
                    },
                },
            ),
            10 => {
                // right type id, body that does not decode
                ExtensionObject {
                    node_id: if self.rng.bool() { ObjectId::EventFilter_Encoding_DefaultBinary.into() } else { ObjectId::DataChangeFilter_Encoding_DefaultBinary.into() },
                    body: ExtensionObjectEncoding::ByteString(gen::byte_string(self.rng, 24)),
                }
            }
            _ => gen::extension_object(self.rng, 1),
        }
    }

    pub fn monitoring_parameters(&mut self, for_events: bool) -> MonitoringParameters {
        MonitoringParameters {
            client_handle: self.rng.next_u32(),
            sampling_interval: self.f64_param(),
            filter: self.monitoring_filter(for_events),
            queue_size: self.u32_param(),
            discard_oldest: self.rng.bool(),
        }
    }

    pub fn relative_path(&mut self) -> RelativePath {
        if self.rng.chance(1, 10) {
            return RelativePath { elements: None };
        }
        let n = self.rng.usize(5);
        const NAMES: &[&str] = &["Objects", "Server", "ServerStatus", "State", "Types", "vh", "w", "o0", "v_i32", "ServerCapabilities", "Nope"];
        RelativePath {
            elements: Some(
                (0..n)
                    .map(|_| RelativePathElement {
                        reference_type_id: self.ref_type(),
                        is_inverse: self.rng.chance(1, 4),
                        include_subtypes: self.rng.bool(),
                        target_name: match self.rng.below(6) {
                            0 => self.browse_name(),
                            1 => QualifiedName::null(),
                            _ => QualifiedName::new(if self.rng.chance(1, 3) { self.c.ns } else { 0 }, *self.rng.pick(NAMES)),
                        },
                    })
                    .collect(),
            ),
        }
    }

    fn node_attributes(&mut self, class: NodeClass) -> ExtensionObject {
        let mask = match self.rng.below(8) {
            0 => 0,
            1 => self.rng.next_u32(),
            2 => u32::MAX,
            3 => 0x003f_9ffb & self.rng.next_u32(),
            4 => 0x003f_ffff,
            // every bit the server's AttributesMask knows (it rejects BrowseName, NodeClass and NodeId bits)
            _ => 0x003f_9ffb,
        };
        let dn = if self.rng.chance(1, 8) { gen::localized_text(self.rng) } else { LocalizedText::from("added") };
        let desc = gen::localized_text(self.rng);
        let wm = if self.rng.bool() { 0 } else { self.rng.next_u32() };
        let uwm = if self.rng.bool() { 0 } else { self.rng.next_u32() };
        // the attribute structure normally matches the class; sometimes another one is sent
        let class = if self.rng.chance(1, 10) {
            *self.rng.pick(&[NodeClass::Object, NodeClass::Variable, NodeClass::Method, NodeClass::ObjectType, NodeClass::VariableType, NodeClass::ReferenceType, NodeClass::DataType, NodeClass::View])
        } else {
            class
        };
        let dims = |rng: &mut Rng| -> Option<Vec<u32>> {
            match rng.below(4) {
                0 => None,
                1 => Some(vec![]),
                _ => Some((0..1 + rng.usize(3)).map(|_| rng.below(5) as u32).collect()),
            }
        };
        match class {
            NodeClass::Object | NodeClass::Unspecified => ExtensionObject::from_encodable(
                ObjectId::ObjectAttributes_Encoding_DefaultBinary,
                &ObjectAttributes {
                    specified_attributes: mask,
                    display_name: dn,
                    description: desc,
                    write_mask: wm,
                    user_write_mask: uwm,
                    event_notifier: gen::u8_i(self.rng),
                },
            ),
            NodeClass::Variable => ExtensionObject::from_encodable(
                ObjectId::VariableAttributes_Encoding_DefaultBinary,
                &VariableAttributes {
                    specified_attributes: mask,
                    display_name: dn,
                    description: desc,
                    write_mask: wm,
                    user_write_mask: uwm,
                    value: gen::variant(self.rng, 1),
                    data_type: match self.rng.below(4) {
                        0 => self.any_node(),
                        _ => pick(self.rng, &self.p.data_types).unwrap_or_else(NodeId::null),
                    },
                    value_rank: *self.rng.pick(&[-3, -2, -1, 0, 1, 2, i32::MAX, i32::MIN]),
                    array_dimensions: dims(self.rng),
                    access_level: gen::u8_i(self.rng),
                    user_access_level: gen::u8_i(self.rng),
                    minimum_sampling_interval: self.f64_param(),
                    historizing: self.rng.bool(),
                },
            ),
            NodeClass::Method => ExtensionObject::from_encodable(
                ObjectId::MethodAttributes_Encoding_DefaultBinary,
                &MethodAttributes {
                    specified_attributes: mask,
                    display_name: dn,
                    description: desc,
                    write_mask: wm,
                    user_write_mask: uwm,
                    executable: self.rng.bool(),
                    user_executable: self.rng.bool(),
                },
            ),
            NodeClass::ObjectType => ExtensionObject::from_encodable(
                ObjectId::ObjectTypeAttributes_Encoding_DefaultBinary,
                &ObjectTypeAttributes {
                    specified_attributes: mask,
                    display_name: dn,
                    description: desc,
                    write_mask: wm,
                    user_write_mask: uwm,
                    is_abstract: self.rng.bool(),
                },
            ),
            NodeClass::VariableType => ExtensionObject::from_encodable(
                ObjectId::VariableTypeAttributes_Encoding_DefaultBinary,
                &VariableTypeAttributes {
                    specified_attributes: mask,
                    display_name: dn,
                    description: desc,
                    write_mask: wm,
                    user_write_mask: uwm,
                    value: gen::variant(self.rng, 1),
                    data_type: pick(self.rng, &self.p.data_types).unwrap_or_else(NodeId::null),
                    value_rank: *self.rng.pick(&[-3, -2, -1, 0, 1, 2]),
                    array_dimensions: dims(self.rng),
                    is_abstract: self.rng.bool(),
                },
            ),
            NodeClass::ReferenceType => ExtensionObject::from_encodable(
                ObjectId::ReferenceTypeAttributes_Encoding_DefaultBinary,
                &ReferenceTypeAttributes {
                    specified_attributes: mask,
                    display_name: dn,
                    description: desc,
                    write_mask: wm,
                    user_write_mask: uwm,
                    is_abstract: self.rng.bool(),
                    symmetric: self.rng.bool(),
                    inverse_name: gen::localized_text(self.rng),
                },
            ),
            NodeClass::DataType => ExtensionObject::from_encodable(
                ObjectId::DataTypeAttributes_Encoding_DefaultBinary,
                &DataTypeAttributes {
                    specified_attributes: mask,
                    display_name: dn,
                    description: desc,
                    write_mask: wm,
                    user_write_mask: uwm,
                    is_abstract: self.rng.bool(),
                },
            ),
            NodeClass::View => ExtensionObject::from_encodable(
                ObjectId::ViewAttributes_Encoding_DefaultBinary,
                &ViewAttributes {
                    specified_attributes: mask,
                    display_name: dn,
                    description: desc,
                    write_mask: wm,
                    user_write_mask: uwm,
                    contains_no_loops: self.rng.bool(),
                    event_notifier: gen::u8_i(self.rng),
                },
            ),
        }
    }

    fn add_nodes_item(&mut self) -> AddNodesItem {
        const CLASSES: &[NodeClass] = &[
            NodeClass::Object,
            NodeClass::Object,
            NodeClass::Variable,
            NodeClass::Variable,
            NodeClass::Method,
            NodeClass::ObjectType,
            NodeClass::VariableType,
            NodeClass::ReferenceType,
            NodeClass::DataType,
            NodeClass::View,
            NodeClass::Unspecified,
        ];
        let class = *self.rng.pick(CLASSES);
        let parent = match self.rng.below(8) {
            0 => self.any_node(),
            1 => NodeId::null(),
            _ => pick(self.rng, &self.p.objects).unwrap_or_else(NodeId::null),
        };
        let type_def = match class {
            NodeClass::Object => match self.rng.below(6) {
                0 => NodeId::null(),
                1 => self.any_node(),
                _ => pick(self.rng, &self.p.object_types).unwrap_or_else(NodeId::null),
            },
            NodeClass::Variable => match self.rng.below(6) {
                0 => NodeId::null(),
                1 => self.any_node(),
                _ => pick(self.rng, &self.p.variable_types).unwrap_or_else(NodeId::null),
            },
            _ => {
                if self.rng.chance(1, 8) {
                    self.any_node()
                } else {
                    NodeId::null()
                }
            }
        };
        let requested = match self.rng.below(8) {
            0 | 1 => NodeId::null(),
            2 => self.any_node(),
            3 => parent.clone(),
            _ => self.new_node_id(),
        };
        AddNodesItem {
            parent_node_id: self.expanded(parent),
            reference_type_id: match self.rng.below(8) {
                0 => self.ref_type(),
                1 => ReferenceTypeId::HasProperty.into(),
                2 => ReferenceTypeId::Organizes.into(),
                3 => ReferenceTypeId::HasSubtype.into(),
                _ => ReferenceTypeId::HasComponent.into(),
            },
            requested_new_node_id: self.expanded(requested),
            browse_name: self.browse_name(),
            node_class: class,
            node_attributes: if self.rng.chance(1, 12) { gen::extension_object(self.rng, 1) } else { self.node_attributes(class) },
            type_definition: self.expanded(type_def),
        }
    }

    fn class_guess(&mut self, n: &NodeId) -> NodeClass {
        let p = self.p;
        if self.rng.chance(1, 10) {
            return *self.rng.pick(&[NodeClass::Unspecified, NodeClass::Object, NodeClass::Variable, NodeClass::Method, NodeClass::DataType]);
        }
        if p.variables.contains(n) {
            NodeClass::Variable
        } else if p.ref_types.contains(n) {
            NodeClass::ReferenceType
        } else if p.data_types.contains(n) {
            NodeClass::DataType
        } else if p.object_types.contains(n) {
            NodeClass::ObjectType
        } else if p.variable_types.contains(n) {
            NodeClass::VariableType
        } else if p.views.contains(n) {
            NodeClass::View
        } else if p.methods.iter().any(|m| &m.1 == n) {
            NodeClass::Method
        } else {
            NodeClass::Object
        }
    }

    fn add_references_item(&mut self) -> AddReferencesItem {
        // pairs within one pool make type-hierarchy and aggregation cycles possible
        let (source, target) = match self.rng.below(30) {
            0 => {
                let n = self.any_node();
                (n.clone(), n)
            }
            1..=6 => (pick(self.rng, &self.p.ref_types).unwrap_or_else(NodeId::null), pick(self.rng, &self.p.ref_types).unwrap_or_else(NodeId::null)),
            7..=12 => (pick(self.rng, &self.p.data_types).unwrap_or_else(NodeId::null), pick(self.rng, &self.p.data_types).unwrap_or_else(NodeId::null)),
            13..=18 => (pick(self.rng, &self.p.objects).unwrap_or_else(NodeId::null), pick(self.rng, &self.p.objects).unwrap_or_else(NodeId::null)),
            _ => (self.any_node(), self.any_node()),
        };
        let class = self.class_guess(&target);
        AddReferencesItem {
            source_node_id: source,
            reference_type_id: match self.rng.below(6) {
                0 => self.ref_type(),
                1 | 2 => ReferenceTypeId::HasSubtype.into(),
                3 => ReferenceTypeId::HasComponent.into(),
                4 => ReferenceTypeId::HasProperty.into(),
                _ => ReferenceTypeId::Organizes.into(),
            },
            is_forward: self.rng.chance(3, 4),
            target_server_uri: if self.rng.chance(1, 15) { gen::ua_string(self.rng, 8) } else { UAString::null() },
            target_node_id: self.expanded(target),
            target_node_class: class,
        }
    }

    fn deletable(&mut self) -> NodeId {
        for _ in 0..8 {
            let n = match self.rng.below(4) {
                0 | 1 => pick(self.rng, &self.c.added).unwrap_or_else(|| gen::node_id(self.rng)),
                _ => self.any_node(),
            };
            if !self.p.protected.contains(&n) {
                return n;
            }
        }
        NodeId::null()
    }

    fn history_details(&mut self) -> ExtensionObject {
        let t0 = gen::date_time(self.rng);
        let t1 = gen::date_time(self.rng);
        match self.rng.below(7) {
            0 => ExtensionObject::from_encodable(
                ObjectId::ReadRawModifiedDetails_Encoding_DefaultBinary,
                &ReadRawModifiedDetails {
                    is_read_modified: self.rng.bool(),
                    start_time: t0,
                    end_time: t1,
                    num_values_per_node: self.u32_param(),
                    return_bounds: self.rng.bool(),
                },
            ),
            1 => ExtensionObject::from_encodable(
                ObjectId::ReadEventDetails_Encoding_DefaultBinary,
                &ReadEventDetails {
                    num_values_per_node: self.u32_param(),
                    start_time: t0,
                    end_time: t1,
                    filter: self.event_filter(),
                },
            ),
            2 => ExtensionObject::from_encodable(
                ObjectId::ReadProcessedDetails_Encoding_DefaultBinary,
                &ReadProcessedDetails {
                    start_time: t0,
                    end_time: t1,
                    processing_interval: self.f64_param(),
                    aggregate_type: if self.rng.bool() { None } else { Some(vec![self.any_node()]) },
                    aggregate_configuration: AggregateConfiguration {
                        use_server_capabilities_defaults: true,
                        treat_uncertain_as_bad: false,
                        percent_data_bad: 0,
                        percent_data_good: 0,
                        use_sloped_extrapolation: false,
                    },
                },
            ),
            3 => ExtensionObject::from_encodable(
                ObjectId::ReadAtTimeDetails_Encoding_DefaultBinary,
                &ReadAtTimeDetails {
                    req_times: if self.rng.bool() { None } else { Some(vec![t0, t1]) },
                    use_simple_bounds: self.rng.bool(),
                },
            ),
            4 => ExtensionObject {
                node_id: ObjectId::ReadRawModifiedDetails_Encoding_DefaultBinary.into(),
                body: ExtensionObjectEncoding::ByteString(gen::byte_string(self.rng, 12)),
            },
            5 => ExtensionObject::null(),
            _ => gen::extension_object(self.rng, 1),
        }
    }

    fn history_update_details(&mut self) -> ExtensionObject {
        let node = self.variable();
        let put = *self.rng.pick(&[PerformUpdateType::Insert, PerformUpdateType::Replace, PerformUpdateType::Update, PerformUpdateType::Remove]);
        match self.rng.below(9) {
            0 => ExtensionObject::from_encodable(
                ObjectId::UpdateDataDetails_Encoding_DefaultBinary,
                &UpdateDataDetails {
                    node_id: node,
                    perform_insert_replace: put,
                    update_values: if self.rng.bool() { None } else { Some(vec![gen::data_value(self.rng, 1)]) },
                },
            ),
            1 => ExtensionObject::from_encodable(
                ObjectId::UpdateStructureDataDetails_Encoding_DefaultBinary,
                &UpdateStructureDataDetails {
                    node_id: node,
                    perform_insert_replace: put,
                    update_values: Some(vec![gen::data_value(self.rng, 1)]),
                },
            ),
            2 => ExtensionObject::from_encodable(
                ObjectId::UpdateEventDetails_Encoding_DefaultBinary,
                &UpdateEventDetails {
                    node_id: node,
                    perform_insert_replace: put,
                    filter: self.event_filter(),
                    event_data: Some(vec![HistoryEventFieldList { event_fields: Some(vec![gen::variant(self.rng, 1)]) }]),
                },
            ),
            3 => ExtensionObject::from_encodable(
                ObjectId::DeleteRawModifiedDetails_Encoding_DefaultBinary,
                &DeleteRawModifiedDetails {
                    node_id: node,
                    is_delete_modified: self.rng.bool(),
                    start_time: gen::date_time(self.rng),
                    end_time: gen::date_time(self.rng),
                },
            ),
            4 => ExtensionObject::from_encodable(
                ObjectId::DeleteAtTimeDetails_Encoding_DefaultBinary,
                &DeleteAtTimeDetails {
                    node_id: node,
                    req_times: Some(vec![gen::date_time(self.rng)]),
                },
            ),
            5 => ExtensionObject::from_encodable(
                ObjectId::DeleteEventDetails_Encoding_DefaultBinary,
                &DeleteEventDetails {
                    node_id: node,
                    event_ids: Some(vec![gen::byte_string(self.rng, 8)]),
                },
            ),
            6 => ExtensionObject {
                node_id: ObjectId::UpdateDataDetails_Encoding_DefaultBinary.into(),
                body: ExtensionObjectEncoding::ByteString(gen::byte_string(self.rng, 12)),
            },
            7 => ExtensionObject::null(),
            _ => gen::extension_object(self.rng, 1),
        }
    }

    fn strings(&mut self) -> Option<Vec<UAString>> {
        match self.rng.below(4) {
            0 => None,
            1 => Some(vec![]),
            _ => Some((0..1 + self.rng.usize(3)).map(|_| gen::ua_string(self.rng, 12)).collect()),
        }
    }

    fn registered_server(&mut self) -> RegisteredServer {
        RegisteredServer {
            server_uri: gen::ua_string(self.rng, 20),
            product_uri: gen::ua_string(self.rng, 20),
            server_names: if self.rng.bool() { None } else { Some(vec![gen::localized_text(self.rng)]) },
            server_type: *self.rng.pick(&[ApplicationType::Server, ApplicationType::Client, ApplicationType::ClientAndServer, ApplicationType::DiscoveryServer]),
            gateway_server_uri: gen::ua_string(self.rng, 10),
            discovery_urls: self.strings(),
            semaphore_file_path: gen::ua_string(self.rng, 10),
            is_online: self.rng.bool(),
        }
    }

    fn opt_vec<T>(&mut self, max: usize, mut f: impl FnMut(&mut Self) -> T) -> Option<Vec<T>> {
        // at the operation limit and one above it now and then; mostly a handful
        match self.rng.below(40) {
            0 | 1 => None,
            2 | 3 => Some(vec![]),
            4 => Some((0..max).map(|_| f(self)).collect()),
            5 => Some((0..max + 1).map(|_| f(self)).collect()),
            6..=22 => Some(vec![f(self)]),
            _ => {
                let n = 1 + self.rng.usize(4.min(max));
                Some((0..n).map(|_| f(self)).collect())
            }
        }
    }

    /// A hand-built request of the named service
    pub fn request(&mut self, service: &str) -> SupportedMessage {
        let h = self.header();
        match service {
            "GetEndpoints" => GetEndpointsRequest {
                request_header: h,
                endpoint_url: if self.rng.bool() { UAString::from(ENDPOINT_URL) } else { gen::ua_string(self.rng, 30) },
                locale_ids: self.strings(),
                profile_uris: self.strings(),
            }
            .into(),
            "RegisterServer" => RegisterServerRequest {
                request_header: h,
                server: self.registered_server(),
            }
            .into(),
            "RegisterServer2" => RegisterServer2Request {
                request_header: h,
                server: self.registered_server(),
                discovery_configuration: if self.rng.bool() { None } else { Some(vec![gen::extension_object(self.rng, 1)]) },
            }
            .into(),
            "FindServers" => FindServersRequest {
                request_header: h,
                endpoint_url: if self.rng.bool() { UAString::from(ENDPOINT_URL) } else { gen::ua_string(self.rng, 30) },
                locale_ids: self.strings(),
                server_uris: self.strings(),
            }
            .into(),
            "CreateSession" => CreateSessionRequest {
                request_header: h,
                client_description: ApplicationDescription {
                    application_uri: gen::ua_string(self.rng, 20),
                    product_uri: gen::ua_string(self.rng, 20),
                    application_name: gen::localized_text(self.rng),
                    application_type: ApplicationType::Client,
                    gateway_server_uri: UAString::null(),
                    discovery_profile_uri: UAString::null(),
                    discovery_urls: self.strings(),
                },
                server_uri: gen::ua_string(self.rng, 10),
                endpoint_url: match self.rng.below(4) {
                    0 => gen::ua_string(self.rng, 30),
                    _ => UAString::from(ENDPOINT_URL),
                },
                session_name: gen::ua_string(self.rng, 12),
                client_nonce: gen::byte_string(self.rng, 40),
                client_certificate: gen::byte_string(self.rng, 40),
                requested_session_timeout: self.f64_param(),
                max_response_message_size: self.u32_param(),
            }
            .into(),
            "ActivateSession" => ActivateSessionRequest {
                request_header: h,
                client_signature: SignatureData {
                    algorithm: gen::ua_string(self.rng, 20),
                    signature: gen::byte_string(self.rng, 40),
                },
                client_software_certificates: if self.rng.bool() {
                    None
                } else {
                    Some(vec![SignedSoftwareCertificate {
                        certificate_data: gen::byte_string(self.rng, 20),
                        signature: gen::byte_string(self.rng, 20),
                    }])
                },
                locale_ids: self.strings(),
                user_identity_token: match self.rng.below(8) {
                    0 => ExtensionObject::null(),
                    1 => gen::extension_object(self.rng, 1),
                    2 => ExtensionObject::from_encodable(
                        ObjectId::UserNameIdentityToken_Encoding_DefaultBinary,
                        &UserNameIdentityToken {
                            policy_id: UAString::from(*self.rng.pick(&["userpass_none", "userpass_rsa_15", "userpass_rsa_oaep", "anonymous", ""])),
                            user_name: gen::ua_string(self.rng, 10),
                            password: gen::byte_string(self.rng, 300),
                            encryption_algorithm: match self.rng.below(4) {
                                0 => UAString::null(),
                                1 => UAString::from("http://www.w3.org/2001/04/xmlenc#rsa-1_5"),
                                2 => UAString::from("http://www.w3.org/2001/04/xmlenc#rsa-oaep"),
                                _ => gen::ua_string(self.rng, 20),
                            },
                        },
                    ),
                    3 => ExtensionObject::from_encodable(
                        ObjectId::X509IdentityToken_Encoding_DefaultBinary,
                        &X509IdentityToken {
                            policy_id: UAString::from("x509"),
                            certificate_data: gen::byte_string(self.rng, 60),
                        },
                    ),
                    _ => ExtensionObject::from_encodable(
                        ObjectId::AnonymousIdentityToken_Encoding_DefaultBinary,
                        &AnonymousIdentityToken {
                            policy_id: if self.rng.chance(1, 5) { gen::ua_string(self.rng, 8) } else { UAString::from("anonymous") },
                        },
                    ),
                },
                user_token_signature: SignatureData {
                    algorithm: gen::ua_string(self.rng, 20),
                    signature: gen::byte_string(self.rng, 40),
                },
            }
            .into(),
            "CloseSession" => CloseSessionRequest {
                request_header: h,
                delete_subscriptions: self.rng.bool(),
            }
            .into(),
            "Cancel" => CancelRequest {
                request_header: h,
                request_handle: self.u32_param(),
            }
            .into(),
            "AddNodes" => AddNodesRequest {
                request_header: h,
                nodes_to_add: self.opt_vec(100, |g| g.add_nodes_item()),
            }
            .into(),
            "AddReferences" => AddReferencesRequest {
                request_header: h,
                references_to_add: self.opt_vec(100, |g| g.add_references_item()),
            }
            .into(),
            "DeleteNodes" => DeleteNodesRequest {
                request_header: h,
                nodes_to_delete: self.opt_vec(100, |g| DeleteNodesItem {
                    node_id: g.deletable(),
                    delete_target_references: g.rng.bool(),
                }),
            }
            .into(),
            "DeleteReferences" => DeleteReferencesRequest {
                request_header: h,
                references_to_delete: self.opt_vec(100, |g| {
                    let s = g.any_node();
                    let t = g.any_node();
                    DeleteReferencesItem {
                        source_node_id: s,
                        reference_type_id: g.ref_type(),
                        is_forward: g.rng.bool(),
                        target_node_id: g.expanded(t),
                        delete_bidirectional: g.rng.bool(),
                    }
                }),
            }
            .into(),
            "Browse" => BrowseRequest {
                request_header: h,
                view: ViewDescription {
                    view_id: if self.rng.chance(1, 12) { self.any_node() } else { NodeId::null() },
                    timestamp: if self.rng.chance(1, 12) { gen::date_time(self.rng) } else { DateTime::null() },
                    view_version: if self.rng.chance(1, 12) { self.rng.next_u32() } else { 0 },
                },
                requested_max_references_per_node: *self.rng.pick(&[0u32, 1, 2, 3, 10, 255, 256, u32::MAX]),
                nodes_to_browse: self.opt_vec(50, |g| BrowseDescription {
                    node_id: g.any_node(),
                    browse_direction: *g.rng.pick(&[BrowseDirection::Forward, BrowseDirection::Inverse, BrowseDirection::Both, BrowseDirection::Invalid]),
                    reference_type_id: g.ref_type(),
                    include_subtypes: g.rng.bool(),
                    node_class_mask: if g.rng.bool() { 0 } else { g.rng.next_u32() },
                    result_mask: if g.rng.bool() { 0x3f } else { g.rng.next_u32() },
                }),
            }
            .into(),
            "BrowseNext" => BrowseNextRequest {
                request_header: h,
                release_continuation_points: self.rng.chance(1, 4),
                continuation_points: self.opt_vec(10, |g| match g.rng.below(4) {
                    0 => gen::byte_string(g.rng, 8),
                    _ => pick(g.rng, &g.c.cps).unwrap_or_else(ByteString::null),
                }),
            }
            .into(),
            "TranslateBrowsePathsToNodeIds" => TranslateBrowsePathsToNodeIdsRequest {
                request_header: h,
                browse_paths: self.opt_vec(10, |g| BrowsePath {
                    starting_node: g.any_node(),
                    relative_path: g.relative_path(),
                }),
            }
            .into(),
            "RegisterNodes" => RegisterNodesRequest {
                request_header: h,
                nodes_to_register: self.opt_vec(10, |g| g.any_node()),
            }
            .into(),
            "UnregisterNodes" => UnregisterNodesRequest {
                request_header: h,
                nodes_to_unregister: self.opt_vec(10, |g| g.any_node()),
            }
            .into(),
            "QueryFirst" => QueryFirstRequest {
                request_header: h,
                view: ViewDescription {
                    view_id: NodeId::null(),
                    timestamp: DateTime::null(),
                    view_version: 0,
                },
                node_types: self.opt_vec(4, |g| {
                    let n = g.any_node();
                    NodeTypeDescription {
                        type_definition_node: g.expanded(n),
                        include_sub_types: g.rng.bool(),
                        data_to_return: Some(vec![QueryDataDescription {
                            relative_path: g.relative_path(),
                            attribute_id: g.attribute(),
                            index_range: g.range(),
                        }]),
                    }
                }),
                filter: self.content_filter(),
                max_data_sets_to_return: self.u32_param(),
                max_references_to_return: self.u32_param(),
            }
            .into(),
            "QueryNext" => QueryNextRequest {
                request_header: h,
                release_continuation_point: self.rng.bool(),
                continuation_point: gen::byte_string(self.rng, 8),
            }
            .into(),
            "Read" => ReadRequest {
                request_header: h,
                max_age: match self.rng.below(6) {
                    0 => self.f64_param(),
                    _ => 0.0,
                },
                timestamps_to_return: *self.rng.pick(&[TimestampsToReturn::Both, TimestampsToReturn::Neither, TimestampsToReturn::Source, TimestampsToReturn::Server, TimestampsToReturn::Invalid]),
                nodes_to_read: self.opt_vec(50, |g| g.read_value_id()),
            }
            .into(),
            "HistoryRead" => HistoryReadRequest {
                request_header: h,
                history_read_details: self.history_details(),
                timestamps_to_return: *self.rng.pick(&[TimestampsToReturn::Both, TimestampsToReturn::Neither, TimestampsToReturn::Invalid]),
                release_continuation_points: self.rng.bool(),
                nodes_to_read: self.opt_vec(10, |g| HistoryReadValueId {
                    node_id: g.variable(),
                    index_range: g.range(),
                    data_encoding: QualifiedName::null(),
                    continuation_point: if g.rng.bool() { ByteString::null() } else { gen::byte_string(g.rng, 8) },
                }),
            }
            .into(),
            "Write" => WriteRequest {
                request_header: h,
                nodes_to_write: self.opt_vec(10, |g| {
                    let attr = g.attribute();
                    WriteValue {
                        node_id: if attr == 13 { g.variable() } else { g.any_node() },
                        attribute_id: attr,
                        index_range: g.range(),
                        value: match g.rng.below(8) {
                            0 => DataValue::null(),
                            1 => gen::data_value(g.rng, 2),
                            2 => DataValue::value_only(Variant::Int32(g.rng.next_u32() as i32)),
                            3 => DataValue::value_only(Variant::from(gen::string(g.rng, 12))),
                            _ => DataValue::value_only(gen::variant(g.rng, 2)),
                        },
                    }
                }),
            }
            .into(),
            "HistoryUpdate" => HistoryUpdateRequest {
                request_header: h,
                history_update_details: self.opt_vec(10, |g| g.history_update_details()),
            }
            .into(),
            "Call" => CallRequest {
                request_header: h,
                methods_to_call: self.opt_vec(10, |g| {
                    let (o, m) = match g.rng.below(6) {
                        0 => (g.any_node(), g.any_node()),
                        1 => (g.any_node(), pick(g.rng, &g.p.methods).map(|m| m.1).unwrap_or_else(NodeId::null)),
                        _ => pick(g.rng, &g.p.methods).unwrap_or((NodeId::null(), NodeId::null())),
                    };
                    CallMethodRequest {
                        object_id: o,
                        method_id: m,
                        input_arguments: match g.rng.below(8) {
                            0 => None,
                            1 => Some(vec![]),
                            2 => Some(vec![gen::variant(g.rng, 2)]),
                            3 => Some(vec![Variant::UInt32(g.sub_id()), Variant::UInt32(1)]),
                            4 => Some(vec![Variant::Int32(1)]),
                            _ => Some(vec![Variant::UInt32(g.sub_id())]),
                        },
                    }
                }),
            }
            .into(),
            "CreateMonitoredItems" => CreateMonitoredItemsRequest {
                request_header: h,
                subscription_id: self.sub_id(),
                timestamps_to_return: *self.rng.pick(&[TimestampsToReturn::Both, TimestampsToReturn::Neither, TimestampsToReturn::Source, TimestampsToReturn::Server, TimestampsToReturn::Invalid]),
                items_to_create: self.opt_vec(10, |g| {
                    let item = g.read_value_id();
                    let for_events = item.attribute_id == 12;
                    MonitoredItemCreateRequest {
                        item_to_monitor: item,
                        monitoring_mode: *g.rng.pick(&[MonitoringMode::Reporting, MonitoringMode::Reporting, MonitoringMode::Sampling, MonitoringMode::Disabled]),
                        requested_parameters: g.monitoring_parameters(for_events),
                    }
                }),
            }
            .into(),
            "ModifyMonitoredItems" => {
                let sub = self.sub_id();
                ModifyMonitoredItemsRequest {
                    request_header: h,
                    subscription_id: sub,
                    timestamps_to_return: *self.rng.pick(&[TimestampsToReturn::Both, TimestampsToReturn::Neither, TimestampsToReturn::Invalid]),
                    items_to_modify: self.opt_vec(10, |g| {
                        let for_events = g.rng.chance(1, 3);
                        MonitoredItemModifyRequest {
                            monitored_item_id: g.item_ids(sub).and_then(|v| v.first().copied()).unwrap_or(1),
                            requested_parameters: g.monitoring_parameters(for_events),
                        }
                    }),
                }
                .into()
            }
            "SetMonitoringMode" => {
                let sub = self.sub_id();
                SetMonitoringModeRequest {
                    request_header: h,
                    subscription_id: sub,
                    monitoring_mode: *self.rng.pick(&[MonitoringMode::Reporting, MonitoringMode::Sampling, MonitoringMode::Disabled]),
                    monitored_item_ids: self.item_ids(sub),
                }
                .into()
            }
            "SetTriggering" => {
                let sub = self.sub_id();
                SetTriggeringRequest {
                    request_header: h,
                    subscription_id: sub,
                    triggering_item_id: self.item_ids(sub).and_then(|v| v.first().copied()).unwrap_or(1),
                    links_to_add: self.item_ids(sub),
                    links_to_remove: self.item_ids(sub),
                }
                .into()
            }
            "DeleteMonitoredItems" => {
                let sub = self.sub_id();
                DeleteMonitoredItemsRequest {
                    request_header: h,
                    subscription_id: sub,
                    monitored_item_ids: self.item_ids(sub),
                }
                .into()
            }
            "CreateSubscription" => CreateSubscriptionRequest {
                request_header: h,
                requested_publishing_interval: self.f64_param(),
                requested_lifetime_count: self.u32_param(),
                requested_max_keep_alive_count: self.u32_param(),
                max_notifications_per_publish: self.u32_param(),
                publishing_enabled: self.rng.chance(4, 5),
                priority: gen::u8_i(self.rng),
            }
            .into(),
            "ModifySubscription" => ModifySubscriptionRequest {
                request_header: h,
                subscription_id: self.sub_id(),
                requested_publishing_interval: self.f64_param(),
                requested_lifetime_count: self.u32_param(),
                requested_max_keep_alive_count: self.u32_param(),
                max_notifications_per_publish: self.u32_param(),
                priority: gen::u8_i(self.rng),
            }
            .into(),
            "SetPublishingMode" => SetPublishingModeRequest {
                request_header: h,
                publishing_enabled: self.rng.bool(),
                subscription_ids: self.opt_vec(6, |g| g.sub_id()),
            }
            .into(),
            "DeleteSubscriptions" => DeleteSubscriptionsRequest {
                request_header: h,
                subscription_ids: self.opt_vec(6, |g| g.sub_id()),
            }
            .into(),
            "TransferSubscriptions" => TransferSubscriptionsRequest {
                request_header: h,
                subscription_ids: self.opt_vec(6, |g| g.sub_id()),
                send_initial_values: self.rng.bool(),
            }
            .into(),
            "Publish" => PublishRequest {
                request_header: h,
                subscription_acknowledgements: self.acks(),
            }
            .into(),
            "Republish" => {
                let (s, n) = pick(self.rng, &self.c.seqs).unwrap_or((self.sub_id(), 1));
                RepublishRequest {
                    request_header: h,
                    subscription_id: if self.rng.chance(1, 6) { self.sub_id() } else { s },
                    retransmit_sequence_number: if self.rng.chance(1, 4) { self.u32_param() } else { n },
                }
                .into()
            }
            other => panic!("harness: unknown service {}", other),
        }
    }

    fn plain_header(&mut self) -> RequestHeader {
        let mut h = RequestHeader::new(&self.c.token, &DateTime::now(), self.c.handle);
        h.timeout_hint = 10_000;
        h
    }

    fn object_attrs(&mut self) -> ExtensionObject {
        ExtensionObject::from_encodable(
            ObjectId::ObjectAttributes_Encoding_DefaultBinary,
            &ObjectAttributes {
                specified_attributes: (AttributesMask::DISPLAY_NAME | AttributesMask::DESCRIPTION | AttributesMask::EVENT_NOTIFIER | AttributesMask::WRITE_MASK | AttributesMask::USER_WRITE_MASK).bits(),
                display_name: LocalizedText::from("added"),
                description: LocalizedText::from("added"),
                write_mask: 0,
                user_write_mask: 0,
                event_notifier: 0,
            },
        )
    }

    fn add_ref(&mut self, s: NodeId, t: NodeId, rt: ReferenceTypeId, class: NodeClass) -> SupportedMessage {
        AddReferencesRequest {
            request_header: self.plain_header(),
            references_to_add: Some(vec![AddReferencesItem {
                source_node_id: s,
                reference_type_id: rt.into(),
                is_forward: true,
                target_server_uri: UAString::null(),
                target_node_id: ExpandedNodeId::new(t),
                target_node_class: class,
            }]),
        }
        .into()
    }

    fn event_item(&mut self, where_clause: ContentFilter) -> SupportedMessage {
        let filter = EventFilter {
            select_clauses: Some(vec![SimpleAttributeOperand {
                type_definition_id: ObjectTypeId::BaseEventType.into(),
                browse_path: Some(vec![QualifiedName::new(0, "Message")]),
                attribute_id: 13,
                index_range: UAString::null(),
            }]),
            where_clause,
        };
        CreateMonitoredItemsRequest {
            request_header: self.plain_header(),
            subscription_id: self.c.subs.last().copied().unwrap_or(1),
            timestamps_to_return: TimestampsToReturn::Both,
            items_to_create: Some(vec![MonitoredItemCreateRequest {
                item_to_monitor: ReadValueId {
                    node_id: self.p.event_sources.first().cloned().unwrap_or_else(NodeId::null),
                    attribute_id: 12,
                    index_range: UAString::null(),
                    data_encoding: QualifiedName::null(),
                },
                monitoring_mode: MonitoringMode::Reporting,
                requested_parameters: MonitoringParameters {
                    client_handle: 1,
                    sampling_interval: 0.0,
                    filter: ExtensionObject::from_encodable(ObjectId::EventFilter_Encoding_DefaultBinary, &filter),
                    queue_size: 10,
                    discard_oldest: true,
                },
            }]),
        }
        .into()
    }

    /// Requests of the directed sequences: shapes that the random generators reach rarely because they
    /// need two or three requests that fit together. Particulars are still drawn at random.
    pub fn directed(&mut self, tag: &str) -> SupportedMessage {
        let p = self.p;
        match tag {
            "subscription" => CreateSubscriptionRequest {
                request_header: self.plain_header(),
                requested_publishing_interval: 100.0,
                requested_lifetime_count: *self.rng.pick(&[3u32, 30, 300]),
                requested_max_keep_alive_count: *self.rng.pick(&[1u32, 10]),
                max_notifications_per_publish: *self.rng.pick(&[0u32, 1, 10]),
                publishing_enabled: true,
                priority: 0,
            }
            .into(),
            "publish-future-timestamp" => {
                let mut h = self.plain_header();
                let ahead = *self.rng.pick(&[1i64, 1_000, 3_600_000, 86_400_000 * 365]);
                h.timestamp = DateTime::from(chrono::Utc::now() + chrono::Duration::milliseconds(ahead));
                PublishRequest {
                    request_header: h,
                    subscription_acknowledgements: None,
                }
                .into()
            }
            "addnodes-browse-name-namespace" | "addnodes-unknown-namespace" | "addnodes-plain" => {
                let parent = pick(self.rng, &p.objects).unwrap_or_else(NodeId::null);
                let (bn_ns, id_ns) = match tag {
                    "addnodes-browse-name-namespace" => (*self.rng.pick(&[1u16, 2, 3, 100]), self.c.ns),
                    "addnodes-unknown-namespace" => (0, *self.rng.pick(&[self.c.ns + 2, 100, 65535])),
                    _ => (0, self.c.ns),
                };
                AddNodesRequest {
                    request_header: self.plain_header(),
                    nodes_to_add: Some(vec![AddNodesItem {
                        parent_node_id: ExpandedNodeId::new(parent),
                        reference_type_id: ReferenceTypeId::HasComponent.into(),
                        requested_new_node_id: ExpandedNodeId::new(NodeId::new(id_ns, format!("d{}", self.rng.next_u32()))),
                        browse_name: QualifiedName::new(bn_ns, format!("d{}", self.rng.below(1_000_000))),
                        node_class: NodeClass::Object,
                        node_attributes: self.object_attrs(),
                        type_definition: ExpandedNodeId::new(NodeId::from(&ObjectTypeId::BaseObjectType)),
                    }]),
                }
                .into()
            }
            "addnodes-variable-without-dimensions" => {
                let parent = pick(self.rng, &p.objects).unwrap_or_else(NodeId::null);
                let attrs = VariableAttributes {
                    specified_attributes: 0x003f_9ffb,
                    display_name: LocalizedText::from("added"),
                    description: LocalizedText::from("added"),
                    write_mask: 0,
                    user_write_mask: 0,
                    value: Variant::Int32(1),
                    data_type: DataTypeId::Int32.into(),
                    value_rank: -1,
                    array_dimensions: None,
                    access_level: 3,
                    user_access_level: 3,
                    minimum_sampling_interval: 0.0,
                    historizing: false,
                };
                AddNodesRequest {
                    request_header: self.plain_header(),
                    nodes_to_add: Some(vec![AddNodesItem {
                        parent_node_id: ExpandedNodeId::new(parent),
                        reference_type_id: ReferenceTypeId::HasComponent.into(),
                        requested_new_node_id: ExpandedNodeId::new(NodeId::new(self.c.ns, format!("dv{}", self.rng.next_u32()))),
                        browse_name: QualifiedName::new(0, format!("dv{}", self.rng.below(1_000_000))),
                        node_class: NodeClass::Variable,
                        node_attributes: ExtensionObject::from_encodable(ObjectId::VariableAttributes_Encoding_DefaultBinary, &attrs),
                        type_definition: ExpandedNodeId::new(NodeId::from(&VariableTypeId::BaseDataVariableType)),
                    }]),
                }
                .into()
            }
            "addrefs-self" => {
                let n = self.any_node();
                let class = self.class_guess(&n);
                let rt = *self.rng.pick(&[ReferenceTypeId::Organizes, ReferenceTypeId::HasComponent, ReferenceTypeId::HasSubtype]);
                self.add_ref(n.clone(), n, rt, class)
            }
            "addrefs-reftype-cycle" => {
                // a subtype made the supertype of one of its ancestors
                let (sub, sup) = *self.rng.pick(&[
                    (ReferenceTypeId::HasComponent, ReferenceTypeId::Aggregates),
                    (ReferenceTypeId::Organizes, ReferenceTypeId::HierarchicalReferences),
                    (ReferenceTypeId::HasProperty, ReferenceTypeId::HasChild),
                    (ReferenceTypeId::HasOrderedComponent, ReferenceTypeId::References),
                ]);
                self.add_ref(sub.into(), sup.into(), ReferenceTypeId::HasSubtype, NodeClass::ReferenceType)
            }
            "browse-with-subtypes" => BrowseRequest {
                request_header: self.plain_header(),
                view: ViewDescription {
                    view_id: NodeId::null(),
                    timestamp: DateTime::null(),
                    view_version: 0,
                },
                requested_max_references_per_node: 0,
                nodes_to_browse: Some(vec![BrowseDescription {
                    node_id: pick(self.rng, &p.objects).unwrap_or_else(NodeId::null),
                    browse_direction: BrowseDirection::Both,
                    reference_type_id: pick(self.rng, &p.ref_types).unwrap_or_else(NodeId::null),
                    include_subtypes: true,
                    node_class_mask: 0,
                    result_mask: 0x3f,
                }]),
            }
            .into(),
            "addrefs-datatype-cycle" => {
                let (sub, sup) = *self.rng.pick(&[(DataTypeId::Int32, DataTypeId::Number), (DataTypeId::Byte, DataTypeId::BaseDataType), (DataTypeId::Int16, DataTypeId::Integer)]);
                self.add_ref(sub.into(), sup.into(), ReferenceTypeId::HasSubtype, NodeClass::DataType)
            }
            "write-abstract-typed" => WriteRequest {
                request_header: self.plain_header(),
                nodes_to_write: Some(vec![WriteValue {
                    node_id: NodeId::new(self.c.ns, if self.rng.bool() { "v_num" } else { "v_any" }),
                    attribute_id: 13,
                    index_range: UAString::null(),
                    value: DataValue::value_only(match self.rng.below(3) {
                        0 => Variant::Boolean(true),
                        1 => Variant::from("text"),
                        _ => Variant::Double(1.0),
                    }),
                }]),
            }
            .into(),
            "addrefs-aggregates-cycle-1" | "addrefs-aggregates-cycle-2" => {
                let a = p.objects.get(1).cloned().unwrap_or_else(NodeId::null);
                let b = p.objects.get(2).cloned().unwrap_or_else(NodeId::null);
                let rt = *self.rng.pick(&[ReferenceTypeId::HasComponent, ReferenceTypeId::HasProperty, ReferenceTypeId::HasOrderedComponent]);
                if tag.ends_with('1') {
                    self.add_ref(a, b, rt, NodeClass::Object)
                } else {
                    self.add_ref(b, a, rt, NodeClass::Object)
                }
            }
            "delete-in-cycle" => DeleteNodesRequest {
                request_header: self.plain_header(),
                nodes_to_delete: Some(vec![DeleteNodesItem {
                    node_id: p.objects.get(1).cloned().unwrap_or_else(NodeId::null),
                    delete_target_references: self.rng.bool(),
                }]),
            }
            .into(),
            "event-item-element-index" => {
                let idx = *self.rng.pick(&[1u32, 2, 7, u32::MAX]);
                let f = ContentFilter {
                    elements: Some(vec![ContentFilterElement {
                        filter_operator: *self.rng.pick(&[FilterOperator::Not, FilterOperator::IsNull, FilterOperator::And]),
                        filter_operands: Some(vec![
                            ExtensionObject::from_encodable(ObjectId::ElementOperand_Encoding_DefaultBinary, &ElementOperand { index: idx }),
                            ExtensionObject::from_encodable(ObjectId::ElementOperand_Encoding_DefaultBinary, &ElementOperand { index: idx }),
                        ]),
                    }]),
                };
                self.event_item(f)
            }
            "event-item-missing-operands" => {
                let op = *self.rng.pick(&[FilterOperator::Equals, FilterOperator::Between, FilterOperator::Like, FilterOperator::InList, FilterOperator::And, FilterOperator::Cast, FilterOperator::BitwiseOr]);
                let n = self.rng.usize(2);
                let f = ContentFilter {
                    elements: Some(vec![ContentFilterElement {
                        filter_operator: op,
                        filter_operands: if self.rng.chance(1, 4) { None } else { Some((0..n).map(|_| ExtensionObject::from_encodable(ObjectId::LiteralOperand_Encoding_DefaultBinary, &LiteralOperand { value: Variant::Int32(1) })).collect()) },
                    }]),
                };
                self.event_item(f)
            }
            "event-item-self-reference" => {
                let f = ContentFilter {
                    elements: Some(vec![ContentFilterElement {
                        filter_operator: FilterOperator::Not,
                        filter_operands: Some(vec![ExtensionObject::from_encodable(ObjectId::ElementOperand_Encoding_DefaultBinary, &ElementOperand { index: 0 })]),
                    }]),
                };
                self.event_item(f)
            }
            "event-item-unsupported-operator" => {
                let lit = |v: Variant| ExtensionObject::from_encodable(ObjectId::LiteralOperand_Encoding_DefaultBinary, &LiteralOperand { value: v });
                let f = ContentFilter {
                    elements: Some(vec![ContentFilterElement {
                        filter_operator: *self.rng.pick(&[FilterOperator::InView, FilterOperator::OfType, FilterOperator::RelatedTo]),
                        filter_operands: Some(vec![lit(Variant::Int32(1)), lit(Variant::Int32(2))]),
                    }]),
                };
                self.event_item(f)
            }
            "read-nonascii-range" => ReadRequest {
                request_header: self.plain_header(),
                max_age: 0.0,
                timestamps_to_return: TimestampsToReturn::Neither,
                nodes_to_read: Some(vec![ReadValueId {
                    node_id: NodeId::new(self.c.ns, "v_str"),
                    attribute_id: 13,
                    index_range: UAString::from(*self.rng.pick(&["1", "2", "0:1", "1:5", "2:40"])),
                    data_encoding: QualifiedName::null(),
                }]),
            }
            .into(),
            other => panic!("harness: unknown directed tag {}", other),
        }
    }

    pub fn acks(&mut self) -> Option<Vec<SubscriptionAcknowledgement>> {
        match self.rng.below(6) {
            0 => None,
            1 => Some(vec![]),
            2 => Some(vec![SubscriptionAcknowledgement {
                subscription_id: self.sub_id(),
                sequence_number: self.u32_param(),
            }]),
            _ => {
                let n = self.rng.usize(3);
                Some(
                    (0..n)
                        .filter_map(|_| pick(self.rng, &self.c.seqs))
                        .map(|(s, q)| SubscriptionAcknowledgement {
                            subscription_id: s,
                            sequence_number: q,
                        })
                        .collect(),
                )
            }
        }
    }
}

macro_rules! driven_msg {
    ($rng:expr, $token:expr, $t:ty) => {{
        let opts = DecodingOptions::default();
        let mut rd = BiasedReader::new($rng.fork(33), 6000);
        match <$t>::decode(&mut rd, &opts) {
            Ok(mut v) => {
                // the session's token, so that the request reaches the service
                v.request_header.authentication_token = $token.clone();
                { let m: SupportedMessage = v.into(); Some(m) }
            }
            Err(_) => None,
        }
    }};
}

/// Let the real decoder of the request structure pull bytes from the biased generator: every accepted
/// value is a structurally valid request with arbitrary field contents
pub fn driven(rng: &mut Rng, service: &str, token: &NodeId) -> Option<SupportedMessage> {
    match service {
        "GetEndpoints" => driven_msg!(rng, token, GetEndpointsRequest),
        "RegisterServer" => driven_msg!(rng, token, RegisterServerRequest),
        "RegisterServer2" => driven_msg!(rng, token, RegisterServer2Request),
        "FindServers" => driven_msg!(rng, token, FindServersRequest),
        "CreateSession" => driven_msg!(rng, token, CreateSessionRequest),
        "ActivateSession" => driven_msg!(rng, token, ActivateSessionRequest),
        "CloseSession" => driven_msg!(rng, token, CloseSessionRequest),
        "Cancel" => driven_msg!(rng, token, CancelRequest),
        "AddNodes" => driven_msg!(rng, token, AddNodesRequest),
        "AddReferences" => driven_msg!(rng, token, AddReferencesRequest),
        "DeleteNodes" => None, // arbitrary ids could name the probe node; the hand-built generator protects it
        "DeleteReferences" => driven_msg!(rng, token, DeleteReferencesRequest),
        "Browse" => driven_msg!(rng, token, BrowseRequest),
        "BrowseNext" => driven_msg!(rng, token, BrowseNextRequest),
        "TranslateBrowsePathsToNodeIds" => driven_msg!(rng, token, TranslateBrowsePathsToNodeIdsRequest),
        "RegisterNodes" => driven_msg!(rng, token, RegisterNodesRequest),
        "UnregisterNodes" => driven_msg!(rng, token, UnregisterNodesRequest),
        "QueryFirst" => driven_msg!(rng, token, QueryFirstRequest),
        "QueryNext" => driven_msg!(rng, token, QueryNextRequest),
        "Read" => driven_msg!(rng, token, ReadRequest),
        "HistoryRead" => driven_msg!(rng, token, HistoryReadRequest),
        "Write" => driven_msg!(rng, token, WriteRequest),
        "HistoryUpdate" => driven_msg!(rng, token, HistoryUpdateRequest),
        "Call" => driven_msg!(rng, token, CallRequest),
        "CreateMonitoredItems" => driven_msg!(rng, token, CreateMonitoredItemsRequest),
        "ModifyMonitoredItems" => driven_msg!(rng, token, ModifyMonitoredItemsRequest),
        "SetMonitoringMode" => driven_msg!(rng, token, SetMonitoringModeRequest),
        "SetTriggering" => driven_msg!(rng, token, SetTriggeringRequest),
        "DeleteMonitoredItems" => driven_msg!(rng, token, DeleteMonitoredItemsRequest),
        "CreateSubscription" => driven_msg!(rng, token, CreateSubscriptionRequest),
        "ModifySubscription" => driven_msg!(rng, token, ModifySubscriptionRequest),
        "SetPublishingMode" => driven_msg!(rng, token, SetPublishingModeRequest),
        "DeleteSubscriptions" => driven_msg!(rng, token, DeleteSubscriptionsRequest),
        "TransferSubscriptions" => driven_msg!(rng, token, TransferSubscriptionsRequest),
        "Publish" => driven_msg!(rng, token, PublishRequest),
        "Republish" => driven_msg!(rng, token, RepublishRequest),
        _ => None,
    }
}

pub fn service_of(m: &SupportedMessage) -> &'static str {
    match m {
        SupportedMessage::GetEndpointsRequest(_) => "GetEndpoints",
        SupportedMessage::RegisterServerRequest(_) => "RegisterServer",
        SupportedMessage::RegisterServer2Request(_) => "RegisterServer2",
        SupportedMessage::FindServersRequest(_) => "FindServers",
        SupportedMessage::CreateSessionRequest(_) => "CreateSession",
        SupportedMessage::ActivateSessionRequest(_) => "ActivateSession",
        SupportedMessage::CloseSessionRequest(_) => "CloseSession",
        SupportedMessage::CancelRequest(_) => "Cancel",
        SupportedMessage::AddNodesRequest(_) => "AddNodes",
        SupportedMessage::AddReferencesRequest(_) => "AddReferences",
        SupportedMessage::DeleteNodesRequest(_) => "DeleteNodes",
        SupportedMessage::DeleteReferencesRequest(_) => "DeleteReferences",
        SupportedMessage::BrowseRequest(_) => "Browse",
        SupportedMessage::BrowseNextRequest(_) => "BrowseNext",
        SupportedMessage::TranslateBrowsePathsToNodeIdsRequest(_) => "TranslateBrowsePathsToNodeIds",
        SupportedMessage::RegisterNodesRequest(_) => "RegisterNodes",
        SupportedMessage::UnregisterNodesRequest(_) => "UnregisterNodes",
        SupportedMessage::QueryFirstRequest(_) => "QueryFirst",
        SupportedMessage::QueryNextRequest(_) => "QueryNext",
        SupportedMessage::ReadRequest(_) => "Read",
        SupportedMessage::HistoryReadRequest(_) => "HistoryRead",
        SupportedMessage::WriteRequest(_) => "Write",
        SupportedMessage::HistoryUpdateRequest(_) => "HistoryUpdate",
        SupportedMessage::CallRequest(_) => "Call",
        SupportedMessage::CreateMonitoredItemsRequest(_) => "CreateMonitoredItems",
        SupportedMessage::ModifyMonitoredItemsRequest(_) => "ModifyMonitoredItems",
        SupportedMessage::SetMonitoringModeRequest(_) => "SetMonitoringMode",
        SupportedMessage::SetTriggeringRequest(_) => "SetTriggering",
        SupportedMessage::DeleteMonitoredItemsRequest(_) => "DeleteMonitoredItems",
        SupportedMessage::CreateSubscriptionRequest(_) => "CreateSubscription",
        SupportedMessage::ModifySubscriptionRequest(_) => "ModifySubscription",
        SupportedMessage::SetPublishingModeRequest(_) => "SetPublishingMode",
        SupportedMessage::DeleteSubscriptionsRequest(_) => "DeleteSubscriptions",
        SupportedMessage::TransferSubscriptionsRequest(_) => "TransferSubscriptions",
        SupportedMessage::PublishRequest(_) => "Publish",
        SupportedMessage::RepublishRequest(_) => "Republish",
        _ => "other",
    }
}
